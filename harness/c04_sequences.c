/*
** C04 -- Array, List and Tuple behave as sequences.
**
** Reference: a C array of int64 values per container.  After EVERY operation: len, get(i) for every
** i in [0,len), get(-i) for every i in [1,len], mem of present and absent values, foreach order.
** sort/sort_by: permutation + ordered by the comparison used.  rem deletes the first equal element.
*/
#include "probes.h"
#include "Array.c"

enum { KIND_ARRAY, KIND_LIST, KIND_TUPLE };
enum { ET_INT, ET_FLOAT, ET_STR, ET_PE, ET_REC, ET_COUNT };
static const char* KINDNAME[3] = { "Array", "List", "Tuple" };
static const char* ETNAME[ET_COUNT] = { "Int", "Float", "String", "PElem", "Rec20" };

/* a plain 20-byte record without any instance: eq / cmp / assign / swap are the byte-wise defaults over size(type)
   bytes, and 20 is not a multiple of the word size.  Bytes 0..7: a tag every record shares (so that two different
   records agree in their first word); bytes 8..15: the value, biased and big-endian (byte order == numeric order);
   bytes 16..19: a checksum of the value, so a torn record decodes to a value that was never stored. */
static var Rec12;
struct Rec12 { unsigned char b[20]; };
static void rec12_fill(unsigned char* b, int64_t v) {
  memcpy(b, "RECORD..", 8);
  uint64_t u = (uint64_t)v + ((uint64_t)1 << 62);
  for (int i = 0; i < 8; i++) { b[8 + i] = (unsigned char)(u >> (56 - 8 * i)); }
  uint32_t c = (uint32_t)((uint64_t)v * 2654435761u) ^ 0xA5A5A5A5u;
  memcpy(b + 16, &c, 4);
}
static int64_t rec12_value(const unsigned char* b) {
  uint64_t u = 0;
  for (int i = 0; i < 8; i++) { u = (u << 8) | b[8 + i]; }
  int64_t v = (int64_t)(u - ((uint64_t)1 << 62));
  uint32_t c = (uint32_t)((uint64_t)v * 2654435761u) ^ 0xA5A5A5A5u, got;
  memcpy(&got, b + 16, 4);
  return got == c && memcmp(b, "RECORD..", 8) == 0 ? v : (int64_t)0x7ead7ead00000000 + (int64_t)(got & 0xffff);   /* torn record */
}
static var rec12_init(char* buf, int64_t v) { var o = header_init(buf, Rec12, AllocStack); rec12_fill(o, v); return o; }
enum { MAXLEN = 2600 };

struct seq { int kind, et; var c; int64_t m[MAXLEN]; int n; };

static var etype(int et) { return et == ET_INT ? Int : et == ET_FLOAT ? Float : et == ET_STR ? String : et == ET_REC ? Rec12 : PElem; }

/* read an element's value back */
static int64_t elem_value(int et, var e) {
  switch (et) {
    case ET_INT: return ((struct Int*)e)->val;
    case ET_FLOAT: return (int64_t)((struct Float*)e)->val;
    case ET_STR: return strtoll(((struct String*)e)->val + 1, NULL, 10) - 1000000;   /* fixed width: byte order == numeric order */
    case ET_REC: return rec12_value(e);
    default: return ((struct PElem*)e)->id;
  }
}

/* build a value object: stack object for embedded containers, fresh heap Int for tuples.
   The macro keeps the compound literals alive for the enclosing block. */
#define MKVAL(S, V, OUT) \
  char vh__b[32]; snprintf(vh__b, sizeof vh__b, "s%07" PRId64, (int64_t)(V) + 1000000); \
  char vh__r[sizeof(struct Header) + 24]; \
  var OUT = (S)->kind == KIND_TUPLE ? (var)new(Int, $I(V)) : \
            (S)->et == ET_INT ? (var)$I(V) : (S)->et == ET_FLOAT ? (var)$F((double)(V)) : \
            (S)->et == ET_STR ? (var)$S(vh__b) : (S)->et == ET_REC ? rec12_init(vh__r, (V)) : (var)PE_KEY((V), (uint64_t)(V))

static var seq_new(struct seq* s, int kind, int et) {
  s->kind = kind; s->et = kind == KIND_TUPLE ? ET_INT : et; s->n = 0;
  if (kind == KIND_ARRAY) { s->c = new_with(Array, tuple(etype(s->et))); }
  else if (kind == KIND_LIST) { s->c = new_with(List, tuple(etype(s->et))); }
  else { s->c = new(Tuple); }
  return s->c;
}

/* ---------- oracle ---------- */

static int pin_neg_push_at[3];   /* 0 unknown, 1: index resolved against the new length, 2: against the old length */

static void check_seq(struct seq* s, const char* after, const char* who) {
  char key[96];
  #define KEY(x) (snprintf(key, sizeof key, "C04:%s:%s:%s", who, KINDNAME[s->kind], x), key)
  vh_eval();
  if (len(s->c) != (size_t)s->n) { vh_violation(KEY("len-mismatch"), "len=%zu reference=%d after %s", len(s->c), s->n, after); return; }
  int stride = s->n > 400 ? 7 : 1;
  for (int i = 0; i < s->n; i += stride) {
    var exc = NULL, e = NULL;
    vh_evals(2);
    VH_CATCH(e = get(s->c, $I(i)), exc);
    if (exc) { vh_violation(KEY("get-raised-in-range"), "get(%d) of %d raised %s after %s", i, s->n, vh_exc_name(exc), after); return; }
    if (elem_value(s->et, e) != s->m[i]) { vh_violation(KEY("get-wrong-element"), "get(%d)=%" PRId64 " reference=%" PRId64 " after %s", i, elem_value(s->et, e), s->m[i], after); return; }
    VH_CATCH(e = get(s->c, $I(i - s->n)), exc);
    if (exc) { vh_violation(KEY("get-negative-raised-in-range"), "get(%d) of %d raised %s after %s", i - s->n, s->n, vh_exc_name(exc), after); return; }
    if (elem_value(s->et, e) != s->m[i]) { vh_violation(KEY("get-negative-wrong-element"), "get(%d)=%" PRId64 " reference=%" PRId64 " after %s", i - s->n, elem_value(s->et, e), s->m[i], after); return; }
  }
  /* iteration */
  size_t steps = 0, limit = (size_t)s->n + 2;
  var it = iter_init(s->c);
  while (it != Terminal && steps <= limit) {
    vh_eval();
    if (steps < (size_t)s->n && elem_value(s->et, it) != s->m[steps]) {
      vh_violation(KEY("iteration-wrong-element"), "iteration item %zu = %" PRId64 " reference=%" PRId64 " after %s", steps, elem_value(s->et, it), s->m[steps], after);
      return;
    }
    steps++;
    it = iter_next(s->c, it);
  }
  if (steps > limit) { vh_violation(KEY("iteration-does-not-end"), "more than len+2 steps after %s", after); return; }
  if (steps != (size_t)s->n) { vh_violation(KEY("iteration-count"), "iteration yields %zu items, reference %d after %s", steps, s->n, after); return; }
  /* ... and backwards, from the last element */
  steps = 0;
  it = iter_last(s->c);
  while (it != Terminal && steps <= limit) {
    vh_eval();
    if (steps < (size_t)s->n && elem_value(s->et, it) != s->m[(size_t)s->n - 1 - steps]) {
      vh_violation(KEY("backward-iteration-wrong-element"), "backward iteration item %zu = %" PRId64 " reference=%" PRId64 " (len %d) after %s", steps, elem_value(s->et, it), s->m[(size_t)s->n - 1 - steps], s->n, after);
      return;
    }
    steps++;
    it = iter_prev(s->c, it);
  }
  if (steps > limit) { vh_violation(KEY("backward-iteration-does-not-end"), "more than len+2 steps after %s", after); return; }
  if (steps != (size_t)s->n) { vh_violation(KEY("backward-iteration-count"), "backward iteration yields %zu items, reference %d after %s", steps, s->n, after); return; }
  if (s->n > 0) { vh_count("backward_walks_of_non_empty_sequences"); }
  /* mem: a present value and an absent one */
  if (s->n > 0) {
    int64_t pv = s->m[(s->n * 7 / 11) % s->n];
    MKVAL(s, pv, probe);
    vh_eval();
    if (!mem(s->c, probe)) { vh_violation(KEY("mem-present-false"), "mem(%" PRId64 ") false though it is element %d after %s", pv, (s->n * 7 / 11) % s->n, after); }
    if (s->kind == KIND_TUPLE) { del(probe); }
  }
  {
    int64_t av = 900000 + s->n;
    MKVAL(s, av, probe);
    vh_eval();
    if (mem(s->c, probe)) { vh_violation(KEY("mem-absent-true"), "mem(%" PRId64 ") true though no element has that value after %s", av, after); }
    if (s->kind == KIND_TUPLE) { del(probe); }
  }
  #undef KEY
}

/* ---------- model operations ---------- */

static void m_insert(struct seq* s, int pos, int64_t v) {
  memmove(&s->m[pos + 1], &s->m[pos], sizeof(int64_t) * (size_t)(s->n - pos));
  s->m[pos] = v; s->n++;
}
static void m_remove(struct seq* s, int pos) {
  memmove(&s->m[pos], &s->m[pos + 1], sizeof(int64_t) * (size_t)(s->n - pos - 1));
  s->n--;
}

static int64_t rand_value(vh_rng* r) { return vh_chance(r, 90) ? vh_range(r, -3, 12) : vh_range(r, -100000, 100000); }

static bool cmp_gt(var a, var b) { return gt(a, b); }
/* comparison functions that hold for equal elements too: the pivot compares true with itself */
static bool cmp_le(var a, var b) { return le(a, b); }
static bool cmp_ge(var a, var b) { return ge(a, b); }

static size_t arr_slots(struct seq* s) { return s->kind == KIND_ARRAY ? ((struct Array*)s->c)->nslots : 0; }

static int model_matches(struct seq* s) {
  if (len(s->c) != (size_t)s->n) { return 0; }
  for (int i = 0; i < s->n; i++) { if (elem_value(s->et, get(s->c, $I(i))) != s->m[i]) { return 0; } }
  return 1;
}

/* one random in-range operation on s; other: a second live container usable as argument */
static void one_op(vh_rng* r, struct seq* s, int maxlen, char* opd, size_t opcap) {
  var exc = NULL;
  size_t slots0 = arr_slots(s);
  int roll = (int)vh_below(r, 100);
  char key[96];
  #define KEY(x) (snprintf(key, sizeof key, "C04:op:%s:%s", KINDNAME[s->kind], x), key)
  if (s->n >= maxlen && roll < 45) { roll = 45 + roll % 30; }
  if (roll < 22) {
    int64_t v = rand_value(r);
    MKVAL(s, v, x);
    int ap = vh_chance(r, 30);
    snprintf(opd, opcap, "%s(%" PRId64 ")", ap ? "append" : "push", v);
    vh_op("%s", opd);
    if (ap) { VH_CATCH(append(s->c, x), exc); } else { VH_CATCH(push(s->c, x), exc); }
    if (exc) { vh_violation(KEY("push-raised"), "%s raised %s", opd, vh_exc_name(exc)); return; }
    m_insert(s, s->n, v);
    vh_count("push");
  } else if (roll < 40) {
    int64_t v = rand_value(r);
    MKVAL(s, v, x);
    int hi = s->kind == KIND_ARRAY ? s->n : s->n - 1;     /* i == len appends for Array, out of range for List/Tuple */
    if (hi < 0 && s->kind == KIND_LIST) { hi = 0; vh_count("push_at_0_on_an_empty_list"); }     /* index 0 of an empty List is in range (an empty Tuple refuses it) */
    if (hi < 0) { snprintf(opd, opcap, "skip"); return; }
    int i = vh_chance(r, 25) ? 0 : vh_chance(r, 25) ? hi : (int)vh_below(r, (uint64_t)hi + 1);
    int neg = s->n > 0 && vh_chance(r, 20);
    if (neg) {
      /* negative index: the statement leaves the convention open; accept either, pin the first one seen per kind */
      int k = -(1 + (int)vh_below(r, (uint64_t)s->n));
      snprintf(opd, opcap, "push_at(%" PRId64 ",%d)", v, k);
      vh_op("%s", opd);
      VH_CATCH(push_at(s->c, x, $I(k)), exc);
      if (exc) { vh_violation(KEY("push_at-negative-raised"), "%s on %d elements raised %s", opd, s->n, vh_exc_name(exc)); return; }
      int posA = s->n + 1 + k, posB = s->n + k;
      int okA = 0, okB = 0;
      static struct seq ta, tb;
      ta = *s; tb = *s;
      m_insert(&ta, posA, v); m_insert(&tb, posB, v);
      okA = model_matches(&ta); okB = model_matches(&tb);
      int pin = pin_neg_push_at[s->kind];
      vh_eval();
      if (okA && okB) { *s = ta; }                       /* both conventions give the same sequence here */
      else if ((pin == 1 || pin == 0) && okA) { *s = ta; pin_neg_push_at[s->kind] = 1; }
      else if ((pin == 2 || pin == 0) && okB) { *s = tb; pin_neg_push_at[s->kind] = 2; }
      else {
        vh_violation(KEY("push_at-negative-wrong-position"), "%s on %d elements matches neither insertion before len+1+i nor before len+i%s",
          opd, s->n, pin ? " (convention seen earlier in this run)" : "");
        *s = okA ? ta : tb;
      }
      vh_count("push_at_negative");
    } else {
      snprintf(opd, opcap, "push_at(%" PRId64 ",%d)", v, i);
      vh_op("%s", opd);
      VH_CATCH(push_at(s->c, x, $I(i)), exc);
      if (exc) { vh_violation(KEY("push_at-raised-in-range"), "%s on %d elements raised %s", opd, s->n, vh_exc_name(exc)); return; }
      if (i == 0) { vh_count("push_at_front"); }
      if (i == hi) { vh_count("push_at_last_index"); }
      m_insert(s, i, v);
    }
  } else if (roll < 50) {
    if (s->n == 0) { snprintf(opd, opcap, "skip"); return; }
    snprintf(opd, opcap, "pop()");
    vh_op("%s", opd);
    VH_CATCH(pop(s->c), exc);
    if (exc) { vh_violation(KEY("pop-raised-nonempty"), "pop on %d elements raised %s", s->n, vh_exc_name(exc)); return; }
    s->n--;
    vh_count("pop");
  } else if (roll < 62) {
    if (s->n == 0) { snprintf(opd, opcap, "skip"); return; }
    int i = vh_chance(r, 25) ? 0 : vh_chance(r, 25) ? s->n - 1 : (int)vh_below(r, (uint64_t)s->n);
    int k = vh_chance(r, 35) ? i - s->n : i;
    snprintf(opd, opcap, "pop_at(%d)", k);
    vh_op("%s", opd);
    VH_CATCH(pop_at(s->c, $I(k)), exc);
    if (exc) { vh_violation(KEY("pop_at-raised-in-range"), "%s on %d elements raised %s", opd, s->n, vh_exc_name(exc)); return; }
    if (i == 0) { vh_count("pop_at_front"); }
    if (i == s->n - 1) { vh_count("pop_at_last_index"); }
    m_remove(s, i);
  } else if (roll < 72) {
    if (s->n == 0) { snprintf(opd, opcap, "skip"); return; }
    int i = (int)vh_below(r, (uint64_t)s->n);
    int k = vh_chance(r, 35) ? i - s->n : i;
    int64_t v = rand_value(r);
    MKVAL(s, v, x);
    snprintf(opd, opcap, "set(%d,%" PRId64 ")", k, v);
    vh_op("%s", opd);
    VH_CATCH(set(s->c, $I(k), x), exc);
    if (exc) { vh_violation(KEY("set-raised-in-range"), "%s on %d elements raised %s", opd, s->n, vh_exc_name(exc)); return; }
    s->m[i] = v;
    vh_count("set");
  } else if (roll < 80) {
    if (s->n == 0) { snprintf(opd, opcap, "skip"); return; }
    int64_t v = s->m[vh_below(r, (uint64_t)s->n)];
    int first = 0;
    while (s->m[first] != v) { first++; }
    int dup = 0;
    for (int i = first + 1; i < s->n; i++) { if (s->m[i] == v) { dup = 1; } }
    MKVAL(s, v, x);
    snprintf(opd, opcap, "rem(%" PRId64 ")", v);
    vh_op("%s", opd);
    VH_CATCH(rem(s->c, x), exc);
    if (s->kind == KIND_TUPLE) { del(x); }
    if (exc) { vh_violation(KEY("rem-raised-for-present"), "%s raised %s", opd, vh_exc_name(exc)); return; }
    m_remove(s, first);
    if (dup) { vh_count("rem_with_duplicates"); }
    vh_count("rem");
  } else if (roll < 86) {
    /* concat with a fresh container of 0..5 elements */
    struct seq o;
    int okind = s->kind == KIND_TUPLE ? KIND_TUPLE : (int)vh_below(r, 2);
    /* an Array or List of Int may also be extended from a Tuple of Int objects: the receiver keeps its own element type
       (also when it holds nothing at that moment) */
    if (s->kind != KIND_TUPLE && s->et == ET_INT && vh_chance(r, 30)) { okind = KIND_TUPLE; vh_count(s->n == 0 ? "concat_from_a_tuple_onto_an_empty_container" : "concat_from_a_tuple"); }
    seq_new(&o, okind, s->et);
    int k = (int)vh_below(r, 6);
    for (int i = 0; i < k && s->n + i < maxlen + 8; i++) { int64_t v = rand_value(r); MKVAL(&o, v, x); push(o.c, x); o.m[o.n++] = v; }
    snprintf(opd, opcap, "concat(%s of %d)", KINDNAME[okind], o.n);
    vh_op("%s", opd);
    VH_CATCH(concat(s->c, o.c), exc);
    if (exc) { vh_violation(KEY("concat-raised"), "%s raised %s", opd, vh_exc_name(exc)); return; }
    for (int i = 0; i < o.n; i++) { s->m[s->n++] = o.m[i]; }
    check_seq(&o, opd, "concat-argument");
    del(o.c);
    vh_count("concat");
  } else if (roll < 91) {
    int n;
    if (s->kind == KIND_TUPLE) { if (s->n == 0) { snprintf(opd, opcap, "skip"); return; } n = (int)vh_below(r, (uint64_t)s->n); }
    else if (s->kind == KIND_LIST) {
      n = (int)vh_below(r, (uint64_t)s->n + 1);
      if ((s->et == ET_INT || s->et == ET_FLOAT) && vh_chance(r, 30) && s->n + 4 < maxlen) { n = s->n + 1 + (int)vh_below(r, 3); }
    }
    else { n = (int)vh_below(r, (uint64_t)s->n + 8); }
    snprintf(opd, opcap, "resize(%d)", n);
    vh_op("%s", opd);
    VH_CATCH(resize(s->c, (size_t)n), exc);
    if (exc) { vh_violation(KEY("resize-raised"), "%s on %d elements raised %s", opd, s->n, vh_exc_name(exc)); return; }
    if (n < s->n) { s->n = n; vh_count("resize_truncate"); }
    else if (s->kind == KIND_LIST) { while (s->n < n) { s->m[s->n++] = 0; } vh_count("resize_list_grow"); }
    else { vh_count("resize_reserve"); }
  } else if (roll < 95 && s->kind != KIND_LIST) {
    int how = (int)vh_below(r, 5);            /* sort(), sort_by(gt), sort_by(le), sort_by(ge), sort() */
    int desc = how == 1 || how == 3;
    static int64_t before[MAXLEN];
    memcpy(before, s->m, sizeof(int64_t) * (size_t)s->n);
    snprintf(opd, opcap, "%s", how == 1 ? "sort_by(gt)" : how == 2 ? "sort_by(le)" : how == 3 ? "sort_by(ge)" : "sort()");
    vh_op("%s", opd);
    if (how == 1) { VH_CATCH(sort_by(s->c, cmp_gt), exc); } else if (how == 2) { VH_CATCH(sort_by(s->c, cmp_le), exc); }
    else if (how == 3) { VH_CATCH(sort_by(s->c, cmp_ge), exc); } else { VH_CATCH(sort(s->c), exc); }
    if (how == 2 || how == 3) { vh_count("sorts_by_a_reflexive_comparison"); }
    if (exc) { vh_violation(KEY("sort-raised"), "%s raised %s", opd, vh_exc_name(exc)); return; }
    /* reference: insertion sort of the model */
    int ties = 0;
    for (int i = 1; i < s->n; i++) {
      int64_t v = s->m[i]; int j = i - 1;
      while (j >= 0 && (desc ? s->m[j] < v : s->m[j] > v)) { s->m[j + 1] = s->m[j]; j--; }
      s->m[j + 1] = v;
    }
    for (int i = 1; i < s->n; i++) { if (s->m[i] == s->m[i - 1]) { ties = 1; } }
    if (ties) { vh_count("sorts_with_ties"); }
    vh_count("sort");
    /* ordered + permutation is exactly "equals the sorted model" because equal values are indistinguishable here */
  } else if (roll < 98) {
    /* assign from another container */
    struct seq o;
    int okind = s->kind == KIND_TUPLE ? KIND_TUPLE : (int)vh_below(r, 2);
    seq_new(&o, okind, s->et);
    int k = (int)vh_below(r, 9);
    for (int i = 0; i < k; i++) { int64_t v = rand_value(r); MKVAL(&o, v, x); push(o.c, x); o.m[o.n++] = v; }
    snprintf(opd, opcap, "assign(from %s of %d)", KINDNAME[okind], o.n);
    vh_op("%s", opd);
    VH_CATCH(assign(s->c, o.c), exc);
    if (exc) { vh_violation(KEY("assign-raised"), "%s raised %s", opd, vh_exc_name(exc)); return; }
    memcpy(s->m, o.m, sizeof(int64_t) * (size_t)o.n); s->n = o.n;
    check_seq(&o, opd, "assign-source");
    /* mutate the source, the target must not change (deep copy) -- tuples share element objects by design */
    char rbuf[sizeof(struct Header) + 24];
    if (o.kind != KIND_TUPLE && o.n > 0) { set(o.c, $I(0), o.et == ET_INT ? (var)$I(777777) : o.et == ET_FLOAT ? (var)$F(777777.0) : o.et == ET_STR ? (var)$S("s1777777") : o.et == ET_REC ? rec12_init(rbuf, 777777) : (var)PE_KEY(777777, 1)); }
    del(o.c);
    vh_count("assign");
  } else {
    static struct seq cp;
    snprintf(opd, opcap, "copy+mutate");
    vh_op("%s", opd);
    var c = NULL;
    VH_CATCH(c = copy(s->c), exc);
    if (exc || !c) { vh_violation(KEY("copy-raised"), "copy raised %s", vh_exc_name(exc)); return; }
    cp = *s; cp.c = c;
    check_seq(&cp, "copy", "copy");
    { int64_t v = rand_value(r); MKVAL(&cp, v, x); push(cp.c, x); cp.m[cp.n++] = v; }
    if (cp.n > 1) { pop_at(cp.c, $I(0)); m_remove(&cp, 0); }
    check_seq(&cp, "copy mutated", "copy");
    del(cp.c);
    vh_count("copy");
  }
  size_t slots1 = arr_slots(s);
  if (slots1 > slots0) { vh_count("array_growth_reallocations"); }
  if (slots1 < slots0) { vh_count("array_shrink_reallocations"); }
  #undef KEY
}

static void run_seq_case(vh_rng* r, int kind, int et, int nops, int maxlen, int profile) {
  struct seq s;      /* on the stack: the collector must see s.c */
  int64_t live0 = pe.live;
  seq_new(&s, kind, et);
  char opd[96] = "construction";
  vh_op("%s<%s> ops=%d maxlen=%d profile=%d", KINDNAME[kind], ETNAME[s.et], nops, maxlen, profile);
  check_seq(&s, opd, "model");
  for (int op = 0; op < nops; op++) {
    if (profile == 1 && op < maxlen) {
      /* steady growth across every x1.5 capacity step, then steady shrink */
      int64_t v = rand_value(r); MKVAL(&s, v, x);
      size_t s0 = arr_slots(&s);
      snprintf(opd, sizeof opd, "push(%" PRId64 ")", v);
      push(s.c, x); m_insert(&s, s.n, v);
      if (arr_slots(&s) > s0) { vh_count("array_growth_reallocations"); }
    } else if (profile == 1 && op < 2 * maxlen && s.n > 0) {
      size_t s0 = arr_slots(&s);
      snprintf(opd, sizeof opd, "pop()");
      pop(s.c); s.n--;
      if (arr_slots(&s) < s0) { vh_count("array_shrink_reallocations"); }
    } else {
      one_op(r, &s, maxlen, opd, sizeof opd);
    }
    check_seq(&s, opd, "model");
    if (s.et == ET_PE) {
      vh_eval();
      if (pe.live - live0 != s.n) {
        vh_violation("C04:ledger:live-elements-differ-from-length", "%" PRId64 " live probe elements, length %d after %s", pe.live - live0, s.n, opd);
        live0 = pe.live - s.n;
      }
    }
  }
  if (vh.nops >= 15) { vh_nontrivial(); }
  del(s.c);
  if (s.et == ET_PE) {
    vh_eval();
    if (pe.live != live0) { vh_violation("C04:ledger:elements-left-after-delete", "%" PRId64 " probe elements live after deleting the container", pe.live - live0); }
  }
}

static void case_random(vh_rng* r, long index) {
  int kind = (int)(index % 3);
  int et = (int)((index / 3) % ET_COUNT);
  int profile = (index % 7 == 0) ? 1 : 0;
  static const int ML[] = { 2, 5, 9, 17, 40, 90, 200, 600 };
  int maxlen = ML[vh_below(r, vh.thorough ? 8 : 6)];
  int nops = 30 + (int)vh_below(r, (uint64_t)maxlen * 3);
  if (!vh.thorough && nops > 220) { nops = 220; }
  if (kind == KIND_TUPLE && maxlen > 200) { maxlen = 200; }
  run_seq_case(r, kind, et, nops, maxlen, profile);
}

/* sort: dedicated inputs (sorted, reverse sorted, all equal, two values, random) */
static void sort_cases(vh_rng* r) {
  for (int kind = 0; kind < 3; kind += 2) {
    for (int shape = 0; shape < 5; shape++) {
      for (int et = 0; et < (kind == KIND_TUPLE ? 1 : ET_COUNT); et++) {
        struct seq s;
        seq_new(&s, kind, et);
        int n = shape == 2 ? 1500 : 120 + (int)vh_below(r, 200);
        if (kind == KIND_TUPLE && n > 400) { n = 400; }
        for (int i = 0; i < n; i++) {
          int64_t v = shape == 0 ? i : shape == 1 ? n - i : shape == 2 ? 5 : shape == 3 ? (int64_t)vh_below(r, 2) : vh_range(r, -50, 50);
          MKVAL(&s, v, x); push(s.c, x); s.m[s.n++] = v;
        }
        vh.oplen = 0; vh.oplog[0] = 0; vh.nops = 0;
        vh_op("%s<%s> sort shape=%d n=%d", KINDNAME[kind], ETNAME[s.et], shape, n);
        var exc;
        VH_CATCH(sort(s.c), exc);
        if (exc) { vh_violation("C04:sort:raised", "sort raised %s", vh_exc_name(exc)); }
        for (int i = 1; i < s.n; i++) { int64_t v = s.m[i]; int j = i - 1; while (j >= 0 && s.m[j] > v) { s.m[j + 1] = s.m[j]; j--; } s.m[j + 1] = v; }
        check_seq(&s, "sort()", "sort");
        VH_CATCH(sort_by(s.c, cmp_gt), exc);
        for (int i = 0; i < s.n / 2; i++) { int64_t t = s.m[i]; s.m[i] = s.m[s.n - 1 - i]; s.m[s.n - 1 - i] = t; }
        check_seq(&s, "sort_by(gt)", "sort");
        if (n > 400) { vh_count("sort_shapes"); del(s.c); continue; }          /* (quadratic for all-equal input) */
        VH_CATCH(sort_by(s.c, cmp_le), exc);
        if (exc) { vh_violation("C04:sort:raised", "sort_by(le) raised %s", vh_exc_name(exc)); }
        for (int i = 0; i < s.n / 2; i++) { int64_t t = s.m[i]; s.m[i] = s.m[s.n - 1 - i]; s.m[s.n - 1 - i] = t; }
        check_seq(&s, "sort_by(le)", "sort");
        VH_CATCH(sort_by(s.c, cmp_ge), exc);
        if (exc) { vh_violation("C04:sort:raised", "sort_by(ge) raised %s", vh_exc_name(exc)); }
        for (int i = 0; i < s.n / 2; i++) { int64_t t = s.m[i]; s.m[i] = s.m[s.n - 1 - i]; s.m[s.n - 1 - i] = t; }
        check_seq(&s, "sort_by(ge)", "sort");
        vh_count("sort_shapes");
        if (shape >= 2 && shape <= 3) { vh_count("sorts_with_ties"); }
        del(s.c);
      }
    }
  }
}

static void fixed(void) {
  vh_rng r; vh_rng_seed(&r, 4242);
  sort_cases(&r);
  for (int kind = 0; kind < 3; kind++) {
    for (int et = 0; et < (kind == KIND_TUPLE ? 1 : ET_COUNT); et++) {
      vh.oplen = 0; vh.oplog[0] = 0; vh.nops = 0;
      run_seq_case(&r, kind, et, 700, 300, 1);
      vh.oplen = 0; vh.oplog[0] = 0; vh.nops = 0;
      run_seq_case(&r, kind, et, 300, 24, 0);
    }
  }
}

int main(int argc, char** argv) {
  probes_init();
  pe_prop = "C04";
  Rec12 = new_root(Type, $S("Rec20"), $I(20));
  return vh_run(argc, argv, "seq", fixed, case_random);
}
