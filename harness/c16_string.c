/*
** C16 -- String behaves as a C-string value.
** Reference: a buffer maintained with libc (strcpy/strcat/strstr/memmove); compared after every operation.
*/
#include "vh.h"

enum { CAP = 4096 };
static char ref_[CAP];

static int sgn(int x) { return (x > 0) - (x < 0); }

static void esc(const char* s, char* out, size_t cap) {
  size_t o = 0;
  for (; *s && o + 6 < cap; s++) {
    unsigned char c = (unsigned char)*s;
    if (c >= 32 && c < 127 && c != '\\') { out[o++] = (char)c; }
    else { o += (size_t)snprintf(out + o, cap - o, "\\x%02x", c); }
  }
  out[o] = 0;
}

static void rand_text(vh_rng* r, char* buf, size_t maxlen, int alphabet) {
  size_t n = vh_below(r, maxlen + 1);
  for (size_t i = 0; i < n; i++) {
    switch (alphabet) {
      case 0: buf[i] = (char)('a' + vh_below(r, 2)); break;                 /* overlapping occurrences */
      case 1: buf[i] = (char)('a' + vh_below(r, 4)); break;
      case 2: buf[i] = (char)(1 + vh_below(r, 255)); break;                 /* full byte range */
      default: buf[i] = "ab%c\\\" \n"[vh_below(r, 8)]; break;
    }
  }
  buf[n] = 0;
}

static void check_string(var s, const char* after, vh_rng* r) {
  vh_evals(6);
  const char* v = c_str(s);
  if (v == NULL) { vh_violation("C16:model:c_str-null", "c_str is NULL after %s", after); return; }
  size_t n = strlen(v);      /* ASan: the terminator must be inside the allocation */
  if (strcmp(v, ref_) != 0) {
    char a[200], b[200]; esc(v, a, sizeof a); esc(ref_, b, sizeof b);
    vh_violation("C16:model:contents-differ", "c_str=\"%s\" reference=\"%s\" after %s", a, b, after);
    return;
  }
  if (len(s) != strlen(ref_)) { vh_violation("C16:model:len-mismatch", "len=%zu reference=%zu after %s", len(s), strlen(ref_), after); }
  if (hash(s) != hash($S(ref_))) { vh_violation("C16:model:hash-differs-from-equal-stack-string", "hash of heap String differs from hash of an equal stack String after %s", after); }
  if (!eq(s, $S(ref_)) || cmp(s, $S(ref_)) != 0) { vh_violation("C16:model:not-equal-to-equal-string", "eq/cmp against an equal stack String fails after %s", after); }
  /* cmp / mem against other strings */
  for (int k = 0; k < 3; k++) {
    char o[40];
    if (k == 0 && n > 0) {
      /* a real substring */
      size_t a = vh_below(r, n), l = 1 + vh_below(r, n - a);
      if (l > sizeof o - 1) { l = sizeof o - 1; }
      memcpy(o, ref_ + a, l); o[l] = 0;
    } else { rand_text(r, o, 6, k == 1 ? 0 : 2); }
    vh_evals(2);
    int c = sgn(cmp(s, $S(o))), want = sgn(strcmp(ref_, o));
    if (c != want) { char e[200]; esc(o, e, sizeof e); vh_violation("C16:model:cmp-differs-from-strcmp", "sign(cmp)=%d strcmp sign=%d against \"%s\" after %s", c, want, e, after); }
    bool m = mem(s, $S(o)), wm = strstr(ref_, o) != NULL;
    if (m != wm) { char e[200]; esc(o, e, sizeof e); vh_violation("C16:model:mem-differs-from-strstr", "mem=%d strstr=%d for \"%s\" after %s", (int)m, (int)wm, e, after); }
  }
}

static void case_random(vh_rng* r, long index) {
  int alphabet = (int)(index % 4);
  size_t maxlen = (index % 5 == 0) ? 700 : 40;
  var s = new(String);
  ref_[0] = 0;
  char opd[160], e[120];
  int nops = 25 + (int)vh_below(r, vh.thorough ? 120 : 50);
  vh_op("String alphabet=%d maxlen=%zu ops=%d", alphabet, maxlen, nops);
  check_string(s, "construction", r);
  for (int op = 0; op < nops; op++) {
    var exc = NULL;
    int roll = (int)vh_below(r, 100);
    size_t n = strlen(ref_);
    char arg[800];
    if (roll < 15) {
      rand_text(r, arg, vh_chance(r, 20) ? maxlen : 8, alphabet);
      if (vh_chance(r, 10)) { strcpy(arg, ref_); vh_count("argument_equal_to_target"); }
      esc(arg, e, sizeof e); snprintf(opd, sizeof opd, "assign(\"%s\")", e);
      vh_op("%s", opd);
      VH_CATCH(assign(s, $S(arg)), exc);
      if (exc) { vh_violation("C16:op:assign-raised", "%s raised %s", opd, vh_exc_name(exc)); continue; }
      strcpy(ref_, arg);
    } else if (roll < 40) {
      rand_text(r, arg, 8, alphabet);
      if (vh_chance(r, 10)) { arg[0] = 0; vh_count("empty_argument"); }
      if (vh_chance(r, 10) && n < 300) { strcpy(arg, ref_); vh_count("argument_equal_to_target"); }
      if (n + strlen(arg) >= maxlen + 60) { arg[0] = 0; }
      int ap = vh_chance(r, 40);
      esc(arg, e, sizeof e); snprintf(opd, sizeof opd, "%s(\"%s\")", ap ? "append" : "concat", e);
      vh_op("%s", opd);
      if (ap) { VH_CATCH(append(s, $S(arg)), exc); } else { VH_CATCH(concat(s, $S(arg)), exc); }
      if (exc) { vh_violation("C16:op:concat-raised", "%s raised %s", opd, vh_exc_name(exc)); continue; }
      strcat(ref_, arg);
    } else if (roll < 55) {
      size_t k = vh_chance(r, 20) ? 0 : vh_chance(r, 50) ? vh_below(r, n + 1) : n + vh_below(r, 20);
      snprintf(opd, sizeof opd, "resize(%zu)", k);
      vh_op("%s", opd);
      VH_CATCH(resize(s, k), exc);
      if (exc) { vh_violation("C16:op:resize-raised", "%s raised %s", opd, vh_exc_name(exc)); continue; }
      if (k < n) { ref_[k] = 0; vh_count("resize_shrink"); } else { vh_count("resize_grow"); }
      if (k == 0) { vh_count("resize_0"); }
    } else if (roll < 85) {
      /* rem: substring at the start / middle / end, overlapping, whole string, empty, absent */
      int kind = (int)vh_below(r, 7);
      arg[0] = 0;
      if (n > 0) {
        size_t a = 0, l = 1;
        switch (kind) {
          case 0: a = 0; l = 1 + vh_below(r, n); vh_count("rem_at_start"); break;
          case 1: if (n >= 3) { a = 1 + vh_below(r, n - 2); l = 1 + vh_below(r, n - a - 1 > 0 ? n - a - 1 : 1); } vh_count("rem_in_middle"); break;
          case 2: l = 1 + vh_below(r, n); a = n - l; vh_count("rem_at_end"); break;
          case 3: a = 0; l = n; vh_count("rem_whole"); break;
          case 4: a = vh_below(r, n); l = 1; break;
          default: break;
        }
        if (kind <= 4) { if (l > 700) { l = 700; } memcpy(arg, ref_ + a, l); arg[l] = 0; }
      }
      if (kind == 5) { arg[0] = 0; vh_count("empty_argument"); }
      if (kind == 6) { rand_text(r, arg, 5, alphabet); }
      char* pos = strstr(ref_, arg);
      esc(arg, e, sizeof e); snprintf(opd, sizeof opd, "rem(\"%s\")%s", e, pos ? "" : " [absent]");
      vh_op("%s", opd);
      VH_CATCH(rem(s, $S(arg)), exc);
      if (pos) {
        if (exc) { vh_violation("C16:op:rem-raised-for-present-substring", "%s raised %s", opd, vh_exc_name(exc)); continue; }
        /* overlapping occurrence: another match starts inside the first one */
        if (strlen(arg) > 1 && strstr(pos + 1, arg) && strstr(pos + 1, arg) < pos + strlen(arg)) { vh_count("rem_overlapping_occurrences"); }
        if (strstr(pos + 1, arg)) { vh_count("rem_first_of_several"); }
        memmove(pos, pos + strlen(arg), strlen(pos + strlen(arg)) + 1);
        vh_count("rem_present");
      } else {
        /* absent: the string must be left as it was (the exception kind is C12's business) */
        vh_count("rem_absent");
      }
    } else if (vh_chance(r, 25)) {
      /* formatted write of a String argument through %$: its text in quotes, every special character as its
         two-character escape, and the position advanced by exactly what was written */
      static const char SPECIAL[] = "\a\b\f\n\r\t\v\\\'\"";      /* bell .. double quote (a question mark is written as it is) */
      static const char* ESC[] = { "\\a", "\\b", "\\f", "\\n", "\\r", "\\t", "\\v", "\\\\", "\\'", "\\\"" };
      size_t p = vh_below(r, n + 1);
      char raw[24], shown[80]; size_t rl = 1 + vh_below(r, 8), so = 0;
      shown[so++] = '"';
      for (size_t i = 0; i < rl; i++) {
        if (vh_chance(r, 45)) { int q = (int)vh_below(r, 10); raw[i] = SPECIAL[q]; so += (size_t)snprintf(shown + so, sizeof shown - so, "%s", ESC[q]); }
        else { raw[i] = (char)('a' + vh_below(r, 26)); shown[so++] = raw[i]; }
      }
      raw[rl] = 0; shown[so++] = '"'; shown[so] = 0;
      char tail[200]; snprintf(tail, sizeof tail, "[%s]!", shown);
      snprintf(opd, sizeof opd, "print_to(pos=%zu, \"[%%$]!\", a String of %zu characters with escapes)", p, rl);
      vh_op("%s", opd);
      int ret = -1;
      VH_CATCH(ret = print_to(s, (int)p, "[%$]!", $S(raw)), exc);
      if (exc) { vh_violation("C16:op:print_to-raised", "%s raised %s", opd, vh_exc_name(exc)); continue; }
      ref_[p] = 0; strcat(ref_, tail);
      vh_eval();
      if (ret != (int)(p + strlen(tail))) { vh_violation("C16:op:print_to-position", "%s returned %d, expected %zu", opd, ret, p + strlen(tail)); }
      vh_count("formatted_writes_of_a_shown_string");
    } else {
      /* formatted write at a position inside the string */
      size_t p = vh_below(r, n + 1);
      int64_t num = vh_range(r, -100000, 100000);
      rand_text(r, arg, 6, 1);
      char tail[900];
      /* several shapes: conversions next to literals, literal percent signs before / between / after them */
      static const char* CFMT[] = { "<%" PRId64 "|%s>", "%s%%%" PRId64, "%" PRId64 "%% of %s done", "%%%s%%%%%" PRId64 "%%", "%8" PRId64 ":%-6s;" };
      static const char* LFMT[] = { "<%i|%s>",          "%s%%%i",          "%i%% of %s done",          "%%%s%%%%%i%%",          "%8i:%-6s;" };
      int shape = (int)vh_below(r, 5);
      if (shape == 1 || shape == 3) { snprintf(tail, sizeof tail, CFMT[shape], arg, num); } else { snprintf(tail, sizeof tail, CFMT[shape], num, arg); }
      snprintf(opd, sizeof opd, "print_to(pos=%zu, shape %d, %" PRId64 ",\"%s\")", p, shape, num, arg);
      vh_op("%s", opd);
      int ret = -1;
      if (shape == 1 || shape == 3) { VH_CATCH(ret = print_to(s, (int)p, LFMT[shape], $S(arg), $I(num)), exc); }
      else { VH_CATCH(ret = print_to(s, (int)p, LFMT[shape], $I(num), $S(arg)), exc); }
      if (shape >= 1 && shape <= 3) { vh_count("formatted_writes_with_a_literal_percent"); }
      if (exc) { vh_violation("C16:op:print_to-raised", "%s raised %s", opd, vh_exc_name(exc)); continue; }
      ref_[p] = 0; strcat(ref_, tail);
      vh_eval();
      if (ret != (int)(p + strlen(tail))) { vh_violation("C16:op:print_to-position", "%s returned %d, expected %zu", opd, ret, p + strlen(tail)); }
      vh_count("formatted_writes");
    }
    check_string(s, opd, r);
  }
  if (vh.nops > 10) { vh_nontrivial(); }
  del(s);
}

static void fixed(void) {
  /* the documented example and the three rem positions */
  static const struct { const char* s; const char* x; const char* want; } T[] = {
    { "Balloons", "oons", "Ball" }, { "abcdef", "cd", "abef" }, { "abcdef", "ab", "cdef" }, { "abcdef", "ef", "abcd" },
    { "aaaa", "aa", "aa" }, { "abcabc", "bc", "aabc" }, { "x", "x", "" }, { "abc", "", "abc" }, { "aXbXc", "X", "abXc" },
  };
  vh_rng r; vh_rng_seed(&r, 9);
  for (size_t i = 0; i < sizeof T / sizeof T[0]; i++) {
    var s = new(String, $S((char*)T[i].s));
    var exc;
    vh.oplen = 0; vh.oplog[0] = 0; vh.nops = 0;
    vh_op("rem(\"%s\", \"%s\")", T[i].s, T[i].x);
    VH_CATCH(rem(s, $S((char*)T[i].x)), exc);
    if (exc) { vh_violation("C16:op:rem-raised-for-present-substring", "rem(\"%s\",\"%s\") raised %s", T[i].s, T[i].x, vh_exc_name(exc)); }
    strcpy(ref_, T[i].want);
    check_string(s, "rem", &r);
    del(s);
  }
  /* formatted writes, appends and assignments of every length 1..400: a String that buffers or grows per piece has
     its boundaries at piece lengths */
  vh.oplen = 0; vh.oplog[0] = 0; vh.nops = 0;
  vh_op("formatted write / append / assign of every length 1..400");
  static char piece[512];
  for (int n = 1; n <= 400; n++) {
    memset(piece, 'a' + n % 26, (size_t)n); piece[n] = 0;
    var exc; int ret = -1;
    var s = new(String, $S("head:"));
    VH_CATCH(ret = print_to(s, 5, "%s", $S(piece)), exc);
    snprintf(ref_, sizeof ref_, "head:%s", piece);
    if (exc) { vh_violation("C16:op:print_to-raised", "print_to of a %d-character piece raised %s", n, vh_exc_name(exc)); }
    else if (ret != 5 + n) { vh_violation("C16:op:print_to-position", "print_to of a %d-character piece returned %d", n, ret); }
    check_string(s, "print_to of one piece", &r);
    VH_CATCH(append(s, $S(piece)), exc);
    snprintf(ref_, sizeof ref_, "head:%s%s", piece, piece);
    check_string(s, "append", &r);
    VH_CATCH(assign(s, $S(piece)), exc);
    snprintf(ref_, sizeof ref_, "%s", piece);
    check_string(s, "assign", &r);
    del(s);
    vh_count("piece_lengths_swept");
  }
}

int main(int argc, char** argv) {
  return vh_run(argc, argv, "string", fixed, case_random);
}
