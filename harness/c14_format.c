/*
** C14 -- print formatting equals C formatting, on every sink, with exact positions.
** Reference: snprintf applied per conversion specification with the value converted to the C type the
** specification demands; for %$ the object's own show text (obtained at position 0 of a scratch String),
** plus an independent reference for Int / Float / String / sequence show texts.
*/
#include "vh.h"
#include <float.h>
#include <limits.h>

enum { IT_LIT, IT_PCT, IT_INT, IT_FLT, IT_STR, IT_CHR, IT_PTR, IT_SHOW };
enum { SH_INT, SH_FLOAT, SH_STR, SH_TYPE, SH_ARRAY, SH_LIST, SH_TUPLE, SH_TABLE1, SH_RANGE, SH_NOSHOW, SH_COUNT };
enum { MAXITEMS = 8, OUTCAP = 16384 };

struct Plain14 { int64_t a; };
static var Plain14;
static var Key4, Key12;      /* plain key types whose sizes are not whole numbers of words */

struct item {
  int kind, show_kind;
  char spec[48];        /* the text that goes into the format string */
  char out[2600];       /* expected output of this item */
  var arg;              /* argument object, NULL if the item consumes none */
};

static void gen_flags_width_prec(vh_rng* r, char* s, size_t cap, int allow_prec) {
  size_t o = strlen(s);
  const char* flags = "-+ #0";
  int used[5] = {0};
  int nf = (int)vh_below(r, 4);
  for (int i = 0; i < nf; i++) { int f = (int)vh_below(r, 5); if (!used[f]) { used[f] = 1; s[o++] = flags[f]; } }
  s[o] = 0;
  if (vh_chance(r, 45)) { o += (size_t)snprintf(s + o, cap - o, "%d", vh_chance(r, 12) ? (int)vh_below(r, 400) : (int)vh_below(r, 31)); }
  if (allow_prec && vh_chance(r, 45)) {
    if (vh_chance(r, 10)) { o += (size_t)snprintf(s + o, cap - o, "."); }
    else { o += (size_t)snprintf(s + o, cap - o, ".%d", (int)vh_below(r, 21)); }
  }
}

static int64_t rand_i64(vh_rng* r) {
  switch (vh_below(r, 6)) {
    case 0: return (int64_t)vh_next(r);
    case 1: return vh_range(r, -10, 10);
    case 2: return INT64_MIN;
    case 3: return INT64_MAX;
    case 4: return vh_range(r, -70000, 70000);
    default: return (int64_t)1 << vh_below(r, 63);
  }
}
static int64_t rand_i32(vh_rng* r) {
  switch (vh_below(r, 5)) {
    case 0: return (int32_t)vh_next(r);
    case 1: return vh_range(r, -10, 10);
    case 2: return INT_MIN;
    case 3: return INT_MAX;
    default: return vh_range(r, -70000, 70000);
  }
}
static double rand_dbl(vh_rng* r) {
  switch (vh_below(r, 8)) {
    case 0: { uint64_t b = vh_next(r); double d; memcpy(&d, &b, 8); return d; }
    case 1: return (double)vh_range(r, -1000, 1000) / 8.0;
    case 2: return DBL_MAX * (vh_chance(r, 50) ? 1 : -1);
    case 3: return 4.9406564584124654e-324;
    case 4: return vh_chance(r, 50) ? 0.0 : -0.0;
    case 5: return vh_chance(r, 50) ? INFINITY : -INFINITY;
    case 6: return (double)vh_range(r, -100000000, 100000000) * 1e-7;
    default: return ldexp((double)vh_range(r, 1, 1000000), (int)vh_range(r, -60, 60));
  }
}
static void rand_bytes(vh_rng* r, char* b, size_t maxlen) {
  size_t n = vh_below(r, maxlen + 1);
  for (size_t i = 0; i < n; i++) { b[i] = vh_chance(r, 70) ? (char)('a' + vh_below(r, 26)) : (char)(1 + vh_below(r, 255)); }
  b[n] = 0;
}

/* independent references for show texts */
static void ref_show_string(const char* v, char* out, size_t cap) {
  size_t o = 0; out[o++] = '"';
  for (; *v && o + 4 < cap; v++) {
    switch (*v) {
      case '\a': out[o++] = '\\'; out[o++] = 'a'; break;  case '\b': out[o++] = '\\'; out[o++] = 'b'; break;
      case '\f': out[o++] = '\\'; out[o++] = 'f'; break;  case '\n': out[o++] = '\\'; out[o++] = 'n'; break;
      case '\r': out[o++] = '\\'; out[o++] = 'r'; break;  case '\t': out[o++] = '\\'; out[o++] = 't'; break;
      case '\v': out[o++] = '\\'; out[o++] = 'v'; break;  case '\\': out[o++] = '\\'; out[o++] = '\\'; break;
      case '\'': out[o++] = '\\'; out[o++] = '\''; break; case '"': out[o++] = '\\'; out[o++] = '"'; break;
      case '?': out[o++] = '\\'; out[o++] = '?'; break;
      default: out[o++] = *v;
    }
  }
  out[o++] = '"'; out[o] = 0;
}

/* one element of a shown sequence: pushed onto c, its own show text written to text */
static void push_shown_elem(vh_rng* r, var c, int ek, char* text, size_t cap) {
  if (ek == 0) { int64_t v = vh_chance(r, 60) ? vh_range(r, -99, 99) : rand_i64(r); push(c, $I(v)); snprintf(text, cap, "%" PRId64, v); }
  else if (ek == 1) { double v = rand_dbl(r); if (fabs(v) > 1e15 || v != v) { v = 2.5; } push(c, $F(v)); snprintf(text, cap, "%f", v); }
  else { char b[12]; rand_bytes(r, b, 8); push(c, $S(b)); ref_show_string(b, text, cap); }
}

static void make_item(vh_rng* r, struct item* it, int kind) {
  memset(it, 0, offsetof(struct item, out) + 1);
  it->kind = kind; it->arg = NULL; it->out[0] = 0;
  char* s = it->spec;
  switch (kind) {
    case IT_LIT: {
      size_t n = 1 + vh_below(r, 8);
      for (size_t i = 0; i < n; i++) { char c; do { c = (char)(1 + vh_below(r, 255)); } while (c == '%'); s[i] = c; }
      s[n] = 0;
      strcpy(it->out, s);
      break;
    }
    case IT_PCT: strcpy(s, "%%"); strcpy(it->out, "%"); break;
    case IT_INT: {
      static const char* LM[] = { "", "hh", "h", "l", "ll", "j", "z", "t" };
      int lm = (int)vh_below(r, 8);
      char conv = "diuoxX"[vh_below(r, 6)];
      strcpy(s, "%"); gen_flags_width_prec(r, s, sizeof it->spec - 6, 1);
      size_t o = strlen(s); o += (size_t)snprintf(s + o, sizeof it->spec - o, "%s%c", LM[lm], conv);
      int sign = conv == 'd' || conv == 'i';
      if (lm <= 2) {
        int64_t v = rand_i32(r);
        it->arg = new(Int, $I(v));
        if (sign) { snprintf(it->out, sizeof it->out, s, (int)v); } else { snprintf(it->out, sizeof it->out, s, (unsigned)v); }
      } else {
        int64_t v = rand_i64(r);
        it->arg = new(Int, $I(v));
        if (sign) { snprintf(it->out, sizeof it->out, s, (long long)v); } else { snprintf(it->out, sizeof it->out, s, (unsigned long long)v); }
      }
      break;
    }
    case IT_FLT: {
      char conv = "fFeEgGaA"[vh_below(r, 8)];
      strcpy(s, "%"); gen_flags_width_prec(r, s, sizeof it->spec - 6, 1);
      size_t o = strlen(s); snprintf(s + o, sizeof it->spec - o, "%s%c", vh_chance(r, 25) ? "l" : "", conv);
      double v = rand_dbl(r);
      it->arg = new(Float, $F(v));
      snprintf(it->out, sizeof it->out, s, v);
      break;
    }
    case IT_STR: {
      char b[40]; rand_bytes(r, b, 30);
      strcpy(s, "%");
      if (vh_chance(r, 30)) { strcat(s, "-"); }
      size_t o = strlen(s);
      if (vh_chance(r, 45)) { o += (size_t)snprintf(s + o, sizeof it->spec - o, "%d", (int)vh_below(r, 31)); }
      if (vh_chance(r, 45)) { o += (size_t)snprintf(s + o, sizeof it->spec - o, ".%d", (int)vh_below(r, 21)); }
      strcat(s, "s");
      it->arg = new(String, $S(b));
      snprintf(it->out, sizeof it->out, s, b);
      break;
    }
    case IT_CHR: {
      int c = 1 + (int)vh_below(r, 255);
      strcpy(s, "%");
      if (vh_chance(r, 30)) { strcat(s, "-"); }
      size_t o = strlen(s);
      if (vh_chance(r, 40)) { o += (size_t)snprintf(s + o, sizeof it->spec - o, "%d", (int)vh_below(r, 12)); }
      strcat(s, "c");
      it->arg = new(Int, $I(c));
      snprintf(it->out, sizeof it->out, s, c);
      break;
    }
    case IT_PTR: {
      strcpy(s, "%");
      if (vh_chance(r, 40)) { size_t o = strlen(s); snprintf(s + o, sizeof it->spec - o, "%d", (int)vh_below(r, 25)); }
      strcat(s, "p");
      it->arg = new(Int, $I(1));
      snprintf(it->out, sizeof it->out, s, it->arg);
      break;
    }
    default: {
      strcpy(s, "%$");
      it->show_kind = (int)vh_below(r, SH_COUNT);
      char ind[1200]; ind[0] = 0;       /* independent reference where one exists */
      switch (it->show_kind) {
        case SH_INT: { int64_t v = rand_i64(r); it->arg = new(Int, $I(v)); snprintf(ind, sizeof ind, "%" PRId64, v); break; }
        case SH_FLOAT: { double v = rand_dbl(r); it->arg = new(Float, $F(v)); snprintf(ind, sizeof ind, "%f", v); break; }
        case SH_STR: { char b[40]; rand_bytes(r, b, 30); it->arg = new(String, $S(b)); ref_show_string(b, ind, sizeof ind); break; }
        case SH_TYPE: { var T[] = { KeyError, Int, String, Table, IndexOutOfBoundsError, Type, Cmp };
          it->arg = T[vh_below(r, 7)]; snprintf(ind, sizeof ind, "%s", c_str(it->arg)); break; }
        case SH_ARRAY: case SH_LIST: {
          /* elements of any of the three value types, Ints over their whole range: each element's own show text */
          int ek = (int)vh_below(r, 3);
          var et = ek == 0 ? Int : ek == 1 ? Float : String;
          var c = it->show_kind == SH_ARRAY ? (var)new_with(Array, tuple(et)) : (var)new_with(List, tuple(et));
          int n = (int)vh_below(r, 5); size_t o = 0; char inner[900]; inner[0] = 0;
          for (int i = 0; i < n; i++) { char t[120]; push_shown_elem(r, c, ek, t, sizeof t); o += (size_t)snprintf(inner + o, sizeof inner - o, "%s%s", i ? ", " : "", t); }
          it->arg = c;
          snprintf(ind, sizeof ind, "<'%s' At 0x%p [%s]>", it->show_kind == SH_ARRAY ? "Array" : "List", c, inner);
          if (ek != 0) { vh_count("shown_sequences_of_floats_or_strings"); }
          break;
        }
        case SH_TUPLE: {
          var c = new(Tuple);
          int n = (int)vh_below(r, 6); size_t o = 0; char inner[600]; inner[0] = 0;
          char texts[6][60]; int repeated = 0;
          for (int i = 0; i < n; i++) {
            /* a Tuple holds references: the same object may sit in several positions, the last one included */
            if (i > 0 && vh_chance(r, 35)) { int j = (int)vh_below(r, (uint64_t)i); push(c, get(c, $I(j))); strcpy(texts[i], texts[j]); repeated = 1; }
            else if (vh_chance(r, 50)) { int64_t v = vh_range(r, -99, 99); push(c, new(Int, $I(v))); snprintf(texts[i], sizeof texts[i], "%" PRId64, v); }
            else { char b[12]; rand_bytes(r, b, 8); ref_show_string(b, texts[i], sizeof texts[i]); push(c, new(String, $S(b))); }
            o += (size_t)snprintf(inner + o, sizeof inner - o, "%s%s", i ? ", " : "", texts[i]);
          }
          if (repeated) { vh_count("shown_tuples_holding_one_object_twice"); }
          it->arg = c;
          snprintf(ind, sizeof ind, "tuple(%s)", inner);
          break;
        }
        case SH_TABLE1: {
          /* a Table or a Tree of up to three entries: keys are Ints or plain structs of 4 or 12 bytes (shown by the
             default: type name and address of the key inside the map), values Ints, Floats or Strings; each entry is
             its key's and its value's own show text, in the map's iteration order */
          int tree = (int)vh_below(r, 2), kk = (int)vh_below(r, 3), vk = (int)vh_below(r, 3);
          var kt = kk == 0 ? Int : kk == 1 ? Key4 : Key12;
          var vt = vk == 0 ? Int : vk == 1 ? Float : String;
          var c = new_with(tree ? Tree : Table, tuple(kt, vt));
          int n = 1 + (int)vh_below(r, 3);
          char vtext[3][120]; int32_t kid[3];
          for (int i = 0; i < n; i++) {
            kid[i] = (int32_t)(i * 4 + (int)vh_below(r, 4)) - 5;
            _Alignas(16) char kb[sizeof(struct Header) + 16]; memset(kb, 0, sizeof kb);
            var ko = kk == 0 ? (var)$I(kid[i]) : header_init(kb, kt, AllocStack);
            if (kk != 0) { memcpy(ko, &kid[i], 4); }
            if (vk == 0) { int64_t v = vh_chance(r, 50) ? vh_range(r, -99, 99) : rand_i64(r); set(c, ko, $I(v)); snprintf(vtext[i], sizeof vtext[i], "%" PRId64, v); }
            else if (vk == 1) { double v = rand_dbl(r); if (fabs(v) > 1e15 || v != v) { v = -0.75; } set(c, ko, $F(v)); snprintf(vtext[i], sizeof vtext[i], "%f", v); }
            else { char b[12]; rand_bytes(r, b, 8); set(c, ko, $S(b)); ref_show_string(b, vtext[i], sizeof vtext[i]); }
          }
          size_t o = 0; char inner[900]; inner[0] = 0; int seen = 0;
          foreach (k in c) {
            int32_t id; if (kk == 0) { id = (int32_t)c_int(k); } else { memcpy(&id, k, 4); }
            int at = -1; for (int i = 0; i < n; i++) { if (kid[i] == id) { at = i; } }
            char kt_text[80];
            if (kk == 0) { snprintf(kt_text, sizeof kt_text, "%d", (int)id); } else { snprintf(kt_text, sizeof kt_text, "<'%s' At 0x%p>", kk == 1 ? "Key4" : "Key12", k); }
            o += (size_t)snprintf(inner + o, sizeof inner - o, "%s%s:%s", seen ? ", " : "", kt_text, at >= 0 ? vtext[at] : "?");
            seen++;
          }
          it->arg = c;
          snprintf(ind, sizeof ind, "<'%s' At 0x%p {%s}>", tree ? "Tree" : "Table", c, inner);
          if (kk != 0) { vh_count(tree ? "shown_trees_keyed_by_plain_structs" : "shown_tables_keyed_by_plain_structs"); }
          if (vk != 0) { vh_count("shown_maps_of_floats_or_strings"); }
          break;
        }
        case SH_RANGE: {
          /* views: a Range (its Ints, whatever their size) and a Slice over a sequence of any element type (the
             selected elements' own show text) */
          if (vh_chance(r, 40)) {
            int64_t a = vh_chance(r, 50) ? vh_range(r, -50, 50) : rand_i64(r) / 4;
            int n = (int)vh_below(r, 5); size_t o = 0; char inner[400]; inner[0] = 0;
            var g = new(Range, $I(a), $I(a + n));
            for (int i = 0; i < n; i++) { o += (size_t)snprintf(inner + o, sizeof inner - o, "%s%" PRId64, i ? ", " : "", a + i); }
            it->arg = g;
            snprintf(ind, sizeof ind, "<'Range' At 0x%p [%s]>", g, inner);
            if (n > 0 && (a > INT32_MAX || a < INT32_MIN)) { vh_count("shown_ranges_beyond_32_bits"); }
            vh_count("shown_ranges");
          } else {
            int ek = (int)vh_below(r, 3);
            var et = ek == 0 ? Int : ek == 1 ? Float : String;
            var c = vh_chance(r, 50) ? (var)new_with(Array, tuple(et)) : (var)new_with(List, tuple(et));
            int n = 1 + (int)vh_below(r, 5); char texts[6][120];
            for (int i = 0; i < n; i++) { push_shown_elem(r, c, ek, texts[i], sizeof texts[i]); }
            int lo = (int)vh_below(r, (uint64_t)n), hi = lo + (int)vh_below(r, (uint64_t)(n - lo) + 1);
            var g = new(Slice, c, $I(lo), $I(hi));
            size_t o = 0; char inner[900]; inner[0] = 0;
            for (int i = lo; i < hi; i++) { o += (size_t)snprintf(inner + o, sizeof inner - o, "%s%s", i > lo ? ", " : "", texts[i]); }
            it->arg = g;
            snprintf(ind, sizeof ind, "<'Slice' At 0x%p [%s]>", g, inner);
            if (hi > lo) { vh_count(ek == 0 ? "shown_slices_of_ints" : "shown_slices_of_floats_or_strings"); }
          }
          break;
        }
        default: { it->arg = new(Plain14); snprintf(ind, sizeof ind, "<'Plain14' At 0x%p>", it->arg); break; }
      }
      /* the object's own show text, at position 0 of a scratch String */
      var scratch = new(String);
      int n = show_to(it->arg, scratch, 0);
      snprintf(it->out, sizeof it->out, "%s", c_str(scratch));
      vh_evals(2);
      if (n != (int)strlen(c_str(scratch))) {
        vh_violation("C14:show:returned-position-wrong-at-zero", "show_to(kind %d, pos 0) returned %d but wrote %zu characters", it->show_kind, n, strlen(c_str(scratch)));
      }
      if (ind[0] && strcmp(ind, it->out) != 0 && strlen(ind) < sizeof ind - 2) {
        vh_violation("C14:show:text-differs-from-reference", "show kind %d wrote \"%.200s\", reference \"%.200s\"", it->show_kind, it->out, ind);
      }
      del(scratch);
      break;
    }
  }
}

static void case_random(vh_rng* r, long index) {
  (void)index;
  struct item items[MAXITEMS];
  int n = 1 + (int)vh_below(r, MAXITEMS - 1);
  size_t fl = 0, el = 0;
  static char expect[OUTCAP];
  char fmtbuf[MAXITEMS * 50];
  fmtbuf[0] = 0; expect[0] = 0;
  var args = new(Tuple);
  int nargs = 0;
  int prev_lit = 0;
  for (int i = 0; i < n; i++) {
    int kind;
    do { kind = (int)vh_below(r, 8); } while (kind == IT_LIT && prev_lit);   /* two literals in a row are one literal */
    prev_lit = kind == IT_LIT;
    make_item(r, &items[i], kind);
    fl += (size_t)snprintf(fmtbuf + fl, sizeof fmtbuf - fl, "%s", items[i].spec);
    el += (size_t)snprintf(expect + el, sizeof expect - el, "%s", items[i].out);
    if (items[i].arg) { push(args, items[i].arg); nargs++; }
    static const char* CNT[] = { "items_literal", "items_percent", "items_int", "items_float", "items_string", "items_char", "items_pointer", "items_show" };
    vh_count(CNT[kind]);
  }
  if (items[0].kind != IT_LIT) { vh_count("spec_at_very_start"); }
  if (items[n-1].kind != IT_LIT) { vh_count("spec_at_very_end"); }
  for (int i = 1; i < n; i++) { if (items[i].kind != IT_LIT && items[i-1].kind != IT_LIT) { vh_count("adjacent_specs"); break; } }
  /* exact-size heap copy of the format text: ASan sees any over-read */
  char* fmt = malloc(fl + 1);
  memcpy(fmt, fmtbuf, fl + 1);
  { char e[300]; size_t o = 0; for (size_t i = 0; i < fl && o + 6 < sizeof e; i++) { unsigned char c = (unsigned char)fmt[i];
      if (c >= 32 && c < 127) { e[o++] = (char)c; } else { o += (size_t)snprintf(e + o, sizeof e - o, "\\x%02x", c); } } e[o] = 0;
    vh_op("fmt \"%s\" with %d args", e, nargs); }
  if (n >= 2 && nargs >= 1) { vh_nontrivial(); }

  /* String sink, every kind of start position */
  size_t L = vh_below(r, 12);
  size_t p = vh_chance(r, 30) ? 0 : vh_chance(r, 30) ? L : vh_below(r, L + 1);
  var dst = new(String);
  for (size_t i = 0; i < L; i++) { append(dst, $S("#")); }
  int ret = -1; var exc = NULL;
  VH_CATCH(ret = print_to_with(dst, (int)p, fmt, args), exc);
  vh_evals(3);
  if (exc) { vh_violation("C14:string-sink:raised", "print_to raised %s", vh_exc_name(exc)); }
  else {
    const char* got = c_str(dst);
    size_t gl = strlen(got);
    int ok = gl == p + el && memcmp(got + p, expect, el) == 0;
    for (size_t i = 0; ok && i < p; i++) { if (got[i] != '#') { ok = 0; } }
    if (!ok) {
      size_t d = 0; while (d < gl && d < p + el && got[d] == (d < p ? '#' : expect[d - p])) { d++; }
      vh_violation("C14:string-sink:output-differs", "start %zu: output has %zu chars, expected %zu; first difference at %zu (got 0x%02x, expected 0x%02x)",
        p, gl, p + el, d, d < gl ? (unsigned char)got[d] : 0, d < p + el ? (unsigned char)(d < p ? '#' : expect[d - p]) : 0);
    }
    if (ret != (int)(p + el)) { vh_violation("C14:string-sink:returned-position", "start %zu, wrote %zu characters, returned %d", p, el, ret); }
  }
  if (p > 0) { vh_count("nonzero_start_positions"); }
  del(dst);

  /* File sink: byte-identical, position = start + characters written */
  {
    char path[64]; snprintf(path, sizeof path, "c14-%d.tmp", vh.shard);
    var f = new(File, $S(path), $S("w"));
    int p0 = (int)vh_below(r, 5);
    int fret = -1;
    if (vh_chance(r, 25)) {
      /* the sink's history does not matter: a read the write-only File refused earlier (IOError, handled) leaves the
         stream open and writable, and C's fprintf on a stream with that history writes as ever */
      char junk[4]; var exc0 = NULL;
      VH_CATCH(sread(f, junk, sizeof junk), exc0);
      if (exc0) { vh_count("file_sink_runs_after_a_refused_read"); }
    }
    VH_CATCH(fret = print_to_with(f, p0, fmt, args), exc);
    sclose(f);
    del(f);
    vh_evals(2);
    if (exc) { vh_violation("C14:file-sink:raised", "print_to on a File raised %s", vh_exc_name(exc)); }
    else {
      static char back[OUTCAP];
      FILE* fp = fopen(path, "rb");
      size_t bl = fp ? fread(back, 1, sizeof back - 1, fp) : 0;
      if (fp) { fclose(fp); }
      if (bl != el || memcmp(back, expect, el) != 0) {
        vh_violation("C14:file-sink:output-differs-from-string-sink", "file has %zu bytes, expected %zu", bl, el);
      }
      if (fret != p0 + (int)el) { vh_violation("C14:file-sink:returned-position", "start %d, wrote %zu characters, returned %d", p0, el, fret); }
    }
    vh_count("file_sink_runs");
  }

  /* too few arguments */
  if (nargs > 0) {
    pop(args);
    var d2 = new(String, $S("untouched destination"));
    size_t p2 = vh_below(r, 10);
    VH_CATCH(print_to_with(d2, (int)p2, fmt, args), exc);
    vh_evals(2);
    if (exc != FormatError) { vh_violation("C14:too-few-arguments:no-formaterror", "%d arguments for %d specifications gave %s", nargs - 1, nargs, vh_exc_name(exc)); }
    if (strcmp(c_str(d2), "untouched destination") != 0) {
      vh_violation("C14:too-few-arguments:destination-written-before-the-error", "%d arguments for %d specifications: the destination reads \"%.60s\" after the FormatError", nargs - 1, nargs, c_str(d2));
    }
    vh_count("too_few_argument_runs");
    del(d2);
  }
  free(fmt);
}


/* ---------- every piece length 1..640: one literal run / one conversion whose output has exactly N characters ----------
** Sinks format piece by piece; a sink that sizes, buffers or grows per piece has its boundaries at piece lengths,
** not at total lengths.  Four shapes x both sinks x two start positions, against snprintf. */
static void piece_length_sweep(void) {
  static char fmt[800], want[2000], back[2000], lit[700];
  for (int n = 1; n <= 640; n++) {
    for (int shape = 0; shape < 4; shape++) {
      var args = new(Tuple);
      switch (shape) {
        case 0: snprintf(fmt, sizeof fmt, "%%0%dd|tail", n); snprintf(want, sizeof want, fmt, 12345); push(args, new(Int, $I(12345))); break;
        case 1: snprintf(fmt, sizeof fmt, "<%%-%d.3f>", n); snprintf(want, sizeof want, fmt, 2.5); push(args, new(Float, $F(2.5))); break;
        case 2: memset(lit, 'x', (size_t)n); lit[n] = 0; snprintf(fmt, sizeof fmt, "[%%s]"); snprintf(want, sizeof want, "[%s]", lit); push(args, new(String, $S(lit))); break;
        default: memset(lit, 'y', (size_t)n); lit[n] = 0; snprintf(fmt, sizeof fmt, "%s%%%%end", lit); snprintf(want, sizeof want, "%s%%end", lit); break;
      }
      size_t wl = strlen(want);
      for (int p = 0; p <= 5; p += 5) {
        var dst = new(String, $S("#####"));
        int ret = -1; var exc = NULL;
        VH_CATCH(ret = print_to_with(dst, p, fmt, args), exc);
        vh_evals(2);
        if (exc) { vh_violation("C14:string-sink:raised", "piece of %d characters (shape %d): print_to raised %s", n, shape, vh_exc_name(exc)); }
        else {
          const char* got = c_str(dst);
          if (strlen(got) != (size_t)p + wl || memcmp(got + p, want, wl) != 0 || memcmp(got, "#####", (size_t)p) != 0) {
            vh_violation("C14:string-sink:output-differs", "a piece of exactly %d characters (shape %d, start %d): the String holds %zu characters, expected %zu", n, shape, p, strlen(got), (size_t)p + wl);
          }
          if (ret != p + (int)wl) { vh_violation("C14:string-sink:returned-position", "a piece of exactly %d characters (shape %d, start %d): returned %d, expected %d", n, shape, p, ret, p + (int)wl); }
        }
        del(dst);
      }
      {
        char path[64]; snprintf(path, sizeof path, "c14-sweep-%d.tmp", vh.shard);
        var f = new(File, $S(path), $S("w"));
        int fret = -1; var exc = NULL;
        VH_CATCH(fret = print_to_with(f, 2, fmt, args), exc);
        sclose(f); del(f);
        FILE* fp = fopen(path, "rb");
        size_t bl = fp ? fread(back, 1, sizeof back - 1, fp) : 0;
        if (fp) { fclose(fp); }
        remove(path);
        vh_evals(2);
        if (exc) { vh_violation("C14:file-sink:raised", "piece of %d characters: print_to on a File raised %s", n, vh_exc_name(exc)); }
        else {
          if (bl != wl || memcmp(back, want, wl) != 0) { vh_violation("C14:file-sink:output-differs-from-string-sink", "a piece of exactly %d characters (shape %d): the file has %zu bytes, expected %zu", n, shape, bl, wl); }
          if (fret != 2 + (int)wl) { vh_violation("C14:file-sink:returned-position", "a piece of exactly %d characters (shape %d): returned %d, expected %d", n, shape, fret, 2 + (int)wl); }
        }
      }
      vh_count("piece_length_sweep_points");
    }
  }
}

static void fixed(void) {
  /* the Type show defect shape: %$ of a type object in the middle of a format */
  var s = new(String);
  var exc;
  int ret = -1;
  vh_op("print_to(s, 0, \"A%%$B\", KeyError)");
  VH_CATCH(ret = print_to(s, 0, "A%$B", KeyError), exc);
  vh_evals(2);
  if (exc) { vh_violation("C14:string-sink:raised", "raised %s", vh_exc_name(exc)); }
  else {
    if (strcmp(c_str(s), "AKeyErrorB") != 0) { vh_violation("C14:show:type-object-inside-format", "print_to(\"A%%$B\", KeyError) wrote \"%s\"", c_str(s)); }
    if (ret != 10) { vh_violation("C14:string-sink:returned-position", "returned %d for 10 characters", ret); }
  }
  /* show_to at a non-zero position for every show kind returns position + length */
  var objs[] = { $I(-42), $F(1.5), $S("q\"x"), KeyError, new(Array, Int, $I(1), $I(2)), tuple($I(1), $S("a")), new(Plain14) };
  for (size_t i = 0; i < sizeof objs / sizeof objs[0]; i++) {
    var a = new(String), b = new(String);
    int n0 = show_to(objs[i], a, 0);
    assign(b, $S("0123456"));
    int n7 = show_to(objs[i], b, 7);
    vh_evals(2);
    if (n7 != n0 + 7) { vh_violation("C14:show:returned-position-not-start-plus-length", "show_to(object %zu) returned %d at start 0 and %d at start 7", i, n0, n7); }
    if (strncmp(c_str(b), "0123456", 7) != 0 || strcmp(c_str(b) + 7, c_str(a)) != 0) {
      vh_violation("C14:show:text-depends-on-position", "object %zu: \"%s\" at 0, \"%s\" at 7", i, c_str(a), c_str(b));
    }
    del(a); del(b);
  }
  del(s);
  /* %c of 0 (and of 256, -256: the character is the value modulo 256) writes a NUL byte, as C does: the pieces after
     it land behind it, on a String (whose text then ends at the NUL, its buffer holds the rest) and on a File alike */
  {
    static const int64_t NULS[] = { 0, 256, -256, 512 };
    for (int k = 0; k < 4; k++) {
      for (int shape = 0; shape < 3; shape++) {
        static const char* CF[] = { "ab%cde", "%i%c%s", "[%c]%5i|" };
        char want[64]; int wn = 0;
        if (shape == 0) { wn = snprintf(want, sizeof want, "ab%cde", 0); }
        else if (shape == 1) { wn = snprintf(want, sizeof want, "%d%c%s", 7, 0, "tail"); }
        else { wn = snprintf(want, sizeof want, "[%c]%5d|", 0, 42); }
        var t = new(String);
        var f = new(File, $S("c14-nul.tmp"), $S("w+"));
        int rs = -1, rf = -1;
        vh.oplen = 0; vh.oplog[0] = 0; vh.nops = 0;
        vh_op("print_to(\"%s\") with the character %" PRId64 " (NUL)", CF[shape], NULS[k]);
        if (shape == 0) { VH_CATCH(rs = print_to(t, 0, "ab%cde", $I(NULS[k])), exc); if (!exc) { VH_CATCH(rf = print_to(f, 0, "ab%cde", $I(NULS[k])), exc); } }
        else if (shape == 1) { VH_CATCH(rs = print_to(t, 0, "%i%c%s", $I(7), $I(NULS[k]), $S("tail")), exc); if (!exc) { VH_CATCH(rf = print_to(f, 0, "%i%c%s", $I(7), $I(NULS[k]), $S("tail")), exc); } }
        else { VH_CATCH(rs = print_to(t, 0, "[%c]%5i|", $I(NULS[k]), $I(42)), exc); if (!exc) { VH_CATCH(rf = print_to(f, 0, "[%c]%5i|", $I(NULS[k]), $I(42)), exc); } }
        vh_evals(4);
        if (exc) { vh_violation("C14:string-sink:raised", "a format with a NUL character raised %s", vh_exc_name(exc)); }
        else {
          if (rs != wn || rf != wn) { vh_violation("C14:string-sink:returned-position", "format \"%s\" with a NUL character: returned %d (String) and %d (File) for %d characters", CF[shape], rs, rf, wn); }
          else if (memcmp(((struct String*)t)->val, want, (size_t)wn + 1) != 0) { vh_violation("C14:string-sink:output-differs", "format \"%s\" with a NUL character: the %d bytes in the String's buffer are not the ones C writes", CF[shape], wn); }
          char back[64]; memset(back, 0x55, sizeof back);
          sseek(f, 0, SEEK_SET); size_t got = fread(back, 1, sizeof back, ((struct File*)f)->file);
          if (got != (size_t)wn || memcmp(back, want, (size_t)wn) != 0) { vh_violation("C14:file-sink:output-differs", "format \"%s\" with a NUL character: the File holds %zu bytes, C writes %d", CF[shape], got, wn); }
        }
        sclose(f); del(f); remove("c14-nul.tmp"); del(t);
        vh_count("formats_writing_a_nul_character");
      }
    }
  }
  vh.oplen = 0; vh.oplog[0] = 0; vh.nops = 0;
  vh_op("piece length sweep 1..640 x 4 shapes x String/File sinks");
  piece_length_sweep();
}

int main(int argc, char** argv) {
  Plain14 = new_root(Type, $S("Plain14"), $I(sizeof(struct Plain14)));
  Key4 = new_root(Type, $S("Key4"), $I(4));
  Key12 = new_root(Type, $S("Key12"), $I(12));
  return vh_run(argc, argv, "format", fixed, case_random);
}
