/*
** C19 -- objects keep their true type and class; non-heap objects are never freed.
**
** Enumerated: every way of obtaining an object x observations (type_of, allocation class recorded in
** the header, size(type) usable bytes that do not disturb the neighbours), then every freeing or
** reallocating operation applied to stack, static and container-embedded objects: it must raise
** ResourceError or ValueError and leave the object (and its container) exactly as it was.  ASan
** watches for invalid and double frees.
*/
#include "gcprobes.h"

struct Rec { int64_t a; double b; char c[8]; };     /* 24 bytes */
static var Rec;

static char kb[160];
static const char* K(const char* what, const char* how) {
  snprintf(kb, sizeof kb, "C19:%s:%s", what, how);
  for (char* p = kb; *p; p++) { if (*p == ' ') { *p = '-'; } }
  return kb;
}

static const char* alloc_name(int a) { return a == AllocStatic ? "static" : a == AllocStack ? "stack" : a == AllocHeap ? "heap" : a == AllocData ? "data" : "?"; }

/* observations on one object */
static void observe(var x, var want_type, int want_alloc, const char* how) {
  vh_evals(3);
  var t = NULL, exc = NULL;
  VH_CATCH(t = type_of(x), exc);
  if (exc) { vh_violation(K("type_of-raised", how), "type_of raised %s for an object obtained by %s", vh_exc_name(exc), how); return; }
  if (t != want_type) { vh_violation(K("wrong-type", how), "type_of gives %s, expected %s for an object obtained by %s", c_str(t), c_str(want_type), how); return; }
  int a = (int)(intptr_t)header(x)->alloc;
  if (a != want_alloc) { vh_violation(K("wrong-allocation-class", how), "header says %s, expected %s for an object obtained by %s", alloc_name(a), alloc_name(want_alloc), how); }
  if (header(x)->magic != (var)CELLO_MAGIC_NUM) { vh_violation(K("bad-magic", how), "header magic damaged for an object obtained by %s", how); }
  vh_count("objects_observed");
}

/* size(type) bytes are usable: write a pattern, read it back, restore */
static void usable_bytes(var x, const char* how) {
  size_t n = size(type_of(x));
  if (n == 0 || n > 256) { return; }
  unsigned char save[256], pat[256];
  memcpy(save, x, n);
  for (size_t i = 0; i < n; i++) { pat[i] = (unsigned char)(0xA5 ^ i); }
  memcpy(x, pat, n);
  vh_eval();
  if (memcmp(x, pat, n) != 0) { vh_violation(K("bytes-not-usable", how), "%zu bytes written into an object obtained by %s do not read back", n, how); }
  memcpy(x, save, n);
}

/* container elements: writing one element must not disturb its neighbours (bodies and headers) */
static void neighbours_intact(var c, size_t n, const char* how) {
  if (n < 3) { return; }
  size_t es = size(type_of(get(c, $I(0))));
  if (es == 0 || es > 64) { return; }
  unsigned char before[3][64 + sizeof(struct Header)], save[64];
  size_t mid = n / 2;
  var e[3] = { get(c, $I((int64_t)mid - 1)), get(c, $I((int64_t)mid)), get(c, $I((int64_t)mid + 1)) };
  for (int i = 0; i < 3; i++) { memcpy(before[i], (char*)e[i] - sizeof(struct Header), es + sizeof(struct Header)); }
  memcpy(save, e[1], es);
  memset(e[1], 0x5C, es);
  vh_evals(2);
  if (memcmp(before[0], (char*)e[0] - sizeof(struct Header), es + sizeof(struct Header)) != 0
   || memcmp(before[2], (char*)e[2] - sizeof(struct Header), es + sizeof(struct Header)) != 0) {
    vh_violation(K("element-write-disturbs-neighbour", how), "writing the %zu bytes of one element of %s changed a neighbouring element", es, how);
  }
  if (memcmp(before[1], (char*)e[1] - sizeof(struct Header), sizeof(struct Header)) != 0) {
    vh_violation(K("element-write-disturbs-own-header", how), "writing the %zu bytes of one element of %s changed its own header", es, how);
  }
  memcpy(e[1], save, es);
  vh_count("neighbour_checks");
}

/* ---------- refusals: freeing / reallocating a non-heap object ---------- */

static void dump_obj(var x, char* out, size_t cap) {
  var t = type_of(x);
  if (t == Int) { snprintf(out, cap, "I%" PRId64, ((struct Int*)x)->val); }
  else if (t == Float) { snprintf(out, cap, "F%a", ((struct Float*)x)->val); }
  else if (t == String) { snprintf(out, cap, "S%p:%s", (void*)((struct String*)x)->val, ((struct String*)x)->val); }
  else if (t == Tuple) { size_t o = (size_t)snprintf(out, cap, "T%zu:", len(x)); size_t n = len(x); for (size_t i = 0; i < n && o + 20 < cap; i++) { o += (size_t)snprintf(out + o, cap - o, "%p,", get(x, $I((int64_t)i))); } }
  else if (t == Rec) { struct Rec* r = x; snprintf(out, cap, "R%" PRId64 ",%a,%.8s", r->a, r->b, r->c); }
  else if (t == Type) { snprintf(out, cap, "Type %s", c_str(x)); }
  else { snprintf(out, cap, "obj %s", c_str(t)); }
}

#define REFUSE(OBJ, WHAT, HOW, STMT) do { \
    char r__b[700], r__a[700]; var r__e = NULL; \
    dump_obj((OBJ), r__b, sizeof r__b); \
    VH_CATCH(STMT, r__e); \
    vh_evals(2); \
    if (r__e != ResourceError && r__e != ValueError) { \
      vh_violation(K(WHAT, HOW), "%s of %s gave %s instead of ResourceError/ValueError", WHAT, HOW, vh_exc_name(r__e)); \
    } \
    dump_obj((OBJ), r__a, sizeof r__a); \
    if (strcmp(r__b, r__a) != 0) { \
      char r__k[160]; snprintf(r__k, sizeof r__k, "C19:%s:%s:object-changed", WHAT, HOW); \
      for (char* r__p = r__k; *r__p; r__p++) { if (*r__p == ' ') { *r__p = '-'; } } \
      vh_violation(r__k, "%s of %s changed the object: [%.120s] -> [%.120s]", WHAT, HOW, r__b, r__a); \
    } \
    vh_count("refusals_checked"); \
  } while (0)

static void refusals_scalar(var x, const char* how) {
  REFUSE(x, "del", how, del(x));
  REFUSE(x, "del_raw", how, del_raw(x));
  REFUSE(x, "del_root", how, del_root(x));
  REFUSE(x, "dealloc", how, dealloc(x));
  REFUSE(x, "dealloc_raw", how, dealloc_raw(x));
}

static void refusals_string(var s, const char* how, int embedded) {
  refusals_scalar(s, how);
  if (!embedded) {
    /* a stack / static String cannot be reallocated */
    REFUSE(s, "destruct", how, destruct(s));
    REFUSE(s, "assign", how, assign(s, $S("a longer replacement text")));
    REFUSE(s, "concat", how, concat(s, $S("tail")));
    REFUSE(s, "append", how, append(s, $S("tail")));
    REFUSE(s, "resize", how, resize(s, 40));
    REFUSE(s, "resize-0", how, resize(s, 0));
    REFUSE(s, "print_to", how, print_to(s, 0, "%i and more text", $I(5)));
  }
}

static void refusals_tuple(var t, const char* how) {
  var extra = $I(99);
  refusals_scalar(t, how);
  REFUSE(t, "destruct", how, destruct(t));
  REFUSE(t, "push", how, push(t, extra));
  if (len(t) > 0) {
    REFUSE(t, "push_at", how, push_at(t, extra, $I(0)));
    REFUSE(t, "pop", how, pop(t));
    REFUSE(t, "pop_at", how, pop_at(t, $I(0)));
    REFUSE(t, "resize", how, resize(t, 0));
  }
  REFUSE(t, "concat", how, concat(t, tuple(extra)));
  REFUSE(t, "append", how, append(t, extra));
  REFUSE(t, "assign", how, assign(t, tuple(extra, extra)));
}

/* ---------- the enumeration ---------- */

static var id_fn(var x) { return x; }

static void elements_of(var c, var want_type, const char* how, size_t n) {
  char h[96];
  size_t i = 0;
  foreach (e in c) {
    if (i++ > n + 1) { break; }
    snprintf(h, sizeof h, "iteration of %s", how);
    observe(e, want_type, AllocData, h);
  }
  for (size_t k = 0; k < n; k += (n > 8 ? n / 4 : 1)) {
    snprintf(h, sizeof h, "get on %s", how);
    var e = get(c, $I((int64_t)k));
    observe(e, want_type, AllocData, h);
    usable_bytes(e, h);
    snprintf(h, sizeof h, "element of %s", how);
    if (want_type == String) { refusals_string(e, h, 1); } else { refusals_scalar(e, h); }
  }
  snprintf(h, sizeof h, "%s", how);
  neighbours_intact(c, n, h);
  vh_eval();
  if (len(c) != n) { vh_violation(K("container-changed-by-refused-operations", how), "len is %zu, was %zu", len(c), n); }
}

static void enumerate_all(vh_rng* r, size_t n) {
  if (n < 1) { n = 1; }
  var fn = $(Function, id_fn);
  /* direct ways */
  { var x = new(Int, $I(7)); observe(x, Int, AllocHeap, "new"); usable_bytes(x, "new"); del(x); }
  { var x = new_raw(Float, $F(1.5)); observe(x, Float, AllocHeap, "new_raw"); usable_bytes(x, "new_raw"); del_raw(x); }
  { var x = new_root(String, $S("root")); observe(x, String, AllocHeap, "new_root"); del_root(x); }
  { var x = alloc(Rec); observe(x, Rec, AllocHeap, "alloc"); usable_bytes(x, "alloc"); /* left to the collector: see the dealloc finding */ }
  { var x = alloc_raw(Rec); observe(x, Rec, AllocHeap, "alloc_raw"); dealloc_raw(x); }
  { var x = $I(5); observe(x, Int, AllocStack, "$"); usable_bytes(x, "$"); refusals_scalar(x, "stack Int"); }
  { var x = $(Rec, 1, 2.0, "abc"); observe(x, Rec, AllocStack, "$ of a user struct"); usable_bytes(x, "$ of a user struct"); refusals_scalar(x, "stack struct"); }
  { var x = $S("stack text"); observe(x, String, AllocStack, "$S"); refusals_string(x, "stack String", 0); }
  { var x = tuple($I(1), $I(2)); observe(x, Tuple, AllocStack, "tuple()"); refusals_tuple(x, "stack Tuple"); }
  { var x = tuple(); observe(x, Tuple, AllocStack, "tuple() empty"); refusals_tuple(x, "empty stack Tuple"); }
  { var x = range($I(3)); observe(x, Range, AllocStack, "range()"); refusals_scalar(x, "stack Range"); }
  { var src = new(Int, $I(3)); var x = copy(src); observe(x, Int, AllocHeap, "copy"); vh_eval(); if (x == src) { vh_violation(K("copy-returned-its-argument", "copy"), "copy returned the same object"); } }
  { var src = $S("to be copied"); var x = copy(src); observe(x, String, AllocHeap, "copy of a stack String"); }
  { var x = new(Rec); observe(x, Rec, AllocHeap, "new of a run-time type"); }
  /* static type objects */
  { var T[] = { Int, String, Table, KeyError, Type, Cmp, Rec == NULL ? Int : Int };
    for (int i = 0; i < 6; i++) { observe(T[i], Type, AllocStatic, "static type object"); refusals_scalar(T[i], "static type object"); } }
  observe(Rec, Type, AllocHeap, "run-time type object");
  /* containers of every kind */
  {
    var a = new(Array, Int); var l = new(List, Rec); var sa = new(Array, String); var sl = new(List, String);
    var tb = new(Table, String, Int); var tr = new(Tree, Int, String); var tu = new(Tuple); var ra = new(Array, Rec);
    char b[24];
    for (size_t i = 0; i < n; i++) {
      snprintf(b, sizeof b, "s%04zu", i);
      push(a, $I((int64_t)i)); push(l, $(Rec, (int64_t)i, 0.5, "x")); push(sa, $S(b)); push(sl, $S(b)); push(ra, $(Rec, (int64_t)i, 1.5, "y"));
      set(tb, $S(b), $I((int64_t)i)); set(tr, $I((int64_t)i), $S(b)); push(tu, new(Int, $I((int64_t)i)));
    }
    elements_of(a, Int, "Array<Int>", n);
    elements_of(l, Rec, "List<struct>", n);
    elements_of(ra, Rec, "Array<struct>", n);
    elements_of(sa, String, "Array<String>", n);
    elements_of(sl, String, "List<String>", n);
    /* map keys and values */
    size_t seen = 0;
    foreach (k in tb) {
      if (seen++ > n + 1) { break; }
      observe(k, String, AllocData, "key of Table (iteration)");
      var v = get(tb, k);
      observe(v, Int, AllocData, "value of Table (get)");
      if (seen <= 2) { refusals_string(k, "Table key", 1); refusals_scalar(v, "Table value"); usable_bytes(v, "value of Table (get)"); }
    }
    seen = 0;
    foreach (k in tr) {
      if (seen++ > n + 1) { break; }
      observe(k, Int, AllocData, "key of Tree (iteration)");
      var v = get(tr, k);
      observe(v, String, AllocData, "value of Tree (get)");
      if (seen <= 2) { refusals_scalar(k, "Tree key"); refusals_string(v, "Tree value", 1); }
    }
    vh_eval();
    if (len(tb) != n || len(tr) != n) { vh_violation(K("container-changed-by-refused-operations", "maps"), "Table len %zu Tree len %zu, expected %zu", len(tb), len(tr), n); }
    /* the strings inside the containers are still the ones stored (a freed buffer shows up under ASan) */
    for (size_t i = 0; i < n; i += (n > 8 ? n / 4 : 1)) {
      snprintf(b, sizeof b, "s%04zu", i);
      vh_evals(3);
      if (strcmp(c_str(get(sa, $I((int64_t)i))), b) != 0 || strcmp(c_str(get(sl, $I((int64_t)i))), b) != 0 || strcmp(c_str(get(tr, $I((int64_t)i))), b) != 0) {
        vh_violation(K("embedded-string-damaged-by-refused-operations", "containers"), "element %zu no longer reads \"%s\"", i, b);
      }
    }
    /* tuple elements are the objects that were put in */
    for (size_t i = 0; i < n; i += (n > 8 ? n / 4 : 1)) { observe(get(tu, $I((int64_t)i)), Int, AllocHeap, "element of a heap Tuple"); }
    /* views */
    size_t cnt = 0;
    foreach (e in slice(a, $I(0), $I((int64_t)n))) { if (cnt++ > n + 1) { break; } observe(e, Int, AllocData, "iteration of a Slice over an Array"); }
    cnt = 0;
    foreach (e in filter(l, fn)) { if (cnt++ > n + 1) { break; } observe(e, Rec, AllocData, "iteration of a Filter over a List"); }
    cnt = 0;
    foreach (e in zip(a, sl)) {
      if (cnt++ > n + 1) { break; }
      observe(e, Tuple, AllocStack, "iteration of a Zip");
      observe(get(e, $I(0)), Int, AllocData, "first component of a Zip item");
      observe(get(e, $I(1)), String, AllocData, "second component of a Zip item");
    }
    cnt = 0;
    foreach (e in range($I((int64_t)(n < 5 ? n : 5)))) { if (cnt++ > 7) { break; } observe(e, Int, AllocStack, "iteration of a stack Range"); }
    { var hr = new(Range, $I(3)); foreach (e in hr) { observe(e, Int, AllocHeap, "iteration of a heap Range"); } }
    vh_eval();
    if (iter_type(a) != Int || iter_type(l) != Rec || iter_type(tb) != String || iter_type(tr) != Int || key_type(tb) != String || val_type(tb) != Int || val_type(tr) != String) {
      vh_violation(K("wrong-element-type-reported", "containers"), "iter_type / key_type / val_type disagree with the construction");
    }
    del(a); del(l); del(sa); del(sl); del(tb); del(tr); del(tu); del(ra);
  }
  /* a heap object deleted once is released exactly once (own allocator observes the release) */
  {
    int64_t id = 1 + (int64_t)vh_below(r, 1000000);
    while (mo_state[id] != MO_NONE) { id++; }
    var x = new(PAddr, $I(id));
    observe(x, PAddr, AllocHeap, "new of a type with its own allocator");
    del(x);
    vh_eval();
    if (mo_state[id] != MO_RELEASED) { vh_violation(K("heap-object-not-released-by-del", "del"), "state %d after del", mo_state[id]); }
    vh_count("heap_objects_released_once");
  }
}


/* ---------- element / key / value types of different sizes, in containers obtained in different ways ----------
** A container records the sizes of its element (key, value) types when it is constructed, copied into or assigned
** to; every object it then hands out must have size(type) usable bytes of its own, whichever way the container came
** to be.  Plain types of 1..48 bytes; keys and values of different sizes in both directions. */

enum { NSZT = 6 };
static const size_t SZT_SIZE[NSZT] = { 1, 3, 8, 12, 24, 48 };
static var SZT[NSZT];

static void fill_obj(unsigned char* out, size_t size, size_t index, unsigned salt) {
  memset(out, 0, size);
  out[0] = (unsigned char)index;                       /* index < 256: distinct objects differ in the first byte */
  for (size_t i = 1; i < size; i++) { out[i] = (unsigned char)(index * 7 + i * 13 + salt); }
}

static var stack_obj(var T, size_t size, size_t index, unsigned salt, char* buf) {
  var o = header_init(buf, T, AllocStack);
  fill_obj(o, size, index, salt);
  return o;
}

static void check_map(var m, var KT, size_t ks, var VT, size_t vs, const unsigned char* present, size_t n, const char* how) {
  char kbuf[sizeof(struct Header) + 64];
  unsigned char want[64];
  size_t seen = 0, expected = 0;
  for (size_t i = 0; i < n; i++) { expected += present[i]; }
  vh_eval();
  if (len(m) != expected) { vh_violation(K("map-of-sized-types:len", how), "len %zu, expected %zu", len(m), expected); return; }
  foreach (k in m) {
    if (seen++ > n + 1) { break; }
    observe(k, KT, AllocData, how);
    var v = get(m, k);
    observe(v, VT, AllocData, how);
    size_t index = *(unsigned char*)k;
    fill_obj(want, vs, index, 99);
    vh_evals(2);
    if (index >= n || !present[index]) { vh_violation(K("map-of-sized-types:unexpected-key", how), "iteration yields key %zu which is not bound", index); break; }
    if (memcmp(v, want, vs) != 0) { vh_violation(K("map-of-sized-types:value-bytes-differ", how), "value of key %zu (%zu-byte keys, %zu-byte values) does not hold the bytes that were stored", index, ks, vs); break; }
    usable_bytes(v, how);
  }
  if (seen != expected) { vh_violation(K("map-of-sized-types:iteration-count", how), "iteration yields %zu keys, expected %zu", seen, expected); }
  /* after all values have been written over their full size: every key is still found, every value still right */
  for (size_t i = 0; i < n; i++) {
    if (!present[i]) { continue; }
    var k = stack_obj(KT, ks, i, 11, kbuf);
    vh_eval();
    if (!mem(m, k)) { vh_violation(K("map-of-sized-types:key-lost", how), "key %zu is no longer found after its neighbours' values were written", i); break; }
    fill_obj(want, vs, i, 99);
    if (memcmp(get(m, k), want, vs) != 0) { vh_violation(K("map-of-sized-types:value-bytes-differ", how), "value of key %zu changed after its neighbours' values were written", i); break; }
  }
  vh_count("sized_map_checks");
}

static void sized_maps(vh_rng* r, size_t n) {
  if (n > 200) { n = 200; }
  int tree = (int)vh_below(r, 2);
  int ki = (int)vh_below(r, NSZT), vi = (int)vh_below(r, NSZT);
  var KT = SZT[ki], VT = SZT[vi]; size_t ks = SZT_SIZE[ki], vs = SZT_SIZE[vi];
  var MK = tree ? Tree : Table;
  char kbuf[sizeof(struct Header) + 64], vbuf[sizeof(struct Header) + 64], how[120];
  unsigned char present[256]; memset(present, 0, sizeof present);
  var m = new_with(MK, tuple(KT, VT));
  /* insertion order: ascending, descending or scattered */
  int order = (int)vh_below(r, 3);
  for (size_t j = 0; j < n; j++) {
    size_t i = order == 0 ? j : order == 1 ? n - 1 - j : (j * 37) % n;
    if (present[i]) { continue; }
    set(m, stack_obj(KT, ks, i, 11, kbuf), stack_obj(VT, vs, i, 99, vbuf));
    present[i] = 1;
  }
  for (size_t i = 0; i < n; i++) { if (!present[i]) { set(m, stack_obj(KT, ks, i, 11, kbuf), stack_obj(VT, vs, i, 99, vbuf)); present[i] = 1; } }
  snprintf(how, sizeof how, "%s<%zu-byte,%zu-byte> built by set", tree ? "Tree" : "Table", ks, vs);
  check_map(m, KT, ks, VT, vs, present, n, how);
  /* the same map obtained by copy, and by assign over a map of other types */
  var c = copy(m);
  snprintf(how, sizeof how, "%s<%zu-byte,%zu-byte> obtained by copy", tree ? "Tree" : "Table", ks, vs);
  check_map(c, KT, ks, VT, vs, present, n, how);
  var other_kinds[] = { Table, Tree };
  var a = new_with(other_kinds[vh_below(r, 2)], tuple(String, Int));
  set(a, $S("one"), $I(1)); set(a, $S("two"), $I(2));
  var a2 = vh_chance(r, 50) ? new_with(MK, tuple(VT, KT)) : new_with(MK, tuple(KT, VT));       /* same kind, sizes the other way round */
  assign(a, m); assign(a2, c);
  snprintf(how, sizeof how, "%s<%zu-byte,%zu-byte> assigned over a map of String and Int", tree ? "Tree" : "Table", ks, vs);
  if (type_of(a) == MK) { check_map(a, KT, ks, VT, vs, present, n, how); }
  else { snprintf(how, sizeof how, "%s<%zu-byte,%zu-byte> assigned to the other map kind", tree ? "Tree" : "Table", ks, vs); check_map(a, KT, ks, VT, vs, present, n, how); }
  snprintf(how, sizeof how, "%s<%zu-byte,%zu-byte> assigned over a map with the sizes swapped", tree ? "Tree" : "Table", ks, vs);
  check_map(a2, KT, ks, VT, vs, present, n, how);
  /* removals (for a Tree: nodes with two children among them) from the copy and the assigned ones, then re-check */
  unsigned char p2[256]; memcpy(p2, present, sizeof p2);
  for (size_t i = 0; i < n; i++) {
    if (vh_chance(r, 40)) { rem(c, stack_obj(KT, ks, i, 11, kbuf)); rem(a2, stack_obj(KT, ks, i, 11, kbuf)); p2[i] = 0; }
  }
  snprintf(how, sizeof how, "%s<%zu-byte,%zu-byte> obtained by copy, after removals", tree ? "Tree" : "Table", ks, vs);
  check_map(c, KT, ks, VT, vs, p2, n, how);
  snprintf(how, sizeof how, "%s<%zu-byte,%zu-byte> assigned, after removals", tree ? "Tree" : "Table", ks, vs);
  check_map(a2, KT, ks, VT, vs, p2, n, how);
  snprintf(how, sizeof how, "%s<%zu-byte,%zu-byte> the original after its copies changed", tree ? "Tree" : "Table", ks, vs);
  check_map(m, KT, ks, VT, vs, present, n, how);
  vh_eval();
  if (key_type(c) != KT || val_type(c) != VT || key_type(a2) != KT || val_type(a2) != VT) { vh_violation(K("wrong-element-type-reported", "copied or assigned map"), "key_type / val_type of a copied or assigned map disagree with the source"); }
  del(m); del(c); del(a); del(a2);
  if (ks < vs) { vh_count("sized_maps_value_larger_than_key"); } else if (ks > vs) { vh_count("sized_maps_key_larger_than_value"); } else { vh_count("sized_maps_equal_sizes"); }
}

static void check_seq(var c, var T, size_t es, size_t n, unsigned salt, const char* how) {
  unsigned char want[64];
  vh_eval();
  if (len(c) != n) { vh_violation(K("sequence-of-sized-type:len", how), "len %zu, expected %zu", len(c), n); return; }
  for (size_t i = 0; i < n; i++) {
    var e = get(c, $I((int64_t)i));
    observe(e, T, AllocData, how);
    fill_obj(want, es, i, salt);
    vh_eval();
    if (memcmp(e, want, es) != 0) { vh_violation(K("sequence-of-sized-type:element-bytes-differ", how), "element %zu (%zu bytes) does not hold the bytes that were stored", i, es); return; }
    usable_bytes(e, how);
  }
  for (size_t i = 0; i < n; i++) {
    fill_obj(want, es, i, salt);
    if (memcmp(get(c, $I((int64_t)i)), want, es) != 0) { vh_violation(K("sequence-of-sized-type:element-bytes-differ", how), "element %zu changed after its neighbours were written", i); return; }
  }
  neighbours_intact(c, n, how);
  vh_count("sized_sequence_checks");
}

static void sized_sequences(vh_rng* r, size_t n) {
  if (n > 200) { n = 200; }
  int list = (int)vh_below(r, 2);
  int ti = (int)vh_below(r, NSZT), oi = (int)vh_below(r, NSZT);
  var T = SZT[ti]; size_t es = SZT_SIZE[ti];
  var SK = list ? List : Array, OK = list ? Array : List;
  char ebuf[sizeof(struct Header) + 64], how[120];
  var c = new_with(SK, tuple(T));
  for (size_t i = 0; i < n; i++) { push(c, stack_obj(T, es, i, 5, ebuf)); }
  snprintf(how, sizeof how, "%s<%zu-byte> built by push", list ? "List" : "Array", es);
  check_seq(c, T, es, n, 5, how);
  var cp = copy(c);
  snprintf(how, sizeof how, "%s<%zu-byte> obtained by copy", list ? "List" : "Array", es);
  check_seq(cp, T, es, n, 5, how);
  var a1 = new_with(SK, tuple(SZT[oi]));                 /* same kind, another element size */
  for (size_t i = 0; i < 3; i++) { push(a1, stack_obj(SZT[oi], SZT_SIZE[oi], i, 1, ebuf)); }
  assign(a1, c);
  snprintf(how, sizeof how, "%s<%zu-byte> assigned over one of %zu-byte elements", list ? "List" : "Array", es, SZT_SIZE[oi]);
  check_seq(a1, T, es, n, 5, how);
  var a2 = new_with(OK, tuple(String, $S("x"), $S("y")));      /* the other kind, String elements */
  assign(a2, c);
  snprintf(how, sizeof how, "%s<%zu-byte> assigned to a %s of Strings", list ? "List" : "Array", es, list ? "Array" : "List");
  check_seq(a2, T, es, n, 5, how);
  var cc = new_with(SK, tuple(T));
  concat(cc, cp);
  snprintf(how, sizeof how, "%s<%zu-byte> filled by concat", list ? "List" : "Array", es);
  check_seq(cc, T, es, n, 5, how);
  /* shrink and grow the copy; the original is unaffected */
  if (n > 2) {
    resize(cp, n / 2);
    snprintf(how, sizeof how, "%s<%zu-byte> obtained by copy, after resize", list ? "List" : "Array", es);
    check_seq(cp, T, es, n / 2, 5, how);
  }
  snprintf(how, sizeof how, "%s<%zu-byte> the original after its copies changed", list ? "List" : "Array", es);
  check_seq(c, T, es, n, 5, how);
  vh_eval();
  if (iter_type(a1) != T || iter_type(a2) != T || iter_type(cp) != T) { vh_violation(K("wrong-element-type-reported", "copied or assigned sequence"), "iter_type of a copied or assigned sequence disagrees with the source"); }
  del(c); del(cp); del(a1); del(a2); del(cc);
}



/* a container obtained from an EMPTY source (copy of an empty container, assign of an empty container over one of
   another element type) still takes over the source's element / key / value types: what is put into it afterwards
   comes back with those types */
static void empty_sources(vh_rng* r) {
  int ti = (int)vh_below(r, NSZT), oi = (int)vh_below(r, NSZT);
  var T = SZT[ti]; size_t es = SZT_SIZE[ti];
  char ebuf[sizeof(struct Header) + 64], vbuf[sizeof(struct Header) + 64], how[120];
  for (int kind = 0; kind < 2; kind++) {
    var SK = kind ? List : Array;
    var src = new_with(SK, tuple(T));
    if (vh_chance(r, 50)) { push(src, stack_obj(T, es, 1, 5, ebuf)); pop(src); }       /* empty again after having held something */
    var cp = copy(src);
    var as = new_with(SK, tuple(SZT[oi]));
    for (size_t i = 0; i < 3; i++) { push(as, stack_obj(SZT[oi], SZT_SIZE[oi], i, 1, ebuf)); }
    assign(as, src);
    var both[2] = { cp, as };
    for (int w = 0; w < 2; w++) {
      snprintf(how, sizeof how, "%s<%zu-byte> %s an empty source", kind ? "List" : "Array", es, w ? "assigned from" : "copied from");
      vh_evals(2);
      if (len(both[w]) != 0) { vh_violation(K("empty-source:not-empty", how), "len %zu", len(both[w])); continue; }
      if (iter_type(both[w]) != T) { vh_violation(K("wrong-element-type-reported", how), "iter_type is %s, the source's element type is %s", iter_type(both[w]) ? c_str(iter_type(both[w])) : "NULL", c_str(T)); continue; }
      var exc = NULL;
      for (size_t i = 0; i < 4 && !exc; i++) { VH_CATCH(push(both[w], stack_obj(T, es, i, 5, ebuf)), exc); }
      if (exc) { vh_violation(K("empty-source:push-raised", how), "push of an element of the source's type raised %s", vh_exc_name(exc)); continue; }
      check_seq(both[w], T, es, 4, 5, how);
    }
    del(src); del(cp); del(as);
  }
  for (int tree = 0; tree < 2; tree++) {
    var MK = tree ? Tree : Table;
    var KT = SZT[ti], VT = SZT[oi]; size_t ks = SZT_SIZE[ti], vs = SZT_SIZE[oi];
    var src = new_with(MK, tuple(KT, VT));
    var cp = copy(src);
    var as = new_with(MK, tuple(String, Int));
    set(as, $S("k"), $I(1));
    assign(as, src);
    var both[2] = { cp, as };
    unsigned char present[256]; memset(present, 0, sizeof present);
    for (int w = 0; w < 2; w++) {
      snprintf(how, sizeof how, "%s<%zu-byte,%zu-byte> %s an empty source", tree ? "Tree" : "Table", ks, vs, w ? "assigned from" : "copied from");
      vh_evals(2);
      if (len(both[w]) != 0) { vh_violation(K("empty-source:not-empty", how), "len %zu", len(both[w])); continue; }
      if (key_type(both[w]) != KT || val_type(both[w]) != VT) { vh_violation(K("wrong-element-type-reported", how), "key_type / val_type differ from the source's"); continue; }
      var exc = NULL;
      for (size_t i = 0; i < 5 && !exc; i++) { VH_CATCH(set(both[w], stack_obj(KT, ks, i, 11, ebuf), stack_obj(VT, vs, i, 99, vbuf)), exc); }
      if (exc) { vh_violation(K("empty-source:set-raised", how), "set with objects of the source's types raised %s", vh_exc_name(exc)); continue; }
      memset(present, 0, sizeof present); for (int i = 0; i < 5; i++) { present[i] = 1; }
      check_map(both[w], KT, ks, VT, vs, present, 5, how);
    }
    del(src); del(cp); del(as);
  }
  vh_count("containers_obtained_from_empty_sources");
}

/* every object an iterator hands out, forwards and backwards, is one of the container's live elements (the ones get
   returns), has the element type, and there are exactly len of them -- also after elements were removed at the
   head, the tail and in the middle (a released element must never be handed out again) */
static void iterator_results(var c, var want_type, size_t n, const char* how) {
  var live[256];
  if (n > 256) { return; }
  vh_eval();
  if (len(c) != n) { vh_violation(K("iterator-results:len", how), "len %zu, expected %zu", len(c), n); return; }
  for (size_t i = 0; i < n; i++) { live[i] = get(c, $I((int64_t)i)); }
  for (int dir = 0; dir < 2; dir++) {
    size_t steps = 0;
    for (var it = dir ? iter_last(c) : iter_init(c); it != Terminal; it = dir ? iter_prev(c, it) : iter_next(c, it)) {
      if (steps >= n) { vh_violation(K(dir ? "backward-iteration-hands-out-more-objects-than-len" : "forward-iteration-hands-out-more-objects-than-len", how), "%zu objects and counting, len is %zu", steps + 1, n); break; }
      size_t want = dir ? n - 1 - steps : steps;
      vh_eval();
      if (it != live[want]) { vh_violation(K(dir ? "backward-iteration-hands-out-an-object-that-is-not-the-live-element" : "forward-iteration-hands-out-an-object-that-is-not-the-live-element", how), "step %zu: %p, element %zu is %p", steps, it, want, live[want]); break; }
      observe(it, want_type, AllocData, how);
      steps++;
    }
    if (steps < n) { vh_violation(K(dir ? "backward-iteration-ends-early" : "forward-iteration-ends-early", how), "%zu objects, len is %zu", steps, n); }
  }
  vh_count("iterator_result_walks");
}

static void iterator_results_after_edits(vh_rng* r, size_t n) {
  if (n < 3) { n = 3; }
  if (n > 60) { n = 60; }
  char b[24], how[96];
  for (int kind = 0; kind < 2; kind++) {
    var c = kind ? (var)new(List, String) : (var)new(Array, String);
    for (size_t i = 0; i < n; i++) { snprintf(b, sizeof b, "e%04zu", i); push(c, $S(b)); }
    size_t m = n;
    snprintf(how, sizeof how, "%s<String> as built", kind ? "List" : "Array");
    iterator_results(c, String, m, how);
    int edits = 1 + (int)vh_below(r, 6);
    for (int e = 0; e < edits && m > 1; e++) {
      switch (vh_below(r, 5)) {
        case 0: pop_at(c, $I(0)); m--; snprintf(how, sizeof how, "%s<String> after its head was removed", kind ? "List" : "Array"); break;
        case 1: pop(c); m--; snprintf(how, sizeof how, "%s<String> after its tail was removed", kind ? "List" : "Array"); break;
        case 2: pop_at(c, $I((int64_t)(m / 2))); m--; snprintf(how, sizeof how, "%s<String> after a middle element was removed", kind ? "List" : "Array"); break;
        case 3: { var first = get(c, $I(0)); char t[24]; snprintf(t, sizeof t, "%s", c_str(first)); rem(c, $S(t)); m--; snprintf(how, sizeof how, "%s<String> after rem of its first element", kind ? "List" : "Array"); break; }
        default: push_at(c, $S("pushed"), $I(0)); m++; snprintf(how, sizeof how, "%s<String> after push_at(0)", kind ? "List" : "Array"); break;
      }
      iterator_results(c, String, m, how);
    }
    del(c);
  }
}

/* the same refusals in a thread whose collector has never registered anything (empty registry):
   only raw and stack allocations are made there */
static var fresh_thread_refusals(var args) {
  (void)args;
  var sa = new_raw(Array, String);
  var ra = new_raw(Array, Rec);
  var tb = new_raw(Table, String, Int);
  char b[24];
  for (int i = 0; i < 5; i++) { snprintf(b, sizeof b, "s%04d", i); push(sa, $S(b)); push(ra, $(Rec, i, 1.5, "y")); set(tb, $S(b), $I(i)); }
  for (int i = 0; i < 5; i++) {
    refusals_string(get(sa, $I(i)), "element of Array<String> in a thread with an empty registry", 1);
    refusals_scalar(get(ra, $I(i)), "element of Array<struct> in a thread with an empty registry");
  }
  foreach (k in tb) { refusals_string(k, "Table key in a thread with an empty registry", 1); refusals_scalar(get(tb, k), "Table value in a thread with an empty registry"); break; }
  refusals_scalar($I(3), "stack Int in a thread with an empty registry");
  refusals_string($S("stack"), "stack String in a thread with an empty registry", 0);
  for (int i = 0; i < 5; i++) {
    snprintf(b, sizeof b, "s%04d", i);
    vh_eval();
    /* a freed buffer shows up under ASan, or as different text */
    if (strcmp(c_str(get(sa, $I(i))), b) != 0) { vh_violation(K("embedded-string-damaged-by-refused-operations", "thread with an empty registry"), "element %d no longer reads \"%s\"", i, b); }
  }
  vh_eval();
  if (len(sa) != 5 || len(ra) != 5 || len(tb) != 5) { vh_violation(K("container-changed-by-refused-operations", "thread with an empty registry"), "lengths %zu %zu %zu", len(sa), len(ra), len(tb)); }
  del_raw(sa); del_raw(ra); del_raw(tb);
  vh_count("empty_registry_thread_runs");
  return NULL;
}

static void run_fresh_thread(void) {
  var fn = $(Function, fresh_thread_refusals);
  var t = new_raw(Thread, fn);
  call(t); join(t);
  del_raw(t);
}

static void fixed(void) {
  vh_rng r; vh_rng_seed(&r, 19);
  run_fresh_thread();
  static const size_t SZ[] = { 1, 2, 3, 7, 64 };
  for (int i = 0; i < 5; i++) {
    vh.oplen = 0; vh.oplog[0] = 0; vh.nops = 0;
    vh_op("enumeration at container size %zu", SZ[i]);
    enumerate_all(&r, SZ[i]);
    for (int k = 0; k < 12; k++) { sized_maps(&r, SZ[i] + (size_t)k); sized_sequences(&r, SZ[i] + (size_t)k); iterator_results_after_edits(&r, SZ[i] + (size_t)k); empty_sources(&r); }
  }
  /* OPEN FINDING reproducer: dealloc of an object obtained from alloc leaves its registry entry behind
     (in a child process: the stale entry would make a later sweep finalise freed memory) */
  {
    fflush(NULL);
    pid_t pid = vh_fork();
    if (pid == 0) {
      var x = alloc(Rec);
      dealloc(x);
      _exit(mem(current(GC), x) ? 5 : 0);
    }
    int st = 0;
    if (pid > 0) { waitpid(pid, &st, 0); }
    vh.oplen = 0; vh.oplog[0] = 0; vh.nops = 0;
    vh_op("x = alloc(T); dealloc(x); mem(current(GC), x)");
    vh_eval();
    if (pid > 0 && WIFEXITED(st) && WEXITSTATUS(st) == 5) {
      vh_violation("C19:dealloc:registered-object-stays-in-the-registry", "after x = alloc(T); dealloc(x) the collector still lists x: its next sweep finalises and frees the block again");
    }
    vh_count("dealloc_reproducer_runs");
  }
  /* the Tuple pop_at shape: a stack tuple must be unchanged after the refusal */
  var a = $I(1), b = $I(2), c = $I(3);
  var t = tuple(a, b, c);
  var exc;
  VH_CATCH(pop_at(t, $I(0)), exc);
  vh.oplen = 0; vh.oplog[0] = 0; vh.nops = 0;
  vh_op("pop_at(tuple(a,b,c), 0)");
  vh_evals(2);
  if (exc != ValueError && exc != ResourceError) { vh_violation("C19:pop_at:stack-Tuple", "pop_at of a stack tuple gave %s", vh_exc_name(exc)); }
  if (len(t) != 3 || get(t, $I(0)) != a || get(t, $I(1)) != b || get(t, $I(2)) != c) { vh_violation("C19:pop_at:stack-Tuple:object-changed", "stack tuple has len %zu after the refused pop_at", len(t)); }
}

/* ---------- stack objects ($, alloc_stack): size(type) bytes of each are its own ----------
** Statically declared plain types of sizes that are and are not multiples of a word, several objects of them in one
** frame between two stack Ints.  Every byte of every object is written; afterwards every header still names the true
** type and the stack allocation class, and every object still holds its own bytes (ASan watches the writes). */
struct St1 { unsigned char b[1]; };   struct St3 { unsigned char b[3]; };   struct St8 { unsigned char b[8]; };
struct St12 { float x, y, z; };       struct St15 { unsigned char b[15]; }; struct St20 { unsigned char b[20]; };
struct St33 { unsigned char b[33]; };
static var St1 = Cello(St1); static var St3 = Cello(St3); static var St8 = Cello(St8); static var St12 = Cello(St12);
static var St15 = Cello(St15); static var St20 = Cello(St20); static var St33 = Cello(St33);

/* (the objects are made by plain expression statements at function scope: a compound literal lives as long as the block
   it appears in, so neither a do-while wrapper nor an if branch may enclose the allocation) */
#define STK(T) (obj[n] = alloc_stack(T), typ[n] = T, sz[n] = sizeof(struct T), n++)
#define LIT(T) (obj[n] = $(T, {{0}}), typ[n] = T, sz[n] = sizeof(struct T), n++)
enum { NOBJ = 14 };
static void check_stack_objects(var* obj, var* typ, size_t* sz, int n, var g0, var g1) {
  for (int i = 0; i < n; i++) {
    vh_eval();
    if (size(typ[i]) != sz[i]) { vh_violation(K("stack-object-size", "size"), "size(%s) is %zu, the struct has %zu bytes", c_str(typ[i]), size(typ[i]), sz[i]); }
    memset(obj[i], 0xA0 + i, size(typ[i]));
  }
  for (int i = 0; i < n; i++) {
    vh_evals(2);
    struct Header* h = header(obj[i]);
    if (h->type != typ[i] || h->alloc != (var)AllocStack) {
      vh_violation(K("stack-object-header-overwritten-by-a-neighbour", "$"), "stack object %d (%s, %zu bytes) of a frame of %d: its header no longer names its type and allocation class after all size(type) bytes of its neighbours were written", i, c_str(typ[i]), sz[i], n);
      return;
    }
    if (type_of(obj[i]) != typ[i]) { vh_violation(K("stack-object-wrong-type", "$"), "type_of gives %s for a stack %s", c_str(type_of(obj[i])), c_str(typ[i])); return; }
    for (size_t k = 0; k < sz[i]; k++) {
      if (((unsigned char*)obj[i])[k] != (unsigned char)(0xA0 + i)) {
        vh_violation(K("stack-object-bytes-overwritten-by-a-neighbour", "$"), "stack object %d (%s): byte %zu of its %zu is 0x%02x after its neighbours were written", i, c_str(typ[i]), k, sz[i], ((unsigned char*)obj[i])[k]);
        return;
      }
    }
  }
  vh_evals(2);
  if (type_of(g0) != Int || c_int(g0) != 1111 || type_of(g1) != Int || c_int(g1) != 2222) { vh_violation(K("stack-object-bytes-overwritten-by-a-neighbour", "$"), "a stack Int next to stack objects of odd sizes changed"); }
  vh_count_n("stack_objects_of_sized_types_written_in_full", (uint64_t)n);
}
static void __attribute__((noinline)) stack_object_frame0(void) {
  var obj[NOBJ]; var typ[NOBJ]; size_t sz[NOBJ]; int n = 0;
  var g0 = $I(1111);
  STK(St12); STK(St12); STK(St12); STK(St12); LIT(St15); LIT(St15); LIT(St15); STK(St3); STK(St1); STK(St1); LIT(St20); STK(St33); STK(St8); LIT(St3);
  var g1 = $I(2222);
  check_stack_objects(obj, typ, sz, n, g0, g1);
}
static void __attribute__((noinline)) stack_object_frame1(void) {
  var obj[NOBJ]; var typ[NOBJ]; size_t sz[NOBJ]; int n = 0;
  var g0 = $I(1111);
  LIT(St1); STK(St3); LIT(St12); STK(St15); LIT(St20); STK(St33); LIT(St8); STK(St1); LIT(St3); STK(St12); LIT(St15); STK(St20); LIT(St33); STK(St8);
  var g1 = $I(2222);
  check_stack_objects(obj, typ, sz, n, g0, g1);
}
static void __attribute__((noinline)) stack_object_frame2(void) {
  var obj[NOBJ]; var typ[NOBJ]; size_t sz[NOBJ]; int n = 0;
  var g0 = $I(1111);
  STK(St33); STK(St20); STK(St15); STK(St12); STK(St8); STK(St3); STK(St1); LIT(St33); LIT(St20); LIT(St15); LIT(St12); LIT(St8); LIT(St3); LIT(St1);
  var g1 = $I(2222);
  check_stack_objects(obj, typ, sz, n, g0, g1);
}
#undef STK
#undef LIT
static void stack_object_frame(int variant) { if (variant == 0) { stack_object_frame0(); } else if (variant == 1) { stack_object_frame1(); } else { stack_object_frame2(); } }

/* ---------- heap objects whose destructors delete each other, released by the collector ----------
** A pair (or ring of three) of objects of a type with its own allocator; each destructor deletes the next object.
** Nothing refers to them; garbage is produced until collections have run.  However the sweep and the destructors
** interleave, every member is destructed once and handed back to its allocator once. */
enum { RN_MAX = 256 };
struct RNode { int64_t slot; var next; };
static long rn_destructs[RN_MAX], rn_releases[RN_MAX]; static int rn_next_slot;
static var RNode;
static var RNode_Alloc(void) { struct Header* h = calloc(1, sizeof(struct Header) + sizeof(struct RNode)); return header_init(h, RNode, AllocHeap); }
static void RNode_Dealloc(var self) { struct RNode* n = self; if (n->slot >= 0 && n->slot < RN_MAX) { rn_releases[n->slot]++; } if (n->slot >= 0 && n->slot < RN_MAX && rn_releases[n->slot] == 1) { free((char*)self - sizeof(struct Header)); } }
static void RNode_New(var self, var args) { struct RNode* n = self; n->slot = c_int(get(args, $I(0))); n->next = NULL; }
static void RNode_Del(var self) { struct RNode* n = self; if (n->slot < 0 || n->slot >= RN_MAX) { return; } if (++rn_destructs[n->slot] > 1) { return; } if (n->next) { del(n->next); } }
static var RNode = Cello(RNode, Instance(Alloc, RNode_Alloc, RNode_Dealloc), Instance(New, RNode_New, RNode_Del));

static void __attribute__((noinline)) rn_make(int n, int first_slot) {
  var first = NULL, prev = NULL;
  for (int i = 0; i < n; i++) { var x = new(RNode, $I(first_slot + i)); if (prev) { ((struct RNode*)prev)->next = x; } else { first = x; } prev = x; }
  ((struct RNode*)prev)->next = first;
}
static void __attribute__((noinline)) rn_scrub(void) { volatile char pad[4096]; for (size_t i = 0; i < sizeof pad; i++) { pad[i] = 0; } }
static void __attribute__((noinline)) rn_churn(int k) { for (int i = 0; i < k; i++) { var g = new(Int, $I(i)); (void)g; } }
static void mutual_owners_released_once(vh_rng* r) {
  int n = 2 + (int)vh_below(r, 2);
  if (rn_next_slot + n > RN_MAX) { return; }
  int s0 = rn_next_slot; rn_next_slot += n;
  rn_make(n, s0);
  rn_scrub();
  rn_churn(2500);
  vh_evals((uint64_t)n);
  int collected = 0;
  for (int i = 0; i < n; i++) {
    if (rn_destructs[s0 + i] > 1 || rn_releases[s0 + i] > 1) {
      vh_violation(K("heap-object-released-more-than-once", "collector"), "member %d of a ring of %d heap objects whose destructors delete each other: destructed %ld times, released %ld times by the collector", i, n, rn_destructs[s0 + i], rn_releases[s0 + i]);
      return;
    }
    if (rn_destructs[s0 + i] != rn_releases[s0 + i]) { vh_violation(K("heap-object-destructed-but-not-released", "collector"), "member %d of a ring: destructed %ld times, released %ld times", i, rn_destructs[s0 + i], rn_releases[s0 + i]); return; }
    collected += rn_releases[s0 + i] == 1;
  }
  if (collected == n) { vh_count("rings_of_mutual_owners_released_once"); }
  vh_count("rings_of_mutual_owners");
}

/* ---------- a run-time type constructed again in place ----------
** construct(T, name, size, instances...) on a Type object that has been in use replaces its definition: from then on
** size(T) is the new size, objects of T get that many usable bytes and the new definition's constructor and
** destructor -- whatever the first definition's lookups left behind in the type object. */
static long rd_ctor[2], rd_dtor[2];
static void rdA_new(var self, var args) { (void)self; (void)args; rd_ctor[0]++; }
static void rdA_del(var self) { (void)self; rd_dtor[0]++; }
static void rdB_new(var self, var args) { (void)args; rd_ctor[1]++; memset(self, 0x6B, 64); }
static void rdB_del(var self) { rd_dtor[1]++; unsigned char* p = self; for (int i = 0; i < 64; i++) { if (p[i] != 0x6B) { rd_dtor[1] += 1000; break; } } }
static size_t rd_size40(void) { return 40; }
static uint64_t rdA_hash(var self) { (void)self; return 1111; }
static uint64_t rdB_hash(var self) { (void)self; return 2222; }
static size_t rdA_len(var self) { (void)self; return 1; }
static size_t rdB_len(var self) { (void)self; return 2; }
static var rd_instance(var cls, void* f0, void* f1) {
  char* blk = calloc(1, sizeof(struct Header) + 2 * sizeof(var));
  var inst = header_init(blk, cls, AllocHeap);
  ((void**)inst)[0] = f0; ((void**)inst)[1] = f1;
  return inst;
}
static void redefined_type(vh_rng* r) {
  char nm[32]; snprintf(nm, sizeof nm, "Redef%ld", (long)vh_below(r, 1000000));
  char* name = strdup(nm);
  int with_size_instance = (int)vh_below(r, 2);
  var T = with_size_instance ? new_root(Type, $S(name), $I(16), rd_instance(New, (void*)rdA_new, (void*)rdA_del), rd_instance(Size, (void*)rd_size40, NULL), rd_instance(Hash, (void*)rdA_hash, NULL), rd_instance(Len, (void*)rdA_len, NULL))
                             : new_root(Type, $S(name), $I(16), rd_instance(New, (void*)rdA_new, (void*)rdA_del), rd_instance(Hash, (void*)rdA_hash, NULL), rd_instance(Len, (void*)rdA_len, NULL));
  long c0[2] = { rd_ctor[0], rd_ctor[1] }, d0[2] = { rd_dtor[0], rd_dtor[1] };
  /* first definition in use: every lookup it needs has happened */
  var x = new_raw_with(T, tuple());
  vh_evals(3);
  size_t want1 = with_size_instance ? 40 : 16;
  if (size(T) != want1 || type_of(x) != T) { vh_violation(K("runtime-type-first-definition", "new"), "first definition: size %zu (expected %zu)", size(T), want1); }
  memset(x, 0x11, want1);
  if (hash(x) != 1111 || len(x) != 1) { vh_violation(K("runtime-type-first-definition", "new"), "first definition: hash %" PRIu64 ", len %zu", hash(x), len(x)); }
  del_raw(x);
  if (rd_ctor[0] - c0[0] != 1 || rd_dtor[0] - d0[0] != 1) { vh_violation(K("runtime-type-first-definition", "new"), "first definition: constructor ran %ld times, destructor %ld times", rd_ctor[0] - c0[0], rd_dtor[0] - d0[0]); }
  /* second definition, in place: 64 bytes, another constructor and destructor, no Size instance */
  var exc = NULL;
  VH_CATCH(construct(T, $S(name), $I(64), rd_instance(New, (void*)rdB_new, (void*)rdB_del), rd_instance(Hash, (void*)rdB_hash, NULL), rd_instance(Len, (void*)rdB_len, NULL)), exc);
  if (exc) { vh_violation(K("runtime-type-redefinition-raised", "construct"), "construct on a Type object in use raised %s", vh_exc_name(exc)); del_root(T); return; }
  vh_evals(4);
  if (size(T) != 64) { vh_violation(K("runtime-type-size-from-the-replaced-definition", "construct"), "after the type was constructed again with size 64 (first definition %s), size(T) is %zu", with_size_instance ? "had a Size instance saying 40" : "had size 16", size(T)); }
  else {
    c0[0] = rd_ctor[0]; c0[1] = rd_ctor[1]; d0[0] = rd_dtor[0]; d0[1] = rd_dtor[1];
    var y = new_raw_with(T, tuple());            /* the new constructor fills all 64 bytes, the new destructor checks them */
    if (type_of(y) != T) { vh_violation(K("wrong-type", "redefined type"), "object of the redefined type reports another type"); }
    if (hash(y) != 2222 || len(y) != 2) { vh_violation(K("runtime-type-instances-from-the-replaced-definition", "construct"), "after the redefinition hash gives %" PRIu64 " (new definition: 2222) and len %zu (new definition: 2)", hash(y), len(y)); }
    del_raw(y);
    if (rd_ctor[1] - c0[1] != 1 || rd_dtor[1] - d0[1] != 1 || rd_ctor[0] != c0[0] || rd_dtor[0] != d0[0]) {
      vh_violation(K("runtime-type-instances-from-the-replaced-definition", "construct"), "after the redefinition: new constructor %ld, new destructor %ld, old constructor %ld, old destructor %ld calls for one object made and deleted",
                   rd_ctor[1] - c0[1], rd_dtor[1] - d0[1], rd_ctor[0] - c0[0], rd_dtor[0] - d0[0]);
    }
  }
  vh_count("runtime_types_constructed_again_in_place");
  del_root(T);
}

/* ---------- a run-time type with as many instances as a type may have ----------
** 256 (CELLO_MAX_INSTANCES) instances (and one or two fewer): the type object holds them all and its end marker, the last
** instance is found, a class it does not implement is not, objects of it carry it and are usable over size(type). */
static void largest_type(vh_rng* r) {
  enum { MAXI = 256 };      /* CELLO_MAX_INSTANCES, private to Type.c */
  static char pool[MAXI][sizeof(struct Header) + 2 * sizeof(var)];
  int n = MAXI - (int)vh_below(r, 3);
  var args = new_raw(Tuple);
  char nm[32]; snprintf(nm, sizeof nm, "Large%d", n);
  char* name = strdup(nm);
  push(args, $S(name)); push(args, $I(24));
  for (int i = 0; i < n; i++) {
    memset(pool[i], 0, sizeof pool[i]);
    var inst = header_init(pool[i], i == n - 1 ? Hash : i == n - 2 ? Len : Show, AllocStatic);
    if (i == n - 1) { ((void**)inst)[0] = (void*)rdA_hash; }
    if (i == n - 2) { ((void**)inst)[0] = (void*)rdA_len; }
    push(args, inst);
  }
  var exc = NULL; var T = NULL;
  VH_CATCH(T = new_root_with(Type, args), exc);
  del_raw(args);
  vh_evals(6);
  if (exc) { vh_violation(K("runtime-type-with-the-most-instances-refused", "new"), "a Type with %d instances (the maximum is %d) raised %s", n, MAXI, vh_exc_name(exc)); return; }
  var x = new_raw_with(T, tuple());
  if (type_of(x) != T || size(T) != 24) { vh_violation(K("wrong-type", "type with the most instances"), "object of a type with %d instances: type_of %s, size %zu", n, type_of(x) == T ? "right" : "wrong", size(T)); }
  memset(x, 0x33, 24);
  if (hash(x) != 1111 || len(x) != 1) { vh_violation(K("runtime-type-last-instance-not-found", "new"), "type with %d instances: hash gives %" PRIu64 " (its last instance says 1111), len %zu (1)", n, hash(x), len(x)); }
  if (type_implements(T, Cmp) || type_instance(T, Iter) != NULL || !type_implements(T, Show) || !type_implements(T, Hash)) {
    vh_violation(K("runtime-type-class-membership-wrong", "new"), "type with %d instances (Show x%d, Len, Hash): implements Cmp %d, Iter instance %p, Show %d, Hash %d", n, n - 2, (int)type_implements(T, Cmp), type_instance(T, Iter), (int)type_implements(T, Show), (int)type_implements(T, Hash));
  }
  del_raw(x);
  del_root(T);
  if (n == MAXI) { vh_count("runtime_types_with_the_maximum_number_of_instances"); }
}

/* ---------- an in-place resize to a smaller, non-zero length ----------
** The elements that stay are the ones that were there (never released, still of their type, still holding what they
** held); the ones that go are released once (ASan sees a release of a survivor's buffer, or a second release). */
static void shrink_keeps_survivors(vh_rng* r) {
  int n = 2 + (int)vh_below(r, 12), keep = 1 + (int)vh_below(r, (uint64_t)n - 1);
  for (int list = 0; list < 2; list++) {
    var c = list ? (var)new(List, String) : (var)new(Array, String);
    char b[32];
    for (int i = 0; i < n; i++) { snprintf(b, sizeof b, "element-%d-of-%d", i, n); push(c, $S(b)); }
    var exc = NULL;
    VH_CATCH(resize(c, (size_t)keep), exc);
    vh_evals(3);
    if (exc) { vh_violation(K("shrinking-resize-raised", "resize"), "resize(%s of %d Strings, %d) raised %s", list ? "List" : "Array", n, keep, vh_exc_name(exc)); del(c); continue; }
    int ok = len(c) == (size_t)keep;
    for (int i = 0; ok && i < keep; i++) {
      var x = get(c, $I(i));
      snprintf(b, sizeof b, "element-%d-of-%d", i, n);
      observe(x, String, AllocData, "element that survived a shrinking resize");
      if (strcmp(c_str(x), b) != 0) { ok = 0; }
    }
    if (!ok) { vh_violation(K("embedded-object-released-by-an-in-place-resize", "resize"), "after resize(%s of %d Strings, %d) the first %d elements are not the ones that were there", list ? "List" : "Array", n, keep, keep); }
    push(c, $S("pushed after the resize"));
    del(c);
    vh_count("shrinking_resizes_of_string_sequences");
  }
}

static void case_random(vh_rng* r, long index) {
  size_t n = 1 + vh_below(r, 90);
  vh_op("enumeration at container size %zu", n);
  enumerate_all(r, n);
  sized_maps(r, 1 + vh_below(r, 60)); sized_maps(r, 1 + vh_below(r, 200));
  sized_sequences(r, 1 + vh_below(r, 60));
  iterator_results_after_edits(r, n);
  empty_sources(r); empty_sources(r);
  stack_object_frame((int)(index % 3));
  mutual_owners_released_once(r);
  redefined_type(r);
  largest_type(r);
  shrink_keeps_survivors(r); shrink_keeps_survivors(r);
  if (index % 4 == 0) { run_fresh_thread(); }
  vh_nontrivial();
}

int main(int argc, char** argv) {
  Rec = new_root(Type, $S("Rec"), $I(sizeof(struct Rec)));
  for (int i = 0; i < NSZT; i++) { char nm[16]; snprintf(nm, sizeof nm, "Sized%zu", SZT_SIZE[i]); SZT[i] = new_root(Type, $S(strdup(nm)), $I((int64_t)SZT_SIZE[i])); }
  mo_prop = "C19";
  return vh_run(argc, argv, "enumeration", fixed, case_random);
}
