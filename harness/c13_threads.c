/*
** C13 -- threads are isolated from each other; join publishes; Mutex excludes.
**
** Same executions, several oracles:
**  1. ThreadSanitizer (tsan build): any unsynchronised access to a collector, exception record, TLS
**     table, to the data a joined thread published, or to the counter guarded by the Mutex is reported.
**  2. Each thread's workload folds everything it observes (container contents, caught exception kinds,
**     formatted exception messages, thread-local values) into a digest that must equal the digest of the
**     same workload run alone.
**  3. Probe objects record their creating thread; a destructor running on another thread is a violation.
**  4. Mutex: non-atomic counter + in-section flag inside lock/unlock, trylock loops and with-blocks.
**  5. join: the joiner reads a plain array the worker filled after a random delay.
** Worker threads never call the vh_* counters; they fill per-thread result records.
** Unity-includes Exception.c to read the per-thread exception record (message text).
*/
#include "gcprobes.h"
#include "Exception.c"

enum { MAXT = 16, ORDERCAP = 1 << 15 };

struct tres {
  uint64_t digest;
  long overlaps;          /* in-section flag seen set on entry */
  long sections;
  long foreign_depth;     /* exception depth not restored */
  long tls_wrong;
  long trylock_fail;
  long gate_wrong;        /* with blocks on the thread's own Gate did not start and stop it exactly once each */
  int published[64];
  var root_result;        /* a root object the worker built as its result and hands to the joiner */
  int64_t root_id;
};

static struct tres RES[MAXT], SOLO[MAXT];
static uint64_t SEEDS[MAXT];
static int wl_ops;

static uint64_t fold(uint64_t d, uint64_t v) { d ^= v; d *= 0x100000001B3ULL; d ^= d >> 29; return d; }
static uint64_t fold_str(uint64_t d, const char* s) { for (; *s; s++) { d = fold(d, (unsigned char)*s); } return d; }

static volatile int64_t probe_id_counter = 1;
static int64_t next_probe_id(void) { return __sync_fetch_and_add(&probe_id_counter, 1); }

static void jitter(vh_rng* r) {
  switch (vh_below(r, 12)) { case 0: sched_yield(); break; case 1: usleep((useconds_t)vh_below(r, 150)); break; default: break; }
}

/* ---------- the per-thread workload: deterministic given (seed, index), independent of addresses ---------- */

static uint64_t workload(int idx, uint64_t seed, struct tres* out) {
  vh_rng r; vh_rng_seed(&r, seed);
  volatile uint64_t d = 0xCBF29CE484222325ULL;     /* read after longjmp */
  int64_t nid = 0;
  var tbl = new(Table, Int, Int);
  var arr = new(Array, Int);
  var str = new(String);
  var lst = new(List, String);
  var tre = new(Tree, Int, Int);
  var me = current(Thread);
  size_t depth0 = len(current(Exception));
  for (int op = 0; op < wl_ops; op++) {
    int roll = (int)vh_below(&r, 100);
    jitter(&r);
    if (roll < 25) {
      /* container work */
      int64_t k = vh_range(&r, 0, 60), v = vh_range(&r, 0, 1000);
      set(tbl, $I(k), $I(v));
      push(arr, $I(v));
      /* insertions and removals in the middle, an ordered map, a copy: every internal move, rotation and temporary
         of the containers is this thread's own */
      if (vh_chance(&r, 60)) {
        int64_t at = (int64_t)vh_below(&r, (uint64_t)len(arr));
        push_at(arr, $I(v + 1), $I(at));
        d = fold(d, (uint64_t)c_int(get(arr, $I(at)))); d = fold(d, (uint64_t)c_int(get(arr, $I(-1))));
      }
      if (len(arr) > 4 && vh_chance(&r, 30)) { pop_at(arr, $I(1)); d = fold(d, (uint64_t)c_int(get(arr, $I(1)))); }
      set(tre, $I(k), $I(v));
      if (vh_chance(&r, 30) && mem(tre, $I(k / 3))) { rem(tre, $I(k / 3)); }
      d = fold(d, len(tre)); if (len(tre) > 0) { d = fold(d, (uint64_t)c_int(iter_init(tre))); }
      if (vh_chance(&r, 10)) { var cp = copy(arr); d = fold(d, hash(cp)); d = fold(d, (uint64_t)eq(cp, arr)); cp = NULL; }
      if (len(arr) > 40) { sort(arr); while (len(arr) > 20) { pop(arr); } }
      if (vh_chance(&r, 30) && mem(tbl, $I(k / 2))) { rem(tbl, $I(k / 2)); }
      d = fold(d, len(tbl)); d = fold(d, mem(tbl, $I(k)) ? (uint64_t)c_int(get(tbl, $I(k))) : 7777);
      d = fold(d, (uint64_t)c_int(get(arr, $I(0)))); d = fold(d, hash(arr));
    } else if (roll < 45) {
      /* allocation-heavy: garbage that makes this thread's collector run */
      int n = 20 + (int)vh_below(&r, 60);
      for (int i = 0; i < n; i++) { var g = new(PNode, $I(next_probe_id())); g = NULL; nid++; }
      var keep = new(PNode, $I(next_probe_id())); nid++;
      ((struct PNode*)keep)->f[0] = arr;
      d = fold(d, (uint64_t)nid);
      d = fold(d, len(arr));
    } else if (roll < 70) {
      /* exception-heavy: nested try / catch, messages formatted with thread-specific values */
      int kind = (int)vh_below(&r, 4);
      int64_t tag = vh_range(&r, 0, 99999);
      try {
        try {
          if (kind == 0) { throw(KeyError, "t%i-key-%i", $I(idx), $I(tag)); }
          if (kind == 1) { (void)get(tbl, $I(100000 + tag)); }          /* KeyError from the library */
          if (kind == 2) { throw(ValueError, "t%i-val-%s", $I(idx), $S("x")); }
          if (kind == 3) { (void)get(arr, $I(1000000)); }               /* IndexOutOfBoundsError */
          d = fold(d, 1);
        } catch (e in ValueError) {
          struct Exception* rec = current(Exception);
          d = fold(d, 20); d = fold_str(d, c_str(rec->msg));
        }
        d = fold(d, 2);
      } catch (e in KeyError, IndexOutOfBoundsError) {
        struct Exception* rec = current(Exception);
        d = fold(d, e == KeyError ? 30 : 31);
        if (kind == 0) { d = fold_str(d, c_str(rec->msg)); }
      }
      if (len(current(Exception)) != depth0) { out->foreign_depth++; }
    } else if (roll < 85) {
      /* thread-local storage: what this thread stored is what it gets back */
      char key[16]; snprintf(key, sizeof key, "slot%d", (int)vh_below(&r, 3));
      var obj = new(Int, $I(idx * 1000 + (int64_t)vh_below(&r, 1000)));
      set(me, $S(key), obj);
      jitter(&r);
      var back = get(me, $S(key));
      if (back != obj) { out->tls_wrong++; }
      d = fold(d, (uint64_t)c_int(back));
      if (vh_chance(&r, 30)) { rem(me, $S(key)); d = fold(d, (uint64_t)mem(me, $S(key))); }
    } else {
      /* strings and lists */
      char b[24]; snprintf(b, sizeof b, "w%d-%d;", idx, op);
      append(str, $S(b));
      if (len(lst) > 2 && vh_chance(&r, 50)) { push_at(lst, $S(b), $I(1)); d = fold_str(d, c_str(get(lst, $I(1)))); push(lst, $S(b)); } else { push(lst, $S(b)); }
      if (len(str) > 400) { resize(str, 10); }
      if (len(lst) > 30) { pop_at(lst, $I(0)); }
      d = fold(d, len(str)); d = fold(d, hash(str)); d = fold_str(d, c_str(get(lst, $I(-1))));
    }
  }
  /* leave thread-local entries clean for the next run on this thread object */
  for (int s = 0; s < 3; s++) { char key[16]; snprintf(key, sizeof key, "slot%d", s); if (mem(me, $S(key))) { rem(me, $S(key)); } }
  d = fold(d, len(tbl)); d = fold(d, hash(tbl)); d = fold(d, hash(lst)); d = fold(d, hash(tre)); d = fold(d, hash(arr));
  return d;
}

/* ---------- mutex sections ---------- */

/* back to the state a type object has when the process starts: nothing memoised, no class resolved.  Done only
   while no other thread runs.  The threads of the next phase then perform the FIRST lookups of Lock / Start on Mutex
   at the same moment, as the first threads of a fresh program would. */
static void cold_type(var type) {
  for (int i = 0; i < CELLO_CACHE_NUM; i++) { ((var*)type)[i] = NULL; }
  struct Type* t = (struct Type*)type + CELLO_CACHE_NUM / 3 + 2;
  for (; t->name != NULL; t++) { t->cls = NULL; }
}

static var the_mutex;
static volatile long guarded_counter;       /* deliberately not atomic */
static volatile int in_section;
static int order_log[ORDERCAP];
static int sections_per_thread;

static void one_section(int idx, struct tres* out, vh_rng* r) {
  if (in_section) { out->overlaps++; }
  in_section = 1;
  long c = guarded_counter;
  if (vh_chance(r, 10)) { sched_yield(); }
  if (c < ORDERCAP) { order_log[c] = idx; }
  guarded_counter = c + 1;
  in_section = 0;
  out->sections++;
}

/* a second type with a Start instance: every thread has a Gate of its own and walks through it (a with block) between
   its Mutex sections, so that with blocks on two different types are entered and left by different threads at the same
   time; each Gate counts its own starts and stops, which only its thread causes */
struct Gate { long starts, stops; int owner; };
static void Gate_Start(var self) { struct Gate* g = self; g->starts++; }
static void Gate_Stop(var self) { struct Gate* g = self; g->stops++; }
static var Gate = Cello(Gate, Instance(Start, Gate_Start, Gate_Stop, NULL, NULL));
static var GATES[16];

static void mutex_work(int idx, uint64_t seed, struct tres* out) {
  vh_rng r; vh_rng_seed(&r, seed ^ 0xABCDEF);
  struct Gate* gate = GATES[idx];
  long g0 = gate->starts, walked = 0;
  for (int s = 0; s < sections_per_thread; s++) {
    if (vh_chance(&r, 50)) { with (g in gate) { walked++; } }
    switch (vh_below(&r, 3)) {
      case 0: lock(the_mutex); one_section(idx, out, &r); unlock(the_mutex); break;
      case 1: {
        long spins = 0;
        while (!trylock(the_mutex)) { spins++; if (spins % 64 == 0) { sched_yield(); } }
        if (spins) { out->trylock_fail++; }
        one_section(idx, out, &r); unlock(the_mutex); break;
      }
      default: with (m in the_mutex) { one_section(idx, out, &r); } break;
    }
    jitter(&r);
  }
  if (gate->starts - g0 != walked || gate->starts != gate->stops) { out->gate_wrong++; }
}

/* ---------- thread bodies ---------- */

static pthread_barrier_t start_bar;
static int phase;       /* 0: workload, 1: mutex, 2: publish */

static var TH[MAXT], IX[MAXT];
static var HEAPARGS[MAXT];            /* argument collections that live on the caller's heap (call_with hands them over as they are) */
static var TH_at(int i) { return TH[i]; }
static volatile int run_done[MAXT];      /* set by the worker as its last action (atomic: it is what join is checked against) */

/* join must not return before the thread function has finished */
static void join_checked(int i) {
  join(TH_at(i));
  if (!__atomic_load_n(&run_done[i], __ATOMIC_ACQUIRE)) {
    vh_violation("C13:join:returned-before-the-thread-function-finished", "join of thread %d returned while its function was still running (phase %d)", i, phase);
    for (int spin = 0; spin < 100000 && !__atomic_load_n(&run_done[i], __ATOMIC_ACQUIRE); spin++) { usleep(100); }
  }
}

static var thread_main(var args) {
  int idx = (int)c_int(get(args, $I(0)));
  mo_thread_index = idx + 1;
  struct tres* out = &RES[idx];
  if (phase != 9) { pthread_barrier_wait(&start_bar); }
  if (phase == 0 || phase == 9) { out->digest = workload(idx, SEEDS[idx], out); }
  else if (phase == 1) { mutex_work(idx, SEEDS[idx], out); }
  else if (phase == 3) {
    /* first use of the Mutex classes by every thread at the same instant (the type records were reset just before) */
    vh_rng r; vh_rng_seed(&r, SEEDS[idx] ^ 0x33);
    if (idx % 2) { with (m in the_mutex) { one_section(idx, out, &r); } lock(the_mutex); one_section(idx, out, &r); unlock(the_mutex); }
    else { lock(the_mutex); one_section(idx, out, &r); unlock(the_mutex); with (m in the_mutex) { one_section(idx, out, &r); } }
  }
  else {
    vh_rng r; vh_rng_seed(&r, SEEDS[idx]);
    usleep((useconds_t)vh_below(&r, 2000));
    for (int i = 0; i < 64; i++) { out->published[i] = idx * 1000 + i; }
    /* a result built as a root object: it is the worker's until somebody deletes it, the end of the thread does not */
    if (type_of(args) == Array) { for (int k = 1; k < (int)len(args); k++) { set(args, $I(k), $I(-1)); } }     /* its own copy: the caller never sees this */
    out->root_id = next_probe_id();
    out->root_result = new_root(PNode, $I(out->root_id));
    for (int i = 0; i < 300; i++) { var g = new(PNode, $I(next_probe_id())); g = NULL; }
  }
  __atomic_store_n(&run_done[idx], 1, __ATOMIC_RELEASE);
  return NULL;
}

/* Thread objects are created once per trial and RE-USED for every phase (call, join, call again, ...):
   join must wait for the function of the CURRENT run each time */

static void run_threads(int n, int ph) {
  phase = ph;
  if (ph != 9) { pthread_barrier_init(&start_bar, NULL, (unsigned)n); }
  for (int i = 0; i < n; i++) { run_done[i] = 0; }
  for (int i = 0; i < n; i++) {
    /* the publish phase starts every other thread with a collection the caller keeps on its own heap: the thread
       works on its own copy of it, the caller's stays alive, unchanged and the caller's to delete */
    if (ph == 2 && i % 2 == 0 && HEAPARGS[i] != NULL) { call_with(TH[i], HEAPARGS[i]); }
    else { call(TH[i], IX[i]); }
  }
  if (ph == 2) {
    /* join publishes: read what each worker wrote, immediately after join, in reverse order */
    for (int i = n - 1; i >= 0; i--) {
      join_checked(i);
      for (int k = 0; k < 64; k++) {
        if (RES[i].published[k] != i * 1000 + k) { vh_violation("C13:join:effects-of-the-thread-not-visible-after-join", "thread %d slot %d reads %d right after join", i, k, RES[i].published[k]); break; }
      }
      /* the root object the worker built is alive and intact for the joiner, who releases it */
      vh_evals(2);
      int64_t rid = RES[i].root_id; var rp = RES[i].root_result;
      if (rp == NULL || rid <= 0 || rid >= MO_MAX) { vh_violation("C13:join:effects-of-the-thread-not-visible-after-join", "thread %d: no root result after join", i); }
      else if (mo_state[rid] != MO_CONSTRUCTED) { vh_violation("C13:join:root-object-of-the-thread-finalised-when-it-ended", "the root object thread %d built as its result is in ledger state %d right after join (2 = alive)", i, mo_state[rid]); }
      else {
        if (((struct PNode*)rp)->id != rid) { vh_violation("C13:join:root-object-of-the-thread-finalised-when-it-ended", "the root object thread %d built reads id %" PRId64 " instead of %" PRId64, i, ((struct PNode*)rp)->id, rid); }
        int me_idx = mo_thread_index; mo_thread_index = i + 1;      /* an explicit deletion on the worker's behalf, not a collection */
        del_root(rp);
        mo_thread_index = me_idx;
        if (mo_state[rid] != MO_DESTRUCTED) { vh_violation("C13:join:root-object-of-the-thread-finalised-when-it-ended", "del_root of the root result of thread %d left it in ledger state %d", i, mo_state[rid]); }
      }
      vh_count("root_results_received_after_join");
      if (i % 2 == 0 && HEAPARGS[i] != NULL) {
        var ha = HEAPARGS[i];
        vh_evals(2);
        int ok = type_of(ha) == Array && len(ha) == 4 && (i % 4 != 0 || mem(current(GC), ha));
        for (int k = 0; ok && k < 4; k++) { if (c_int(get(ha, $I(k))) != (k == 0 ? i : 7000 + i * 10 + k)) { ok = 0; } }
        if (!ok) { vh_violation("C13:isolation:argument-collection-of-the-caller-finalised-or-changed-by-the-thread", "the heap Array thread %d was started with (call_with) is no longer the caller's intact object after join", i); HEAPARGS[i] = NULL; }
        vh_count("threads_started_with_a_heap_argument_collection");
      }
    }
  } else {
    for (int i = 0; i < n; i++) { join_checked(i); }
  }
  if (ph != 9) { pthread_barrier_destroy(&start_bar); }
}


/* ---------- a thread started from a COPY of a running thread's Thread object ----------
** copy / assign of a Thread takes over the function and a copy of the source's thread-local table -- the entries the
** runtime itself keeps there included.  Started, the clone must still get a collector, an exception context and a
** storage of its own: what it allocates is its own, and the original's collections never touch it. */
static volatile int clone_stage;          /* 0 idle, 1 original is up, 2 clone holds its objects, 3 original has collected, 4 clone has verified */
static volatile int64_t clone_lost;
static var volatile clone_gc[2];
static var clone_main(var args) {
  int role = (int)c_int(get(args, $I(0)));
  mo_thread_index = 20 + role;
  clone_gc[role] = current(GC);
  if (role == 0) {
    __atomic_store_n(&clone_stage, 1, __ATOMIC_RELEASE);
    while (__atomic_load_n(&clone_stage, __ATOMIC_ACQUIRE) < 2) { usleep(200); }
    for (int i = 0; i < 6000; i++) { var g = new(PNode, $I(next_probe_id())); g = NULL; }      /* several collections of this thread */
    __atomic_store_n(&clone_stage, 3, __ATOMIC_RELEASE);
    while (__atomic_load_n(&clone_stage, __ATOMIC_ACQUIRE) < 4) { usleep(200); }
  } else {
    volatile var held[120]; int64_t ids[120];
    for (int i = 0; i < 120; i++) { ids[i] = next_probe_id(); held[i] = new(PNode, $I(ids[i])); }
    __atomic_store_n(&clone_stage, 2, __ATOMIC_RELEASE);
    while (__atomic_load_n(&clone_stage, __ATOMIC_ACQUIRE) < 3) { usleep(200); }
    int64_t lost = 0;
    for (int i = 0; i < 120; i++) { if (mo_state[ids[i]] != MO_CONSTRUCTED || ((struct PNode*)held[i])->id != ids[i]) { lost++; } }
    clone_lost = lost;
    for (int i = 0; i < 120; i++) { held[i] = NULL; }
    __atomic_store_n(&clone_stage, 4, __ATOMIC_RELEASE);
  }
  return NULL;
}

static void cloned_thread_trial(void) {
  var fn = $(Function, clone_main);
  var role0 = new_raw(Int, $I(0)), role1 = new_raw(Int, $I(1));
  var a = new_raw(Thread, fn);
  clone_stage = 0; clone_lost = -1; clone_gc[0] = clone_gc[1] = NULL;
  call(a, role0);
  while (__atomic_load_n(&clone_stage, __ATOMIC_ACQUIRE) < 1) { usleep(200); }
  /* the original now sleeps between polls of a flag and touches nothing of its own: copy its Thread object */
  var b = copy(a);
  call(b, role1);
  join(b); join(a);
  vh_evals(3);
  if (clone_gc[0] == NULL || clone_gc[0] == clone_gc[1]) { vh_violation("C13:isolation:cloned-thread-shares-the-collector-of-the-original", "current(GC) is %p in the original and %p in the thread started from a copy of its Thread object", clone_gc[0], clone_gc[1]); }
  if (clone_lost != 0) { vh_violation("C13:isolation:objects-of-a-cloned-thread-finalised-by-the-original", "%" PRId64 " of the 120 objects the cloned thread was holding were finalised or damaged while only the original was allocating", (int64_t)clone_lost); }
  del(b); del_raw(a); del_raw(role0); del_raw(role1);
  vh_count("cloned_thread_trials");
}

/* ---------- values one thread puts into the storage of a Thread object it is about to start ----------
** set(thread, key, value) before call(thread, ...) is how a thread is given its initial thread-local values.  Until
** the thread runs they belong to the giver, whose collections must keep them alive through the Thread object (held on
** the giver's stack or registered as a root); the started thread then finds them under the key.  The giver allocates
** nothing while the threads run (its collector would walk a storage table that is in use). */
static volatile int64_t gift_id[4], gift_seen[4];
static var gift_main(var args) {
  int k = (int)c_int(get(args, $I(0)));
  mo_thread_index = 30 + k;
  var exc = NULL; var g = NULL;
  try { g = get(current(Thread), $S("gift")); } catch (e) { exc = e; }
  if (exc != NULL || g == NULL) { gift_seen[k] = -2; }
  else if (mo_state[gift_id[k]] != MO_CONSTRUCTED) { gift_seen[k] = -1; }
  else { gift_seen[k] = ((struct PNode*)g)->id; }
  for (int i = 0; i < 500; i++) { var x = new(PNode, $I(next_probe_id())); x = NULL; }       /* its own collections */
  if (gift_seen[k] > 0 && (mo_state[gift_id[k]] != MO_CONSTRUCTED || ((struct PNode*)g)->id != gift_id[k])) { gift_seen[k] = -3; }
  return NULL;
}
static void __attribute__((noinline)) give(var t, int k) {
  gift_id[k] = next_probe_id();
  set(t, $S("gift"), new(PNode, $I(gift_id[k])));
}
static void __attribute__((noinline)) churn(int n) { for (int i = 0; i < n; i++) { var g = new(PNode, $I(next_probe_id())); g = NULL; } }
static void gift_trial(void) {
  var fn = $(Function, gift_main);
  volatile var t[4]; var ix[4];
  for (int k = 0; k < 4; k++) { t[k] = (k % 2) ? (var)new_root(Thread, fn) : (var)new(Thread, fn); ix[k] = new_raw(Int, $I(k)); gift_seen[k] = 0; }
  for (int k = 0; k < 4; k++) { give(t[k], k); }
  churn(4000);
  vh_evals(4);
  for (int k = 0; k < 4; k++) {
    if (mo_state[gift_id[k]] != MO_CONSTRUCTED) {
      vh_violation("C13:isolation:value-given-to-a-thread-finalised-before-it-started", "the value stored in the storage of Thread object %d (%s) is in ledger state %d after collections of the giving thread", k, (k % 2) ? "a root" : "held on the stack", mo_state[gift_id[k]]);
      for (int j = 0; j < 4; j++) { if (t[j] && (j % 2)) { del_root(t[j]); } del_raw(ix[j]); }
      return;
    }
  }
  for (int k = 0; k < 4; k++) { call(t[k], ix[k]); }
  for (int k = 0; k < 4; k++) { join(t[k]); }
  for (int k = 0; k < 4; k++) {
    vh_eval();
    if (gift_seen[k] != gift_id[k]) { vh_violation("C13:isolation:thread-does-not-find-the-value-it-was-given", "thread %d looked its initial thread-local value up and got %" PRId64 " (its id is %" PRId64 "; -1 finalised, -2 missing, -3 lost while it ran)", k, (int64_t)gift_seen[k], (int64_t)gift_id[k]); }
  }
  for (int k = 0; k < 4; k++) { rem(t[k], $S("gift")); if (k % 2) { del_root(t[k]); } t[k] = NULL; del_raw(ix[k]); }
  vh_count_n("threads_given_an_initial_thread_local_value", 4);
}

static void one_trial(vh_rng* r, int nthreads) {
  wl_ops = 60 + (int)vh_below(r, vh.thorough ? 200 : 100);
  sections_per_thread = 50 + (int)vh_below(r, 150);
  for (int i = 0; i < nthreads; i++) { SEEDS[i] = vh_next(r); }
  var fn = $(Function, thread_main);           /* outlives every thread: all are joined before this function returns */
  for (int i = 0; i < nthreads; i++) { IX[i] = new_raw(Int, $I(i)); TH[i] = new_raw(Thread, fn); }
  for (int i = 0; i < nthreads; i++) { HEAPARGS[i] = (i % 4 == 0) ? (var)new_root(Array, Int, $I(i), $I(7000 + i * 10 + 1), $I(7000 + i * 10 + 2), $I(7000 + i * 10 + 3))
                                                   : (var)new_raw(Array, Int, $I(i), $I(7000 + i * 10 + 1), $I(7000 + i * 10 + 2), $I(7000 + i * 10 + 3)); }
  /* solo reference runs: one Cello thread at a time */
  memset(SOLO, 0, sizeof SOLO);
  for (int i = 0; i < nthreads; i++) {
    memset(&RES[i], 0, sizeof RES[i]);
    phase = 9;
    run_done[i] = 0;
    call(TH[i], IX[i]); join_checked(i);
    vh_eval();
    if (RES[i].digest == 0) { vh_violation("C13:join:returned-before-the-thread-function-finished", "solo run of thread %d: no result after join", i); }
    SOLO[i] = RES[i];
  }
  /* concurrent run of the same workloads */
  memset(RES, 0, sizeof RES);
  run_threads(nthreads, 0);
  long bad = 0;
  for (int i = 0; i < nthreads; i++) {
    vh_evals(4);
    if (RES[i].digest != SOLO[i].digest) {
      bad++;
      vh_violation("C13:isolation:thread-computes-different-results-than-alone", "thread %d of %d: digest %016" PRIx64 " with the others running, %016" PRIx64 " alone", i, nthreads, RES[i].digest, SOLO[i].digest);
    }
    if (RES[i].foreign_depth || SOLO[i].foreign_depth) { vh_violation("C13:isolation:exception-depth-not-restored", "thread %d: nesting depth differed after a try/catch", i); }
    if (RES[i].tls_wrong || SOLO[i].tls_wrong) { vh_violation("C13:isolation:thread-local-value-replaced", "thread %d read back a thread-local value it did not store", i); }
  }
  if (mo_foreign_finalisations) { mo_foreign_finalisations = 0; }
  vh_count_n("concurrent_workload_threads", (uint64_t)nthreads);
  vh_count_n("digests_compared_with_solo_run", (uint64_t)nthreads);
  /* mutex */
  memset(RES, 0, sizeof RES);
  guarded_counter = 0; in_section = 0;
  the_mutex = new_raw(Mutex);
  cold_type(Mutex); cold_type(Function); cold_type(Thread);
  vh_count("mutex_phases_started_with_cold_lookups");
  run_threads(nthreads, 1);
  /* and twenty short rounds in which the very first thing every thread does is a cold lookup */
  for (int rep = 0; rep < 20; rep++) {
    cold_type(Mutex); cold_type(Function); cold_type(Thread);
    run_threads(nthreads, 3);
    vh_count("cold_first_lookup_rounds");
  }
  long total = 0, overlaps = 0, contended = 0;
  for (int i = 0; i < nthreads; i++) { total += RES[i].sections; overlaps += RES[i].overlaps; contended += RES[i].trylock_fail; }
  vh_evals(2);
  for (int i = 0; i < nthreads; i++) { if (RES[i].gate_wrong) { vh_violation("C13:mutex:with-block-on-another-type-diverted", "thread %d: the with blocks on its own Gate did not start and stop it once each while other threads were in with blocks on the Mutex", i); break; } }
  vh_count_n("threads_alternating_with_blocks_on_two_types", (uint64_t)nthreads);
  if (overlaps) { vh_violation("C13:mutex:critical-sections-overlapped", "%ld of %ld sections found the in-section flag already set (%d threads)", overlaps, total, nthreads); }
  if (guarded_counter != total) { vh_violation("C13:mutex:lost-update-on-the-guarded-counter", "counter %ld after %ld sections (%d threads)", guarded_counter, total, nthreads); }
  long handovers = 0; uint64_t oh = 0xCBF29CE484222325ULL;
  long lim = guarded_counter < ORDERCAP ? guarded_counter : ORDERCAP;
  for (long i = 0; i < lim; i++) { oh = fold(oh, (uint64_t)order_log[i]); if (i && order_log[i] != order_log[i - 1]) { handovers++; } }
  vh_count_n("mutex_sections", (uint64_t)total);
  vh_count_n("mutex_handovers_between_threads", (uint64_t)handovers);
  vh_count_n("trylock_sections_that_had_to_wait", (uint64_t)contended);
  del_raw(the_mutex);
  cloned_thread_trial();
  gift_trial();
  /* join publishes */
  memset(RES, 0, sizeof RES);
  run_threads(nthreads, 2);
  vh_count_n("join_publish_threads", (uint64_t)nthreads);
  vh_count_n("thread_objects_reused_for_4_runs", (uint64_t)nthreads);
  for (int i = 0; i < nthreads; i++) { del_raw(TH[i]); del_raw(IX[i]); }
  for (int i = 0; i < nthreads; i++) { if (HEAPARGS[i]) { if (i % 4 == 0) { del_root(HEAPARGS[i]); } else { del_raw(HEAPARGS[i]); } HEAPARGS[i] = NULL; } }
  /* the observed interleaving is part of the case's identity */
  vh_op("threads=%d ops=%d sections=%d acquisition-order=%016" PRIx64 " handovers=%ld", nthreads, wl_ops, sections_per_thread, oh, handovers);
  if (handovers > 0 && bad == 0) { vh_nontrivial(); }
}

static void case_random(vh_rng* r, long index) {
  static const int NT[] = { 2, 3, 4, 8, 12, 16 };
  one_trial(r, NT[(index + (long)vh_below(r, 6)) % 6]);
}

static void fixed(void) {
  vh_rng r; vh_rng_seed(&r, 1313);
  one_trial(&r, 16);
  vh.oplen = 0; vh.oplog[0] = 0; vh.nops = 0;
  one_trial(&r, 2);
}

int main(int argc, char** argv) {
  mo_prop = "C13";
  for (int i = 0; i < 16; i++) { GATES[i] = new_raw(Gate); }
  return vh_run(argc, argv, "trial", fixed, case_random);
}
