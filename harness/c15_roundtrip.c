/*
** C15 -- show/look and print/scan round-trip values.
** Oracle: value read back equals value written (Float: within the printed precision), and the read
** position returned equals the write position returned; alone and in sequences, String and File.
*/
#include "vh.h"
#include <float.h>
#include <limits.h>

enum { V_INT, V_FLOAT, V_STR };
enum { MAXV = 5 };

struct val { int kind; int64_t i; double f; char s[48]; const char* spec; };

static const char* SEPS = ";|,#:/!@";

static int64_t rand_i64(vh_rng* r) {
  switch (vh_below(r, 7)) {
    case 0: return (int64_t)vh_next(r);
    case 1: return vh_range(r, -10, 10);
    case 2: return INT64_MIN;
    case 3: return INT64_MAX;
    case 4: return vh_range(r, -70000, 70000);
    case 5: return vh_chance(r, 50) ? INT_MIN : INT_MAX;
    default: return ((int64_t)1 << vh_below(r, 63)) * (vh_chance(r, 50) ? 1 : -1);
  }
}
static double rand_dbl(vh_rng* r) {
  for (;;) {
    double d;
    switch (vh_below(r, 8)) {
      case 0: { uint64_t b = vh_next(r); memcpy(&d, &b, 8); break; }
      case 1: d = (double)vh_range(r, -1000, 1000) / 8.0; break;
      case 2: d = DBL_MAX * (vh_chance(r, 50) ? 1 : -1); break;
      case 3: d = 4.9406564584124654e-324 * (double)vh_range(r, 1, 5); break;
      case 4: d = vh_chance(r, 50) ? 0.0 : -0.0; break;
      case 5: d = (double)vh_range(r, -100000000000LL, 100000000000LL) * 1e-6; break;
      case 6: d = 123456.789 * (double)vh_range(r, -9, 9); break;
      default: d = ldexp((double)vh_range(r, 1, 1000000), (int)vh_range(r, -60, 200)); break;
    }
    if (isfinite(d)) { return d; }
  }
}
static void rand_bytes(vh_rng* r, char* b, size_t maxlen) {
  size_t n = vh_below(r, maxlen + 1);
  static const char special[] = "\"\\\a\b\f\n\r\t\v'?% ";
  for (size_t i = 0; i < n; i++) {
    switch (vh_below(r, 4)) {
      case 0: b[i] = special[vh_below(r, sizeof special - 1)]; break;
      case 1: b[i] = (char)(1 + vh_below(r, 255)); break;
      default: b[i] = (char)('a' + vh_below(r, 26)); break;
    }
  }
  b[n] = 0;
}

static void esc(const char* s, char* out, size_t cap) {
  size_t o = 0;
  for (; *s && o + 6 < cap; s++) {
    unsigned char c = (unsigned char)*s;
    if (c >= 32 && c < 127 && c != '\\') { out[o++] = (char)c; } else { o += (size_t)snprintf(out + o, cap - o, "\\x%02x", c); }
  }
  out[o] = 0;
}

/* numeric specifications that are the same for printing and scanning */
static const char* INT_SPECS_FULL[] = { "%li", "%ld", "%lli", "%lld", "%ji", "%td", "%zd" };
static const char* INT_SPECS_INT[] = { "%i", "%d" };
static const char* INT_SPECS_NONNEG[] = { "%lx", "%lX", "%lo", "%lu", "%x", "%o", "%u" };
static const char* FLT_SPECS[] = { "%lf", "%le", "%lg", "%lG", "%lF", "%lE", "%la" };   /* scanf accepts no precision */

static void gen_val(vh_rng* r, struct val* v, int allow_str) {
  memset(v, 0, sizeof *v);
  v->kind = (int)vh_below(r, allow_str ? 3 : 2);
  v->spec = "%$";
  if (v->kind == V_INT) {
    v->i = rand_i64(r);
    switch (vh_below(r, 5)) {
      case 0: v->spec = INT_SPECS_FULL[vh_below(r, 7)]; vh_count("int_numeric_spec_full_range"); break;
      case 1: v->spec = INT_SPECS_INT[vh_below(r, 2)]; v->i = (int32_t)v->i; vh_count("int_numeric_spec_int_range");
              if (v->i < 0) { vh_count("int_numeric_spec_int_range_negative"); } break;
      case 2: { int k = (int)vh_below(r, 7); v->spec = INT_SPECS_NONNEG[k];
                v->i = k < 4 ? (int64_t)((uint64_t)v->i >> 1) : (int64_t)((uint32_t)v->i >> 1); vh_count("int_numeric_spec_unsigned_conv"); break; }
      case 3: {
        /* the short and char length modifiers: the value is stored through a short or a char and comes back whole,
           negative ones included (signed conversions) and the top half of the range included (unsigned ones) */
        static const char* H_SIGNED[] = { "%hd", "%hi", "%hhd", "%hhi" };
        static const char* H_UNSIGNED[] = { "%hu", "%hx", "%hX", "%ho", "%hhu", "%hhx", "%hhX", "%hho" };
        if (vh_chance(r, 50)) {
          int k = (int)vh_below(r, 4); v->spec = H_SIGNED[k];
          v->i = k < 2 ? (int64_t)(int16_t)v->i : (int64_t)(int8_t)v->i;
          if (vh_chance(r, 30)) { v->i = k < 2 ? (vh_chance(r, 50) ? INT16_MIN : INT16_MAX) : (vh_chance(r, 50) ? INT8_MIN : INT8_MAX); }
          if (v->i < 0) { vh_count(k < 2 ? "int_numeric_spec_short_negative" : "int_numeric_spec_char_negative"); }
        } else {
          int k = (int)vh_below(r, 8); v->spec = H_UNSIGNED[k];
          v->i = k < 4 ? (int64_t)(uint16_t)v->i : (int64_t)(uint8_t)v->i;
          if (v->i >= (k < 4 ? 32768 : 128)) { vh_count("int_numeric_spec_short_or_char_unsigned_top_half"); }
        }
        break;
      }
      default: break;
    }
  } else if (v->kind == V_FLOAT) {
    v->f = rand_dbl(r);
    if (vh_chance(r, 40)) { v->spec = FLT_SPECS[vh_below(r, 7)]; vh_count("float_numeric_spec"); }
  } else {
    rand_bytes(r, v->s, 30);
  }
}

static var mk_obj(const struct val* v) {
  if (v->kind == V_INT) { return new(Int, $I(v->i)); }
  if (v->kind == V_FLOAT) { return new(Float, $F(v->f)); }
  return new(String, $S((char*)v->s));
}
static var mk_blank(const struct val* v) {
  if (v->kind == V_INT) { return new(Int, $I(-77)); }
  if (v->kind == V_FLOAT) { return new(Float, $F(-77.5)); }
  return new(String, $S("junk"));
}

/* tolerance: what the written text can represent */
static int float_ok(const struct val* v, double back) {
  double tol;
  const char* s = v->spec;
  if (!strcmp(s, "%$") || !strcmp(s, "%lf") || !strcmp(s, "%lF")) { tol = 0.5e-6; }
  else if (!strcmp(s, "%la")) { return back == v->f; }
  else { tol = fabs(v->f) * 0.5e-5; }          /* %le %lE %lg: 6 or 7 significant digits */
  double d = fabs(back - v->f);
  return d <= tol + fabs(v->f) * 2.3e-16;
}

static void check_back(const struct val* v, var got, const char* sink, const char* how) {
  char key[96];
  vh_eval();
  if (v->kind == V_INT) {
    int64_t b = c_int(got);
    if (b != v->i) {
      snprintf(key, sizeof key, "C15:%s:int-value-changed", how);
      vh_violation(key, "%s sink, spec %s: wrote %" PRId64 ", read back %" PRId64, sink, v->spec, v->i, b);
    }
  } else if (v->kind == V_FLOAT) {
    double b = c_float(got);
    if (!float_ok(v, b)) {
      snprintf(key, sizeof key, "C15:%s:float-value-changed", how);
      vh_violation(key, "%s sink, spec %s: wrote %.17g, read back %.17g", sink, v->spec, v->f, b);
    }
  } else {
    if (strcmp(c_str(got), v->s) != 0) {
      char a[200], b[200]; esc(v->s, a, sizeof a); esc(c_str(got), b, sizeof b);
      snprintf(key, sizeof key, "C15:%s:string-value-changed", how);
      vh_violation(key, "%s sink: wrote \"%s\", read back \"%s\"", sink, a, b);
    }
  }
}

static void build_format(vh_rng* r, const struct val* vals, int n, char* fmt, size_t cap) {
  size_t o = 0;
  for (int i = 0; i < n; i++) {
    o += (size_t)snprintf(fmt + o, cap - o, "%s", vals[i].spec);
    if (i + 1 < n || vh_chance(r, 30)) {
      if (vh_chance(r, 20)) {
        /* separators with words and literal percent signs in them (written "%%" in the format) */
        static const char* LSEPS[] = { "%% of ", "%%; note ", "%%d is not a conversion ", " and ", "%%%% twice ", " =%%= " };
        o += (size_t)snprintf(fmt + o, cap - o, "%s", LSEPS[vh_below(r, 6)]);
        vh_count("separators_with_words_or_literal_percent");
      } else {
        int k = 1 + (int)vh_below(r, 2);
        for (int j = 0; j < k; j++) { fmt[o++] = SEPS[vh_below(r, 8)]; }
        fmt[o] = 0;
      }
    }
  }
}

static void one_roundtrip(vh_rng* r, int n, int use_show_look) {
  struct val vals[MAXV];
  var objs[MAXV], back[MAXV];
  char fmt[400];
  for (int i = 0; i < n; i++) {
    gen_val(r, &vals[i], 1);
    if (use_show_look) { vals[i].spec = "%$"; }
    objs[i] = mk_obj(&vals[i]);
    back[i] = mk_blank(&vals[i]);
  }
  var wargs = new(Tuple), rargs = new(Tuple);
  for (int i = 0; i < n; i++) { push(wargs, objs[i]); push(rargs, back[i]); }
  build_format(r, vals, n, fmt, sizeof fmt);
  {
    char d[300]; size_t o = (size_t)snprintf(d, sizeof d, "%s fmt \"%s\":", use_show_look ? "show/look" : "print/scan", fmt);
    for (int i = 0; i < n && o + 60 < sizeof d; i++) {
      if (vals[i].kind == V_INT) { o += (size_t)snprintf(d + o, sizeof d - o, " %" PRId64, vals[i].i); }
      else if (vals[i].kind == V_FLOAT) { o += (size_t)snprintf(d + o, sizeof d - o, " %.17g", vals[i].f); }
      else { char e[80]; esc(vals[i].s, e, sizeof e); o += (size_t)snprintf(d + o, sizeof d - o, " \"%s\"", e); }
    }
    vh_op("%s", d);
  }
  if (n > 1) { vh_nontrivial(); vh_count("sequences_with_separators"); }
  var exc = NULL;

  /* ---- String sink ---- */
  size_t p = vh_chance(r, 40) ? 0 : vh_below(r, 9);
  var txt = new(String);
  for (size_t i = 0; i < p; i++) { append(txt, $S("#")); }
  int wpos = -1, rpos = -1;
  if (use_show_look && n == 1) {
    VH_CATCH(wpos = show_to(objs[0], txt, (int)p), exc);
    if (exc) { vh_violation("C15:write:raised", "show_to raised %s", vh_exc_name(exc)); return; }
    VH_CATCH(rpos = look_from(back[0], txt, (int)p), exc);
  } else {
    VH_CATCH(wpos = print_to_with(txt, (int)p, fmt, wargs), exc);
    if (exc) { vh_violation("C15:write:raised", "print_to raised %s", vh_exc_name(exc)); return; }
    VH_CATCH(rpos = scan_from_with(txt, (int)p, fmt, rargs), exc);
  }
  if (exc) {
    char e[200]; esc(c_str(txt), e, sizeof e);
    vh_violation("C15:read:raised", "reading back \"%s\" from position %zu raised %s", e, p, vh_exc_name(exc));
  } else {
    for (int i = 0; i < n; i++) { check_back(&vals[i], back[i], "String", use_show_look ? "show-look" : "print-scan"); }
    vh_eval();
    if (rpos != wpos) {
      char e[200]; esc(c_str(txt), e, sizeof e);
      vh_violation("C15:position:read-differs-from-write", "String sink \"%s\": wrote up to %d, read up to %d (start %zu)", e, wpos, rpos, p);
    }
  }
  if (p > 0) { vh_count("nonzero_start_positions"); }

  /* ---- File sink: write, close, reopen (or seek back in w+), read ---- */
  for (int i = 0; i < n; i++) { back[i] = mk_blank(&vals[i]); set(rargs, $I(i), back[i]); }
  char path[64]; snprintf(path, sizeof path, "c15-%d.tmp", vh.shard);
  int reopen = vh_chance(r, 50);
  var f = new(File, $S(path), $S(reopen ? "w" : "w+"));
  int fw = -1, fr = -1;
  VH_CATCH(fw = print_to_with(f, 0, fmt, wargs), exc);
  if (exc) { vh_violation("C15:write:raised", "print_to on a File raised %s", vh_exc_name(exc)); sclose(f); return; }
  if (reopen) { sclose(f); sopen(f, $S(path), $S("r")); vh_count("file_reopen"); } else { sseek(f, 0, SEEK_SET); vh_count("file_seek_back"); }
  VH_CATCH(fr = scan_from_with(f, 0, fmt, rargs), exc);
  if (exc) { vh_violation("C15:read:raised", "reading back from a File raised %s (fmt %s)", vh_exc_name(exc), fmt); }
  else {
    for (int i = 0; i < n; i++) { check_back(&vals[i], back[i], "File", use_show_look ? "show-look" : "print-scan"); }
    vh_eval();
    if (fr != fw) { vh_violation("C15:position:read-differs-from-write", "File sink: wrote %d characters, read position %d (fmt %s)", fw, fr, fmt); }
    /* exactly the written characters were consumed: nothing is left in the file */
    vh_eval();
    int64_t at = stell(f);
    if (at != (int64_t)fw) { vh_violation("C15:position:file-offset-after-read", "File sink: %d characters written, file offset after reading %" PRId64, fw, at); }
  }
  sclose(f);
  del(f);
  vh_count("file_sink_runs");
}


/* A sequence written with a separator BETWEEN its items, read back record by record with one scan per item whose
** format ends in the separator: the last record meets the end of the input where the others meet the separator.
** Like C's own fscanf("%li;"), the scan converts the item and does not mind the missing literal. */
static void record_wise(vh_rng* r) {
  int n = 2 + (int)vh_below(r, 5);
  int64_t v[8]; char sep = ";,:|/"[vh_below(r, 5)];
  int is_float = vh_chance(r, 30);
  double fv[8];
  var wargs = new(Tuple);
  char wfmt[80], rfmt[16]; size_t o = 0;
  for (int i = 0; i < n; i++) {
    v[i] = vh_chance(r, 50) ? (int64_t)vh_next(r) : vh_range(r, -1000, 1000);
    fv[i] = (double)vh_range(r, -100000, 100000) / 8.0;
    push(wargs, is_float ? (var)new(Float, $F(fv[i])) : (var)new(Int, $I(v[i])));
    o += (size_t)snprintf(wfmt + o, sizeof wfmt - o, "%s%s", i ? (char[]){ sep, 0 } : "", is_float ? "%f" : "%li");
  }
  snprintf(rfmt, sizeof rfmt, "%s%c", is_float ? "%lf" : "%li", sep);
  vh_op("records \"%s\" read back one by one with \"%s\"", wfmt, rfmt);
  var exc = NULL;
  for (int sink = 0; sink < 2; sink++) {
    var src; char path[64]; snprintf(path, sizeof path, "c15-rec-%d.tmp", vh.shard);
    if (sink == 0) { src = new(String); VH_CATCH(print_to_with(src, 0, wfmt, wargs), exc); }
    else {
      src = new(File, $S(path), $S("w"));
      VH_CATCH(print_to_with(src, 0, wfmt, wargs), exc);
      sclose(src); sopen(src, $S(path), $S("r"));
    }
    if (exc) { vh_violation("C15:write:raised", "print_to raised %s", vh_exc_name(exc)); return; }
    int pos = 0;
    for (int i = 0; i < n; i++) {
      var b = is_float ? (var)new(Float) : (var)new(Int);
      VH_CATCH(pos = scan_from(src, pos, rfmt, b), exc);
      vh_evals(2);
      if (exc) { vh_violation("C15:read:raised", "record %d of %d (%s source, format \"%s\"%s) raised %s", i + 1, n, sink ? "File" : "String", rfmt, i + 1 == n ? ", the separator is absent at the end of the input" : "", vh_exc_name(exc)); break; }
      if (is_float ? (c_float(b) != fv[i]) : (c_int(b) != v[i])) {
        vh_violation(is_float ? "C15:print-scan:float-value-changed" : "C15:print-scan:int-value-changed", "record %d of %d read back wrong from a %s (format \"%s\")", i + 1, n, sink ? "File" : "String", rfmt);
        break;
      }
    }
    if (sink == 1) { sclose(src); remove(path); }
    del(src);
  }
  vh_count("record_wise_sequences");
}

static void case_random(vh_rng* r, long index) {
  int n = (index % 3 == 0) ? 1 : 2 + (int)vh_below(r, MAXV - 1);
  one_roundtrip(r, n, index % 2 == 0);
  if (index % 4 == 1) { record_wise(r); }
}

static void fixed_one(int kind, int64_t i, double f, const char* s) {
  struct val v; memset(&v, 0, sizeof v);
  v.kind = kind; v.i = i; v.f = f; v.spec = "%$";
  if (s) { snprintf(v.s, sizeof v.s, "%s", s); }
  var o = mk_obj(&v), b = mk_blank(&v), txt = new(String), exc = NULL;
  int w = show_to(o, txt, 0), rd = -1;
  VH_CATCH(rd = look_from(b, txt, 0), exc);
  vh.oplen = 0; vh.oplog[0] = 0; vh.nops = 0;
  { char e[120]; esc(c_str(txt), e, sizeof e); vh_op("show/look of %s", e); }
  if (exc) { vh_violation("C15:read:raised", "look_from raised %s", vh_exc_name(exc)); return; }
  check_back(&v, b, "String", "show-look");
  vh_eval();
  if (rd != w) { vh_violation("C15:position:read-differs-from-write", "show wrote %d, look consumed %d", w, rd); }
  vh_count("fixed_roundtrips");
}

static void fixed(void) {
  static const int64_t IB[] = { 0, 1, -1, 7, -5, 2147483647LL, -2147483648LL, 2147483648LL, 4294967295LL, 4294967296LL,
    INT64_MAX, INT64_MIN, INT64_MIN + 1, 1000000007LL, -99999999999LL };
  for (size_t k = 0; k < sizeof IB / sizeof IB[0]; k++) { fixed_one(V_INT, IB[k], 0, NULL); }
  static const double FB[] = { 0.0, -0.0, 1.0, -1.5, 123456.789, 1e15 + 0.3, 3.141592653589793, FLT_MAX * 10.0, -FLT_MAX * 1000.0,
    DBL_MAX, -DBL_MAX, DBL_MIN, 4.9406564584124654e-324, 0.000001, 0.0000004, 16777217.0, 1e22, 9007199254740993.0 };
  for (size_t k = 0; k < sizeof FB / sizeof FB[0]; k++) { fixed_one(V_FLOAT, 0, FB[k], NULL); }
  static const char* SB[] = { "", "a", "a\nb", "tab\there", "quote\"inside", "back\\slash", "\\n", "it's", "what?", "\a\b\f\n\r\t\v",
    "\x80\xff\x01", "ends with backslash\\", "\"", "percent % sign", "  spaces  " };
  for (size_t k = 0; k < sizeof SB / sizeof SB[0]; k++) { fixed_one(V_STR, 0, 0, SB[k]); }
  /* every single byte value */
  for (int c = 1; c < 256; c++) { char b[4] = { 'x', (char)c, 'y', 0 }; fixed_one(V_STR, 0, 0, b); }
  /* print "%i" of a negative number, scan "%i" */
  {
    var s = new(String), x = new(Int, $I(0)), exc;
    vh.oplen = 0; vh.oplog[0] = 0; vh.nops = 0;
    vh_op("print_to(\"%%i\", -5); scan_from(\"%%i\")");
    print_to(s, 0, "%i", $I(-5));
    VH_CATCH(scan_from(s, 0, "%i", x), exc);
    vh_eval();
    if (exc || c_int(x) != -5) { vh_violation("C15:print-scan:int-value-changed", "wrote -5 with %%i, read back %" PRId64 " (%s)", c_int(x), vh_exc_name(exc)); }
  }
}

int main(int argc, char** argv) {
  return vh_run(argc, argv, "roundtrip", fixed, case_random);
}
