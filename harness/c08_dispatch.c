/*
** C08 -- type-class dispatch returns exactly what the type declares.
**
** Oracle: an independent scan of the raw type record (skip the cache words and the __Name/__Size
** entries, walk the (cls, name, inst) triples, match by class NAME), compared with every lookup API
** for every built-in type object x every class x every member, cold and warm and in random orders,
** for run-time types with 0..256 instances (counting stubs prove which function a dispatcher invoked),
** and for concurrent first lookups from 16 threads.
*/
#include "vh.h"
#include <pthread.h>
#include <ctype.h>

/* ---------- the universe ---------- */

struct clsinfo { var* cls; const char* name; int nmembers; };
#define CLS(C) { &C, #C, (int)(sizeof(struct C) / sizeof(var)) }
static struct clsinfo CLASSES[] = {
  CLS(Doc), CLS(Help), CLS(Cast), CLS(Size), CLS(Alloc), CLS(New), CLS(Copy), CLS(Assign), CLS(Swap), CLS(Cmp), CLS(Hash), CLS(Len),
  CLS(Iter), CLS(Push), CLS(Concat), CLS(Get), CLS(Sort), CLS(Resize), CLS(C_Str), CLS(C_Int), CLS(C_Float), CLS(Stream), CLS(Pointer),
  CLS(Call), CLS(Format), CLS(Show), CLS(Current), CLS(Start), CLS(Lock), CLS(Mark) };
enum { NCLASSES = sizeof CLASSES / sizeof CLASSES[0] };

static var* BUILTIN_TYPES[] = { &Type, &Tuple, &Ref, &Box, &Int, &Float, &String, &Tree, &List, &Array, &Table, &Range, &Slice, &Zip, &Filter,
  &Map, &_, &File, &Mutex, &Thread, &Process, &Function, &Exception, &IOError, &KeyError, &BusyError, &TypeError, &ValueError, &ClassError,
  &FormatError, &ResourceError, &OutOfMemoryError, &IndexOutOfBoundsError, &SegmentationError, &ProgramAbortedError, &DivisionByZeroError,
  &IllegalInstructionError, &ProgramInterruptedError, &ProgramTerminationError, &GC };
enum { NBUILTIN = sizeof BUILTIN_TYPES / sizeof BUILTIN_TYPES[0] };

enum { MAXTYPES = 600 };
static var TYPES[MAXTYPES]; static int ntypes;          /* built-in types + the classes themselves + run-time types */

/* ---------- independent oracle: scan the raw record ---------- */

static const char* raw_name(var type) { return ((struct Type*)type)[CELLO_CACHE_NUM / 3 + 0].inst; }

static var oracle_instance(var type, var cls) {
  struct Type* t = (struct Type*)type + CELLO_CACHE_NUM / 3 + 2;
  const char* cname = raw_name(cls);
  for (; t->name != NULL; t++) { if (strcmp((const char*)t->name, cname) == 0) { return t->inst; } }
  return NULL;
}

/* white-box reset of everything the lookups memoise, using only layout constants published in Cello.h */
static void reset_caches(var type) {
  for (int i = 0; i < CELLO_CACHE_NUM; i++) { ((var*)type)[i] = NULL; }
  struct Type* t = (struct Type*)type + CELLO_CACHE_NUM / 3 + 2;
  for (; t->name != NULL; t++) { t->cls = NULL; }
}

/* an object of the given type that no constructor ever touched */
static var fake_object(var type, char* buf) { return header_init(buf, type, AllocStack); }

/* ---------- one (type, class) cell: every lookup API against the oracle ---------- */

static char kb[160];
static const char* K(const char* what) { snprintf(kb, sizeof kb, "C08:%s", what); return kb; }

static void check_cell(var type, const struct clsinfo* ci, const char* phase, int is_terminal) {
  var cls = *ci->cls;
  var want = oracle_instance(type, cls);
  char objbuf[sizeof(struct Header) + 64];
  memset(objbuf, 0, sizeof objbuf);
  var obj = fake_object(type, objbuf);
  const char* tn = raw_name(type);
  vh_evals(4);
  var got = type_instance(type, cls);
  if (got != want) { vh_violation(K("type_instance:wrong-instance"), "%s: type_instance(%s, %s) = %p, the type declares %p", phase, tn, ci->name, got, want); }
  got = instance(obj, cls);
  if (got != want) { vh_violation(K("instance:wrong-instance"), "%s: instance(object of %s, %s) = %p, the type declares %p", phase, tn, ci->name, got, want); }
  if (type_implements(type, cls) != (want != NULL)) { vh_violation(K("type_implements:wrong-answer"), "%s: type_implements(%s, %s) = %d", phase, tn, ci->name, (int)type_implements(type, cls)); }
  if (implements(obj, cls) != (want != NULL)) { vh_violation(K("implements:wrong-answer"), "%s: implements(object of %s, %s) = %d", phase, tn, ci->name, (int)implements(obj, cls)); }
  for (int m = 0; m < ci->nmembers; m++) {
    size_t off = (size_t)m * sizeof(var);
    int has = want != NULL && ((var*)want)[m] != NULL;
    vh_evals(4);
    if (type_implements_method_at_offset(type, cls, off) != (bool)has) { vh_violation(K("type_implements_method:wrong-answer"), "%s: %s/%s member %d: %d, expected %d", phase, tn, ci->name, m, (int)type_implements_method_at_offset(type, cls, off), has); }
    if (implements_method_at_offset(obj, cls, off) != (bool)has) { vh_violation(K("implements_method:wrong-answer"), "%s: object of %s/%s member %d: expected %d", phase, tn, ci->name, m, has); }
    var exc = NULL, r = NULL;
    VH_CATCH(r = type_method_at_offset(type, cls, off, "member"), exc);
    if (has) {
      if (exc || r != want) { vh_violation(K("type_method:wrong-instance-or-raised"), "%s: type_method(%s, %s, member %d) gave %p / %s, expected %p", phase, tn, ci->name, m, r, vh_exc_name(exc), want); }
    } else if (!is_terminal && exc != ClassError) {
      vh_violation(K("type_method:missing-member-did-not-raise-classerror"), "%s: type_method(%s, %s, member %d) gave %s", phase, tn, ci->name, m, vh_exc_name(exc));
    }
    VH_CATCH(r = method_at_offset(obj, cls, off, "member"), exc);
    if (has) {
      if (exc || r != want) { vh_violation(K("method:wrong-instance-or-raised"), "%s: method(object of %s, %s, member %d) gave %p / %s, expected %p", phase, tn, ci->name, m, r, vh_exc_name(exc), want); }
    } else if (!is_terminal && exc != ClassError) {
      vh_violation(K("method:missing-member-did-not-raise-classerror"), "%s: method(object of %s, %s, member %d) gave %s", phase, tn, ci->name, m, vh_exc_name(exc));
    }
  }
  vh_count("cells_checked");
}

/* cast */
static void check_cast(var type, var other) {
  char objbuf[sizeof(struct Header) + 64];
  memset(objbuf, 0, sizeof objbuf);
  var obj = fake_object(type, objbuf);
  if (type_instance(type, Cast) != NULL) { return; }      /* a type with its own Cast instance decides for itself */
  var exc = NULL, r = NULL;
  vh_evals(2);
  VH_CATCH(r = cast(obj, type), exc);
  if (exc || r != obj) { vh_violation(K("cast:to-own-type-failed"), "cast(object of %s, %s) gave %s", raw_name(type), raw_name(type), vh_exc_name(exc)); }
  if (other != type) {
    VH_CATCH(r = cast(obj, other), exc);
    if (exc != ValueError) { vh_violation(K("cast:to-other-type-did-not-raise-valueerror"), "cast(object of %s, %s) gave %s", raw_name(type), raw_name(other), vh_exc_name(exc)); }
  }
  vh_count("casts_checked");
}

/* ---------- run-time types with counting stubs ---------- */

enum { NSTUB = 40 };
static volatile long stub_calls[NSTUB];
#define STUB(N, RET, ARGS, VAL) static RET stub##N ARGS { stub_calls[N]++; return VAL; }
#define STUBV(N, ARGS) static void stub##N ARGS { stub_calls[N]++; }
STUB(0, size_t, (var s), 7)                         /* Len.len */
STUB(1, int64_t, (var s), 11)                       /* C_Int.c_int */
STUB(2, char*, (var s), "stub")                     /* C_Str.c_str */
STUB(3, double, (var s), 2.5)                       /* C_Float.c_float */
STUB(4, uint64_t, (var s), 99)                      /* Hash.hash */
STUBV(5, (var s, var o))                            /* Push.push */
STUBV(6, (var s))                                   /* Push.pop */
STUBV(7, (var s, var o, var k))                     /* Push.push_at */
STUBV(8, (var s, var k))                            /* Push.pop_at */
STUB(9, var, (var s, var k), NULL)                  /* Get.get */
STUBV(10, (var s, var k, var v))                    /* Get.set */
STUB(11, bool, (var s, var k), false)               /* Get.mem */
STUBV(12, (var s, var k))                           /* Get.rem */
STUB(13, var, (var s), NULL)                        /* Get.key_type */
STUB(14, var, (var s), NULL)                        /* Get.val_type */
STUBV(15, (var s, var o))                           /* Concat.concat */
STUBV(16, (var s, var o))                           /* Concat.append */
STUBV(17, (var s, size_t n))                        /* Resize.resize */
STUB(18, var, (var s), Terminal)                    /* Iter.iter_init */
STUB(19, var, (var s, var c), Terminal)             /* Iter.iter_next */
STUB(20, var, (var s), Terminal)                    /* Iter.iter_last */
STUB(21, var, (var s, var c), Terminal)             /* Iter.iter_prev */
STUB(22, var, (var s), NULL)                        /* Iter.iter_type */
STUB(23, var, (var s, var a), NULL)                 /* Call.call_with */
STUBV(24, (var s))                                  /* Lock.lock */
STUBV(25, (var s))                                  /* Lock.unlock */
STUB(26, bool, (var s), true)                       /* Lock.trylock */
STUBV(27, (var s))                                  /* Start.start */
STUBV(28, (var s))                                  /* Start.stop */
STUBV(29, (var s))                                  /* Start.join */
STUB(30, bool, (var s), false)                      /* Start.running */
STUBV(31, (var s, bool(*f)(var, var)))              /* Sort.sort_by */
STUBV(32, (var s, var o))                           /* Pointer.ref */
STUB(33, var, (var s), NULL)                        /* Pointer.deref */

struct dispcls { var* cls; int nmembers; int first_stub; void* fns[6]; };
static struct dispcls DISP[] = {
  { &Len, 1, 0, { (void*)stub0 } }, { &C_Int, 1, 1, { (void*)stub1 } }, { &C_Str, 1, 2, { (void*)stub2 } }, { &C_Float, 1, 3, { (void*)stub3 } },
  { &Hash, 1, 4, { (void*)stub4 } }, { &Push, 4, 5, { (void*)stub5, (void*)stub6, (void*)stub7, (void*)stub8 } },
  { &Get, 6, 9, { (void*)stub9, (void*)stub10, (void*)stub11, (void*)stub12, (void*)stub13, (void*)stub14 } },
  { &Concat, 2, 15, { (void*)stub15, (void*)stub16 } }, { &Resize, 1, 17, { (void*)stub17 } },
  { &Iter, 5, 18, { (void*)stub18, (void*)stub19, (void*)stub20, (void*)stub21, (void*)stub22 } }, { &Call, 1, 23, { (void*)stub23 } },
  { &Lock, 3, 24, { (void*)stub24, (void*)stub25, (void*)stub26 } }, { &Start, 4, 27, { (void*)stub27, (void*)stub28, (void*)stub29, (void*)stub30 } },
  { &Sort, 1, 31, { (void*)stub31 } }, { &Pointer, 2, 32, { (void*)stub32, (void*)stub33 } } };
enum { NDISP = sizeof DISP / sizeof DISP[0] };

/* call the public dispatcher of stub index k on obj */
static bool lt_dummy(var a, var b) { (void)a; (void)b; return false; }
static void call_dispatcher(int k, var obj) {
  var a = $I(0);
  switch (k) {
    case 0: (void)len(obj); break;            case 1: (void)c_int(obj); break;        case 2: (void)c_str(obj); break;
    case 3: (void)c_float(obj); break;        case 4: (void)hash(obj); break;         case 5: push(obj, a); break;            case 6: pop(obj); break;
    case 7: push_at(obj, a, a); break;        case 8: pop_at(obj, a); break;          case 9: (void)get(obj, a); break;
    case 10: set(obj, a, a); break;           case 11: (void)mem(obj, a); break;      case 12: rem(obj, a); break;
    case 13: (void)key_type(obj); break;      case 14: (void)val_type(obj); break;    case 15: concat(obj, a); break;
    case 16: append(obj, a); break;           case 17: resize(obj, 3); break;         case 18: (void)iter_init(obj); break;
    case 19: (void)iter_next(obj, a); break;  case 20: (void)iter_last(obj); break;   case 21: (void)iter_prev(obj, a); break;
    case 22: (void)iter_type(obj); break;     case 23: (void)call_with(obj, a); break; case 24: lock(obj); break;
    case 25: unlock(obj); break;              case 26: (void)trylock(obj); break;     case 27: start(obj); break;
    case 28: stop(obj); break;                case 29: join(obj); break;              case 30: (void)running(obj); break;
    case 31: sort_by(obj, lt_dummy); break;   case 32: ref(obj, a); break;            case 33: (void)deref(obj); break;
    default: break;
  }
}
/* stub 4 (hash) has a default implementation, so it is only checked when present */

/* the type-level lookup macro for the same members (type_method has no defaults: an empty member is a ClassError) */
static const int TM_STUBS[] = { 0, 1, 2, 3, 4, 9, 11, 18, 19, 22, 33 };
static void call_type_method(int k, var type, var obj) {
  var a = $I(0);
  switch (k) {
    case 0: (void)type_method(type, Len, len, obj); break;             case 1: (void)type_method(type, C_Int, c_int, obj); break;
    case 2: (void)type_method(type, C_Str, c_str, obj); break;         case 3: (void)type_method(type, C_Float, c_float, obj); break;
    case 4: (void)type_method(type, Hash, hash, obj); break;           case 9: (void)type_method(type, Get, get, obj, a); break;
    case 11: (void)type_method(type, Get, mem, obj, a); break;         case 18: (void)type_method(type, Iter, iter_init, obj); break;
    case 19: (void)type_method(type, Iter, iter_next, obj, a); break;  case 22: (void)type_method(type, Iter, iter_type, obj); break;
    case 33: (void)type_method(type, Pointer, deref, obj); break;
    default: break;
  }
}

static var SYN[300]; static int nsyn;          /* synthetic classes: run-time type objects used as classes */
/* near-name classes: for every built-in class a class whose name extends it ("LenX"), one whose name is a proper
   prefix of it ("Le") and one that differs in case only ("len").  A lookup that compares names loosely (prefix,
   case-insensitive, by length) confuses them with the built-in class; the synthetic names are prefixes of one
   another as well ("Syn1", "Syn10", "Syn100"). */
static var NEAR[3 * 40]; static int nnear;

static void check_absent(var type, var cls, const char* phase) {
  char objbuf[sizeof(struct Header) + 64];
  memset(objbuf, 0, sizeof objbuf);
  var obj = fake_object(type, objbuf);
  vh_evals(4);
  var got = type_instance(type, cls);
  if (got != NULL) { vh_violation(K("type_instance:instance-for-an-undeclared-class"), "%s: type_instance(%s, %s) = %p although the type does not declare that class", phase, raw_name(type), raw_name(cls), got); }
  if (instance(obj, cls) != NULL) { vh_violation(K("instance:instance-for-an-undeclared-class"), "%s: instance(object of %s, %s) is not NULL", phase, raw_name(type), raw_name(cls)); }
  if (type_implements(type, cls) || implements(obj, cls)) { vh_violation(K("type_implements:wrong-answer"), "%s: %s is reported to implement %s", phase, raw_name(type), raw_name(cls)); }
  var exc = NULL;
  VH_CATCH((void)type_method_at_offset(type, cls, 0, "member"), exc);
  if (exc != ClassError) { vh_violation(K("type_method:missing-member-did-not-raise-classerror"), "%s: type_method(%s, %s, member 0) gave %s", phase, raw_name(type), raw_name(cls), vh_exc_name(exc)); }
  vh_count("undeclared_near_name_lookups");
}

static var make_instance(var cls, int nmembers, void** fns, uint32_t present_mask) {
  char* blk = calloc(1, sizeof(struct Header) + sizeof(var) * (size_t)(nmembers ? nmembers : 1));
  var inst = header_init(blk, cls, AllocHeap);
  for (int m = 0; m < nmembers; m++) { ((var*)inst)[m] = (present_mask >> m & 1) ? fns[m] : NULL; }
  return inst;
}

static void runtime_type_case(vh_rng* r, int ninst) {
  /* choose which dispatch classes the type has, and which members are filled */
  var args = new(Tuple);
  char tname[32]; snprintf(tname, sizeof tname, "RT%ld_%d", (long)vh_below(r, 1000000), ninst);
  char* name_keep = strdup(tname);
  push(args, $S(name_keep));          /* Type_New keeps the character pointer: it must outlive the type */
  push(args, $I(16));
  uint32_t masks[NDISP]; int has[NDISP];
  var decl_cls[300]; var decl_inst[300]; int nd = 0;
  for (int d = 0; d < NDISP; d++) {
    has[d] = vh_chance(r, 55) && nd < ninst;
    masks[d] = has[d] ? (uint32_t)vh_below(r, (uint64_t)1 << DISP[d].nmembers) : 0;
    if (has[d]) { decl_cls[nd] = *DISP[d].cls; decl_inst[nd] = make_instance(*DISP[d].cls, DISP[d].nmembers, DISP[d].fns, masks[d]); nd++; }
  }
  /* fill up with synthetic classes to reach ninst instances */
  static void* two[2] = { (void*)stub0, (void*)stub1 };
  int used_syn = 0, ndisp_decl = nd;
  char near_used[3 * 40]; memset(near_used, 0, sizeof near_used);
  char syn_used[300]; memset(syn_used, 0, sizeof syn_used);
  int near_quota = vh_chance(r, 70) ? 1 + (int)vh_below(r, 8) : 0;
  while (nd < ninst && used_syn < nsyn) {
    if (near_quota > 0) {
      int k = (int)vh_below(r, (uint64_t)nnear);
      near_quota--;
      if (!near_used[k]) { near_used[k] = 1; decl_cls[nd] = NEAR[k]; decl_inst[nd] = make_instance(NEAR[k], 2, two, 3); nd++; vh_count("near_name_classes_declared"); }
      continue;
    }
    /* small types take a random synthetic class (so "Syn10" is declared without "Syn1"), large ones take them all */
    int k = ninst < 60 ? (int)vh_below(r, (uint64_t)nsyn) : used_syn;
    if (syn_used[k]) { for (k = 0; syn_used[k]; k++) { } }
    syn_used[k] = 1;
    decl_cls[nd] = SYN[k]; decl_inst[nd] = make_instance(SYN[k], 2, two, 3); nd++; used_syn++;
  }
  /* random declaration order */
  int order[300];
  for (int i = 0; i < nd; i++) { order[i] = i; }
  for (int i = nd - 1; i > 0; i--) { int j = (int)vh_below(r, (uint64_t)i + 1); int t = order[i]; order[i] = order[j]; order[j] = t; }
  for (int i = 0; i < nd; i++) { push(args, decl_inst[order[i]]); }
  var exc = NULL, type = NULL;
  VH_CATCH(type = new_root_with(Type, args), exc);       /* root: the harness keeps run-time types in static storage */
  vh_op("run-time type with %d instances (%d dispatch classes)", nd, ndisp_decl);
  if (exc || !type) { vh_violation(K("runtime-type:construction-raised"), "new(Type, ...) with %d instances raised %s", nd, vh_exc_name(exc)); return; }
  if (ntypes < MAXTYPES) { TYPES[ntypes++] = type; }
  /* every declared instance is found, by type-level and object-level lookup, whatever the order */
  char objbuf[sizeof(struct Header) + 64]; memset(objbuf, 0, sizeof objbuf);
  var obj = fake_object(type, objbuf);
  int lookups[300];
  for (int i = 0; i < nd; i++) { lookups[i] = i; }
  for (int i = nd - 1; i > 0; i--) { int j = (int)vh_below(r, (uint64_t)i + 1); int t = lookups[i]; lookups[i] = lookups[j]; lookups[j] = t; }
  for (int pass = 0; pass < 2; pass++) {
    for (int i = 0; i < nd; i++) {
      int k = lookups[i];
      vh_evals(2);
      if (type_instance(type, decl_cls[k]) != decl_inst[k]) { vh_violation(K("runtime-type:wrong-instance"), "type with %d instances: class %s resolves to the wrong instance (%s pass)", nd, raw_name(decl_cls[k]), pass ? "warm" : "cold"); }
      if (instance(obj, decl_cls[k]) != decl_inst[k]) { vh_violation(K("runtime-type:wrong-instance"), "type with %d instances: object-level lookup of %s wrong (%s pass)", nd, raw_name(decl_cls[k]), pass ? "warm" : "cold"); }
    }
  }
  /* classes it does not declare */
  for (int c = 0; c < NCLASSES; c++) {
    int declared = 0;
    for (int i = 0; i < nd; i++) { if (decl_cls[i] == *CLASSES[c].cls) { declared = 1; } }
    if (!declared) { check_cell(type, &CLASSES[c], "run-time type", 0); }
  }
  /* near-name and synthetic classes it does not declare */
  for (int k = 0; k < nnear; k++) { if (!near_used[k]) { check_absent(type, NEAR[k], "run-time type"); } }
  for (int k = 0; k < nsyn; k += (ninst < 60 ? 1 : 7)) { if (!syn_used[k]) { check_absent(type, SYN[k], "run-time type"); } }
  /* dispatchers: exactly the declared stub runs, or ClassError and nothing runs */
  for (int d = 0; d < NDISP; d++) {
    for (int m = 0; m < DISP[d].nmembers; m++) {
      int k = DISP[d].first_stub + m;
      int present = has[d] && (masks[d] >> m & 1);
      if (k == 4 && !present) { continue; }       /* hash falls back to a default */
      long before[NSTUB];
      for (int q = 0; q < NSTUB; q++) { before[q] = stub_calls[q]; }
      VH_CATCH(call_dispatcher(k, obj), exc);
      vh_evals(2);
      long others = 0;
      for (int q = 0; q < NSTUB; q++) { if (q != k) { others += stub_calls[q] - before[q]; } }
      if (present) {
        if (exc) { vh_violation(K("dispatch:declared-member-raised"), "dispatcher %d on a type that declares it raised %s", k, vh_exc_name(exc)); }
        else if (stub_calls[k] - before[k] != 1 || others != 0) { vh_violation(K("dispatch:wrong-function-invoked"), "dispatcher %d: declared stub ran %ld times, other stubs %ld times", k, stub_calls[k] - before[k], others); }
        vh_count("dispatches_to_declared_member");
      } else {
        if (exc != ClassError) { vh_violation(K("dispatch:missing-member-did-not-raise-classerror"), "dispatcher %d on a type that %s gave %s", k, has[d] ? "leaves the member empty" : "lacks the class", vh_exc_name(exc)); }
        if (stub_calls[k] - before[k] != 0 || others != 0) { vh_violation(K("dispatch:something-was-invoked-for-a-missing-member"), "dispatcher %d: %ld + %ld stub calls although the member is missing", k, stub_calls[k] - before[k], others); }
        vh_count(has[d] ? "dispatches_to_empty_member" : "dispatches_to_missing_class");
      }
    }
  }
  /* the same members through the type-level macro */
  for (size_t q = 0; q < sizeof TM_STUBS / sizeof TM_STUBS[0]; q++) {
    int k = TM_STUBS[q], d = 0, m = 0;
    for (int dd = 0; dd < NDISP; dd++) { if (k >= DISP[dd].first_stub && k < DISP[dd].first_stub + DISP[dd].nmembers) { d = dd; m = k - DISP[dd].first_stub; } }
    int present = has[d] && (masks[d] >> m & 1);
    long before[NSTUB];
    for (int j = 0; j < NSTUB; j++) { before[j] = stub_calls[j]; }
    VH_CATCH(call_type_method(k, type, obj), exc);
    vh_evals(2);
    long others = 0;
    for (int j = 0; j < NSTUB; j++) { if (j != k) { others += stub_calls[j] - before[j]; } }
    if (present ? (exc != NULL || stub_calls[k] - before[k] != 1 || others != 0) : (exc != ClassError || stub_calls[k] != before[k] || others != 0)) {
      vh_violation(K("type_method:macro-wrong-for-member"), "type_method for stub %d on a type where the member is %s gave %s, the stub ran %ld times, other stubs %ld times", k,
        present ? "declared" : has[d] ? "left empty" : "absent with its class", vh_exc_name(exc), stub_calls[k] - before[k], others);
    }
    if (!present && has[d]) { vh_count("type_level_macro_calls_of_an_empty_member"); }
  }
  /* the same type object declared again (construct in place) now that every lookup above has happened: the second
     declaration is what every lookup answers from, whatever was looked up, memoised or dispatched under the first */
  if (vh_chance(r, 50)) {
    var args2 = new(Tuple);
    push(args2, $S(name_keep)); push(args2, $I(16));
    int has2[NDISP]; uint32_t masks2[NDISP]; var inst2[NDISP];
    for (int d = 0; d < NDISP; d++) {
      has2[d] = vh_chance(r, 50);
      masks2[d] = has2[d] ? (uint32_t)vh_below(r, (uint64_t)1 << DISP[d].nmembers) : 0;
      inst2[d] = has2[d] ? make_instance(*DISP[d].cls, DISP[d].nmembers, DISP[d].fns, masks2[d]) : NULL;
      if (has2[d]) { push(args2, inst2[d]); }
    }
    VH_CATCH(construct_with(type, args2), exc);
    if (exc) { vh_violation(K("runtime-type:redeclaration-raised"), "construct on a run-time type in use raised %s", vh_exc_name(exc)); return; }
    for (int pass = 0; pass < 2; pass++) {
      for (int d = 0; d < NDISP; d++) {
        vh_evals(3);
        var ti = type_instance(type, *DISP[d].cls), oi = instance(obj, *DISP[d].cls);
        if (ti != inst2[d] || oi != inst2[d] || type_implements(type, *DISP[d].cls) != (has2[d] != 0)) {
          vh_violation(K("runtime-type:lookup-answers-from-the-replaced-declaration"), "after the type was declared again, class %s (first declaration: %s, second: %s) resolves to %s (%s pass)", raw_name(*DISP[d].cls),
            has[d] ? "declared" : "absent", has2[d] ? "declared" : "absent", ti == NULL ? "nothing" : ti == inst2[d] ? "the new instance at type level only" : "another instance", pass ? "warm" : "cold");
        }
        int k = DISP[d].first_stub;
        int present = has2[d] && (masks2[d] & 1);
        if (k == 4 && !present) { continue; }
        long b0 = stub_calls[k];
        VH_CATCH(call_dispatcher(k, obj), exc);
        if (present ? (exc != NULL || stub_calls[k] - b0 != 1) : (exc != ClassError || stub_calls[k] != b0)) {
          vh_violation(K("runtime-type:dispatch-follows-the-replaced-declaration"), "after the type was declared again, dispatcher %d (member %s now) gave %s and ran the stub %ld times", k, present ? "declared" : "missing", vh_exc_name(exc), stub_calls[k] - b0);
        }
      }
    }
    vh_count("runtime_types_declared_again_after_their_lookups");
  }
  vh_count("runtime_types");
  if (nd >= 200) { vh_count("runtime_types_with_200_or_more_instances"); }
  if (nd == 0) { vh_count("runtime_types_with_no_instance"); }
}


/* ---------- foreach: the header macro looks the Iter instance up once and calls its members directly ----------
** The statement's "method lookup macros" include foreach: over a type that lacks Iter, or leaves iter_init empty,
** it raises ClassError before anything runs; a walk that reaches an empty iter_next raises ClassError there (the
** body has run for the items produced so far), it never jumps through the empty slot.  The library's own foreach
** loops (List concat) are compiled from the same macro. */
static volatile long fe_calls[5];
static int fe_items;                /* how many items the stub iterator produces */
static char fe_blocks[8][sizeof(struct Header) + sizeof(struct Int)];
static var fe_obj(int i) { var o = header_init(fe_blocks[i], Int, AllocStatic); ((struct Int*)o)->val = 100 + i; return o; }
static var fe_init(var s) { (void)s; fe_calls[0]++; return fe_items > 0 ? fe_obj(0) : Terminal; }
static var fe_next(var s, var c) { (void)s; fe_calls[1]++; int64_t i = ((struct Int*)c)->val - 100 + 1; return i < fe_items ? fe_obj((int)i) : Terminal; }
static var fe_last(var s) { (void)s; fe_calls[2]++; return Terminal; }
static var fe_prev(var s, var c) { (void)s; (void)c; fe_calls[3]++; return Terminal; }
static var fe_type(var s) { (void)s; fe_calls[4]++; return Int; }

static void foreach_case(vh_rng* r) {
  static void* fns[5] = { (void*)fe_init, (void*)fe_next, (void*)fe_last, (void*)fe_prev, (void*)fe_type };
  int has_iter = !vh_chance(r, 15);
  uint32_t mask = (uint32_t)vh_below(r, 32);
  if (vh_chance(r, 30)) { mask = (mask | 2u) & ~1u; }          /* iter_next filled, iter_init empty */
  if (vh_chance(r, 30)) { mask = (mask | 1u) & ~2u; }          /* iter_init filled, iter_next empty */
  char tname[32]; snprintf(tname, sizeof tname, "FE%ld", (long)vh_below(r, 1000000));
  var args = new(Tuple);
  push(args, $S(strdup(tname))); push(args, $I(16));
  static void* two[2] = { (void*)stub0, (void*)stub1 };
  int nfill = (int)vh_below(r, 6);
  for (int i = 0; i < nfill; i++) { push(args, make_instance(SYN[i * 3], 2, two, 3)); }
  if (has_iter) { push(args, make_instance(Iter, 5, fns, mask)); }
  var exc = NULL, type = NULL;
  VH_CATCH(type = new_root_with(Type, args), exc);
  if (exc || !type) { vh_violation(K("runtime-type:construction-raised"), "new(Type, ...) raised %s", vh_exc_name(exc)); return; }
  char objbuf[sizeof(struct Header) + 64]; memset(objbuf, 0, sizeof objbuf);
  var obj = fake_object(type, objbuf);
  int has_init = has_iter && (mask & 1), has_next = has_iter && (mask >> 1 & 1);
  for (int round = 0; round < 3; round++) {
    fe_items = round == 0 ? 0 : 1 + (int)vh_below(r, 6);
    int via_library = round == 2 && vh_chance(r, 50);
    vh_op("foreach over %s (Iter %s, iter_init %s, iter_next %s), %d items%s", tname, has_iter ? "declared" : "absent", has_init ? "filled" : "empty",
          has_next ? "filled" : "empty", fe_items, via_library ? ", inside List concat" : "");
    long before[5]; for (int q = 0; q < 5; q++) { before[q] = fe_calls[q]; }
    long sb[NSTUB]; for (int q = 0; q < NSTUB; q++) { sb[q] = stub_calls[q]; }
    volatile int body = 0; volatile int64_t sum = 0;
    var arr = via_library ? new_raw(List, Int) : NULL;
    if (via_library) { VH_CATCH(concat(arr, obj), exc); body = (int)len(arr); foreach (x in arr) { sum += c_int(x); } }
    else { VH_CATCH({ foreach (x in obj) { body++; sum += c_int(x); } }, exc); }
    vh_evals(3);
    long d[5]; for (int q = 0; q < 5; q++) { d[q] = fe_calls[q] - before[q]; }
    long others = d[2] + d[3] + d[4];
    for (int q = 0; q < NSTUB; q++) { others += stub_calls[q] - sb[q]; }
    int want_body, want_init, want_next; var want_exc;
    if (!has_init) { want_exc = ClassError; want_body = 0; want_init = 0; want_next = 0; vh_count(has_iter ? "foreach_over_empty_iter_init" : "foreach_over_type_without_iter"); }
    else if (fe_items == 0) { want_exc = NULL; want_body = 0; want_init = 1; want_next = 0; vh_count("foreach_over_no_items"); }
    else if (!has_next) { want_exc = ClassError; want_body = 1; want_init = 1; want_next = 0; vh_count("foreach_reaching_empty_iter_next"); }
    else { want_exc = NULL; want_body = fe_items; want_init = 1; want_next = fe_items; vh_count("foreach_complete_walks"); }
    int64_t want_sum = 0; for (int i = 0; i < want_body; i++) { want_sum += 100 + i; }
    if (exc != want_exc) { vh_violation(K(want_exc ? "foreach:missing-member-did-not-raise-classerror" : "foreach:declared-member-raised"), "foreach gave %s, expected %s", vh_exc_name(exc), vh_exc_name(want_exc)); }
    if (d[0] != want_init || d[1] != want_next || others != 0) {
      vh_violation(K(want_exc ? "foreach:something-was-invoked-for-a-missing-member" : "foreach:wrong-function-invoked"),
                   "foreach called iter_init %ld (want %d), iter_next %ld (want %d), other members %ld times", d[0], want_init, d[1], want_next, others);
    }
    if (body != want_body || sum != want_sum) { vh_violation(K("foreach:wrong-items"), "foreach body ran %d times (sum %lld), expected %d (sum %lld)", body, (long long)sum, want_body, (long long)want_sum); }
    if (arr) { del_raw(arr); }
  }
  vh_count("foreach_types");
}

/* ---------- dispatchers with a documented default: an empty member falls back, it is never invoked ----------
** construct / destruct / copy / assign / swap / cmp / hash / show / size do not raise ClassError when the class or the
** member is missing: they do what a type without the class gets.  For a run-time type that declares these classes
** with a random subset of their members filled by counting stubs: a filled member runs exactly once per call, an
** empty one runs nothing (the call neither crashes nor raises) and the result is the default. */

enum { FB_CONSTRUCT, FB_DESTRUCT, FB_COPY, FB_ASSIGN, FB_SWAP, FB_CMP, FB_HASH, FB_SHOW, FB_LOOK, FB_SIZE, FB_N };
static volatile long fb_calls[FB_N];
static const char* FB_NAME[FB_N] = { "construct_with", "destruct", "copy", "assign", "swap", "cmp", "hash", "show", "look", "size" };
static void fb_construct(var s, var args) { (void)s; (void)args; fb_calls[FB_CONSTRUCT]++; }
static void fb_destruct(var s) { (void)s; fb_calls[FB_DESTRUCT]++; }
static var fb_copy(var s) { fb_calls[FB_COPY]++; var c = alloc_raw(type_of(s)); memcpy(c, s, 16); return c; }
static void fb_assign(var s, var o) { fb_calls[FB_ASSIGN]++; memcpy(s, o, 16); }
static void fb_swap(var s, var o) { (void)s; (void)o; fb_calls[FB_SWAP]++; }
static int fb_cmp(var s, var o) { (void)s; (void)o; fb_calls[FB_CMP]++; return 0; }
static uint64_t fb_hash(var s) { (void)s; fb_calls[FB_HASH]++; return 42; }
static int fb_show(var s, var out, int pos) { (void)s; (void)out; fb_calls[FB_SHOW]++; return pos; }
static int fb_look(var s, var inp, int pos) { (void)s; (void)inp; fb_calls[FB_LOOK]++; return pos; }
static size_t fb_size(void) { fb_calls[FB_SIZE]++; return 16; }

/* Alloc: a type may override allocation, deallocation, both or (declaring the class with both members empty) neither;
   an empty member means the default allocator / release, never a call through the empty slot */
static volatile long fb_allocs, fb_deallocs;
static var fb_cur_type;
static var fb_alloc(void) { fb_allocs++; struct Header* h = calloc(1, sizeof(struct Header) + 16); return header_init(h, fb_cur_type, AllocHeap); }
static void fb_dealloc(var s) { fb_deallocs++; free((char*)s - sizeof(struct Header)); }
static void fb_expect_alloc(long a0, long d0, int want_alloc, int want_dealloc, const char* what) {
  vh_evals(2);
  if (fb_allocs - a0 != want_alloc) { vh_violation(K(want_alloc ? "fallback:filled-member-not-invoked-exactly-once" : "fallback:something-was-invoked-for-an-empty-member"), "%s: the alloc member ran %ld times, expected %d", what, fb_allocs - a0, want_alloc); }
  if (fb_deallocs - d0 != want_dealloc) { vh_violation(K(want_dealloc ? "fallback:filled-member-not-invoked-exactly-once" : "fallback:something-was-invoked-for-an-empty-member"), "%s: the dealloc member ran %ld times, expected %d", what, fb_deallocs - d0, want_dealloc); }
}

static void fb_expect(const long* before, int which, int present, var exc, const char* what) {
  vh_evals(2);
  if (exc) { vh_violation(K("fallback:raised"), "%s on a type whose %s member is %s raised %s", what, FB_NAME[which], present ? "filled" : "empty or undeclared", vh_exc_name(exc)); return; }
  for (int k = 0; k < FB_N; k++) {
    long d = fb_calls[k] - before[k];
    if (k == FB_SIZE) { continue; }                    /* size is asked for by many operations */
    if (k == which) {
      if (present && d != 1) { vh_violation(K("fallback:filled-member-not-invoked-exactly-once"), "%s: the filled member %s ran %ld times", what, FB_NAME[k], d); }
      if (!present && d != 0) { vh_violation(K("fallback:something-was-invoked-for-an-empty-member"), "%s: member %s is empty but a stub ran %ld times", what, FB_NAME[k], d); }
    }
  }
  vh_count(present ? "fallback_calls_to_filled_member" : "fallback_calls_to_empty_member");
}

static void fallback_case(vh_rng* r) {
  /* declared: bit per class; filled: bit per member */
  int decl_new = vh_chance(r, 70), decl_copy = vh_chance(r, 60), decl_assign = vh_chance(r, 60), decl_swap = vh_chance(r, 60),
      decl_cmp = vh_chance(r, 60), decl_hash = vh_chance(r, 60), decl_show = vh_chance(r, 60), decl_size = vh_chance(r, 40);
  int has[FB_N];
  for (int k = 0; k < FB_N; k++) { has[k] = vh_chance(r, 50); }
  if (!decl_new) { has[FB_CONSTRUCT] = has[FB_DESTRUCT] = 0; }
  if (!decl_copy) { has[FB_COPY] = 0; }
  if (!decl_assign) { has[FB_ASSIGN] = 0; }
  if (!decl_swap) { has[FB_SWAP] = 0; }
  if (!decl_cmp) { has[FB_CMP] = 0; }
  if (!decl_hash) { has[FB_HASH] = 0; }
  if (!decl_show) { has[FB_SHOW] = has[FB_LOOK] = 0; }
  if (!decl_size) { has[FB_SIZE] = 0; }
  var args = new(Tuple);
  char tname[32]; snprintf(tname, sizeof tname, "FB%ld", (long)vh_below(r, 100000000));
  push(args, $S(strdup(tname))); push(args, $I(16));
  void* two[2];
  if (decl_new) { two[0] = (void*)fb_construct; two[1] = (void*)fb_destruct; push(args, make_instance(New, 2, two, (uint32_t)(has[FB_CONSTRUCT] | has[FB_DESTRUCT] << 1))); }
  if (decl_copy) { two[0] = (void*)fb_copy; push(args, make_instance(Copy, 1, two, (uint32_t)has[FB_COPY])); }
  if (decl_assign) { two[0] = (void*)fb_assign; push(args, make_instance(Assign, 1, two, (uint32_t)has[FB_ASSIGN])); }
  if (decl_swap) { two[0] = (void*)fb_swap; push(args, make_instance(Swap, 1, two, (uint32_t)has[FB_SWAP])); }
  if (decl_cmp) { two[0] = (void*)fb_cmp; push(args, make_instance(Cmp, 1, two, (uint32_t)has[FB_CMP])); }
  if (decl_hash) { two[0] = (void*)fb_hash; push(args, make_instance(Hash, 1, two, (uint32_t)has[FB_HASH])); }
  if (decl_show) { two[0] = (void*)fb_show; two[1] = (void*)fb_look; push(args, make_instance(Show, 2, two, (uint32_t)(has[FB_SHOW] | has[FB_LOOK] << 1))); }
  if (decl_size) { two[0] = (void*)fb_size; push(args, make_instance(Size, 1, two, (uint32_t)has[FB_SIZE])); }
  int decl_alloc = vh_chance(r, 45), has_alloc = decl_alloc && vh_chance(r, 50), has_dealloc = decl_alloc && vh_chance(r, 50);
  if (decl_alloc) { two[0] = (void*)fb_alloc; two[1] = (void*)fb_dealloc; push(args, make_instance(Alloc, 2, two, (uint32_t)(has_alloc | has_dealloc << 1))); vh_count("fallback_types_declaring_alloc"); if (has_alloc != has_dealloc) { vh_count("fallback_types_overriding_half_of_alloc"); } }
  var exc = NULL, type = NULL;
  VH_CATCH(type = new_root_with(Type, args), exc);
  fb_cur_type = type;
  vh_op("fallback type: New%d(%d%d) Copy%d(%d) Assign%d(%d) Swap%d(%d) Cmp%d(%d) Hash%d(%d) Show%d(%d%d) Size%d(%d)", decl_new, has[0], has[1], decl_copy, has[2],
    decl_assign, has[3], decl_swap, has[4], decl_cmp, has[5], decl_hash, has[6], decl_show, has[7], has[8], decl_size, has[9]);
  if (exc || !type) { vh_violation(K("runtime-type:construction-raised"), "new(Type, ...) raised %s", vh_exc_name(exc)); return; }
  long before[FB_N];
  #define SNAP() do { for (int q = 0; q < FB_N; q++) { before[q] = fb_calls[q]; } } while (0)
  /* construction with no argument */
  volatile var a = NULL, b = NULL, c = NULL;
  long a0 = fb_allocs, d0 = fb_deallocs;
  SNAP(); VH_CATCH(a = new_raw_with(type, tuple()), exc); fb_expect(before, FB_CONSTRUCT, has[FB_CONSTRUCT], exc, "new_raw (no argument)");
  fb_expect_alloc(a0, d0, has_alloc, 0, "new_raw");
  SNAP(); VH_CATCH(b = new_raw_with(type, tuple()), exc); fb_expect(before, FB_CONSTRUCT, has[FB_CONSTRUCT], exc, "new_raw (no argument)");
  { long a1 = fb_allocs, d1 = fb_deallocs; var t = NULL; VH_CATCH(t = alloc_raw(type), exc); fb_expect_alloc(a1, d1, has_alloc, 0, "alloc_raw");
    if (t) { a1 = fb_allocs; d1 = fb_deallocs; VH_CATCH(dealloc_raw(t), exc); fb_expect_alloc(a1, d1, 0, has_dealloc, "dealloc_raw"); } }
  if (!a || !b) { return; }
  memset(a, 0x11, 16); memset(b, 0x22, 16);
  /* construction with one argument of the same type: the constructor if there is one, otherwise assignment */
  SNAP(); VH_CATCH(c = new_raw_with(type, tuple(a)), exc);
  if (has[FB_CONSTRUCT]) { fb_expect(before, FB_CONSTRUCT, 1, exc, "new_raw (one argument)"); }
  else {
    fb_expect(before, FB_ASSIGN, has[FB_ASSIGN], exc, "new_raw (one argument, no constructor: assignment)");
    if (!exc && c && memcmp(c, a, 16) != 0) { vh_violation(K("fallback:default-result-wrong"), "an object constructed from one argument without a constructor is not a copy of the argument"); }
  }
  if (c) { SNAP(); VH_CATCH(del_raw(c), exc); fb_expect(before, FB_DESTRUCT, has[FB_DESTRUCT], exc, "del_raw"); c = NULL; }
  /* copy */
  SNAP(); VH_CATCH(c = copy(a), exc);
  fb_expect(before, FB_COPY, has[FB_COPY], exc, "copy");
  if (!has[FB_COPY] && !exc) {
    if (fb_calls[FB_ASSIGN] - before[FB_ASSIGN] != (has[FB_ASSIGN] ? 1 : 0)) { vh_violation(K("fallback:default-copy-does-not-assign-once"), "copy without a Copy member ran the assign stub %ld times", fb_calls[FB_ASSIGN] - before[FB_ASSIGN]); }
  }
  if (!exc && c && memcmp(c, a, 16) != 0) { vh_violation(K("fallback:default-result-wrong"), "copy differs from the original"); }
  if (c && mem(current(GC), c)) { SNAP(); VH_CATCH(del(c), exc); fb_expect(before, FB_DESTRUCT, has[FB_DESTRUCT], exc, "del of the copy"); }
  else if (c) { SNAP(); VH_CATCH(del_raw(c), exc); fb_expect(before, FB_DESTRUCT, has[FB_DESTRUCT], exc, "del_raw of the copy"); }
  /* assign */
  SNAP(); VH_CATCH(assign(b, a), exc); fb_expect(before, FB_ASSIGN, has[FB_ASSIGN], exc, "assign");
  if (!exc && memcmp(b, a, 16) != 0) { vh_violation(K("fallback:default-result-wrong"), "after assign(b, a) the two objects differ"); }
  /* swap */
  memset(b, 0x22, 16);
  SNAP(); VH_CATCH(swap(a, b), exc); fb_expect(before, FB_SWAP, has[FB_SWAP], exc, "swap");
  if (!exc && !has[FB_SWAP] && (*(unsigned char*)a != 0x22 || *(unsigned char*)b != 0x11)) { vh_violation(K("fallback:default-result-wrong"), "default swap did not exchange the two objects"); }
  /* cmp and the predicates derived from it */
  int cr = 7; bool e = false;
  SNAP(); VH_CATCH(cr = cmp(a, b), exc); fb_expect(before, FB_CMP, has[FB_CMP], exc, "cmp");
  if (!exc && !has[FB_CMP] && cr == 0) { vh_violation(K("fallback:default-result-wrong"), "default cmp of two different objects is 0"); }
  SNAP(); VH_CATCH(e = eq(a, a), exc); fb_expect(before, FB_CMP, has[FB_CMP], exc, "eq");
  if (!exc && !e) { vh_violation(K("fallback:default-result-wrong"), "eq(a, a) is false"); }
  /* hash */
  uint64_t h = 0;
  SNAP(); VH_CATCH(h = hash(a), exc); fb_expect(before, FB_HASH, has[FB_HASH], exc, "hash");
  if (!exc && has[FB_HASH] && h != 42) { vh_violation(K("fallback:default-result-wrong"), "hash did not return the declared function's value"); }
  if (!exc && !has[FB_HASH] && h != hash_data(a, 16)) { vh_violation(K("fallback:default-result-wrong"), "default hash is not hash_data over the object"); }
  /* show */
  var out = new(String); int pos = -1;
  SNAP(); VH_CATCH(pos = show_to(a, out, 0), exc); fb_expect(before, FB_SHOW, has[FB_SHOW], exc, "show_to");
  if (!exc && !has[FB_SHOW]) {
    char want[80]; snprintf(want, sizeof want, "<'%s' At 0x%p>", tname, (void*)a);
    if (strcmp(c_str(out), want) != 0 || pos != (int)strlen(want)) { vh_violation(K("fallback:default-result-wrong"), "default show wrote \"%s\" (returned %d), expected \"%s\"", c_str(out), pos, want); }
  }
  /* size */
  size_t sz = 0;
  SNAP(); VH_CATCH(sz = size(type), exc);
  vh_evals(2);
  if (exc || sz != 16) { vh_violation(K("fallback:default-result-wrong"), "size(type) gave %zu / %s", sz, vh_exc_name(exc)); }
  if ((fb_calls[FB_SIZE] - before[FB_SIZE] != 0) != (has[FB_SIZE] != 0)) { vh_violation(K("fallback:something-was-invoked-for-an-empty-member"), "size: stub ran %ld times, member %s", fb_calls[FB_SIZE] - before[FB_SIZE], has[FB_SIZE] ? "filled" : "empty"); }
  /* destruction */
  a0 = fb_allocs; d0 = fb_deallocs;
  SNAP(); VH_CATCH(del_raw(a), exc); fb_expect(before, FB_DESTRUCT, has[FB_DESTRUCT], exc, "del_raw");
  fb_expect_alloc(a0, d0, 0, has_dealloc, "del_raw");
  SNAP(); VH_CATCH(del_raw(b), exc); fb_expect(before, FB_DESTRUCT, has[FB_DESTRUCT], exc, "del_raw");
  #undef SNAP
  vh_count("fallback_types");
}


/* two different type objects may carry the same name (a run-time type named like a built-in, two run-time types
   created with one name): they are still different types -- a cast from one to the other raises ValueError, and
   each answers lookups with its own instances */
static void same_name_types(vh_rng* r) {
  static const char* NM[] = { "Int", "String", "Array", "Point", "Len", "KeyError" };
  const char* nm = NM[vh_below(r, 6)];
  static void* one[1] = { (void*)stub0 };
  var ia = make_instance(Len, 1, one, 1), ib = make_instance(Len, 1, one, 1);
  var A = new_root(Type, $S(strdup(nm)), $I(16), ia);
  var B = new_root(Type, $S(strdup(nm)), $I(16), ib, make_instance(Hash, 1, one, 1));
  var pairs[3][2] = { { A, B }, { B, A }, { A, NULL } };
  var builtin = NULL;
  for (int i = 0; i < NBUILTIN; i++) { if (strcmp(raw_name(*BUILTIN_TYPES[i]), nm) == 0) { builtin = *BUILTIN_TYPES[i]; } }
  for (int i = 0; i < NCLASSES; i++) { if (strcmp(CLASSES[i].name, nm) == 0) { builtin = *CLASSES[i].cls; } }
  pairs[2][1] = builtin;
  vh_op("two run-time types named \"%s\"%s: casts and lookups", nm, builtin ? " (and the built-in of that name)" : "");
  for (int k = 0; k < 3; k++) {
    var from = pairs[k][0], to = pairs[k][1];
    if (to == NULL) { continue; }
    char buf[sizeof(struct Header) + 64]; memset(buf, 0, sizeof buf);
    var obj = fake_object(from, buf);
    var exc = NULL, res = NULL;
    vh_evals(2);
    VH_CATCH(res = cast(obj, from), exc);
    if (exc || res != obj) { vh_violation(K("cast:to-own-type-failed"), "cast of an object of a type named %s to that very type gave %s", nm, vh_exc_name(exc)); }
    VH_CATCH(res = cast(obj, to), exc);
    if (exc != ValueError) { vh_violation(K("cast:to-another-type-with-the-same-name-did-not-raise-valueerror"), "cast of an object of one type named \"%s\" to a DIFFERENT type object of the same name gave %s", nm, vh_exc_name(exc)); }
    if (to != builtin) {
      VH_CATCH(res = cast(fake_object(to, buf), from), exc);
      if (exc != ValueError) { vh_violation(K("cast:to-another-type-with-the-same-name-did-not-raise-valueerror"), "reverse cast between two types named \"%s\" gave %s", nm, vh_exc_name(exc)); }
    }
  }
  vh_evals(4);
  if (type_instance(A, Len) != ia || type_instance(B, Len) != ib) { vh_violation(K("type_instance:wrong-instance"), "two types named \"%s\": a lookup of Len returned the other type's instance", nm); }
  if (type_instance(A, Hash) != NULL || type_instance(B, Hash) == NULL) { vh_violation(K("type_instance:wrong-instance"), "two types named \"%s\": Hash is declared by one of them only", nm); }
  vh_count("same_name_type_pairs");
  del_root(A); del_root(B);
}


/* a statically declared type object is itself an object of type Type, but its header says so only after the first
   type_of on it (the Cello() macro cannot name Type in a constant initialiser).  With that field put back to its
   initial NULL, every lookup API that takes the type object as the RECEIVER must still answer as for any object of
   type Type, whichever API is the first to meet it. */
static void cold_receivers(vh_rng* r) {
  for (int i = 0; i < NBUILTIN + NCLASSES; i++) {
    var T = i < NBUILTIN ? *BUILTIN_TYPES[i] : *CLASSES[i - NBUILTIN].cls;
    if (T == Type) { continue; }
    if ((intptr_t)header(T)->alloc != AllocStatic) { continue; }
    const struct clsinfo* ci = &CLASSES[vh_below(r, NCLASSES)];
    var want = oracle_instance(Type, *ci->cls);
    int api = (int)vh_below(r, 6);
    header(T)->type = NULL;                       /* as at program start */
    var exc = NULL; var got = NULL; bool b = false;
    vh_evals(2);
    switch (api) {
      case 0: VH_CATCH(b = implements(T, *ci->cls), exc); if (!exc && b != (want != NULL)) { vh_violation(K("cold-receiver:implements:wrong-answer"), "implements(%s, %s) = %d on a type object nothing has looked at yet", raw_name(T), ci->name, (int)b); } break;
      case 1: VH_CATCH(got = instance(T, *ci->cls), exc); if (!exc && got != want) { vh_violation(K("cold-receiver:instance:wrong-instance"), "instance(%s, %s) on a cold type object", raw_name(T), ci->name); } break;
      case 2: VH_CATCH(got = type_of(T), exc); if (!exc && got != Type) { vh_violation(K("cold-receiver:type_of:not-Type"), "type_of(%s) is not Type", raw_name(T)); } break;
      case 3: VH_CATCH(b = implements_method_at_offset(T, *ci->cls, 0), exc); if (!exc && b != (want != NULL && ((var*)want)[0] != NULL)) { vh_violation(K("cold-receiver:implements_method:wrong-answer"), "implements_method(%s, %s, member 0) on a cold type object", raw_name(T), ci->name); } break;
      case 4: VH_CATCH(got = cast(T, Type), exc); if (!exc && got != T) { vh_violation(K("cold-receiver:cast:wrong-result"), "cast(%s, Type) on a cold type object", raw_name(T)); } break;
      default: VH_CATCH((void)c_str(T), exc); break;
    }
    if (exc) { vh_violation(K("cold-receiver:raised"), "lookup API %d with the cold type object %s as receiver raised %s", api, raw_name(T), vh_exc_name(exc)); }
    if (header(T)->type == NULL) { (void)type_of(T); }
    vh_count("cold_type_objects_used_as_receivers");
  }
}

/* ---------- concurrency: first lookups against cold caches from 16 threads ---------- */

enum { NTHREADS = 16 };
static pthread_barrier_t bar_start, bar_end;
static volatile int conc_stop;
static volatile long conc_mismatches;
static volatile long conc_method_lookups;
static int conc_types[12]; static int nconc_types;

static void* conc_worker(void* arg) {
  long me = (long)arg;
  for (;;) {
    pthread_barrier_wait(&bar_start);
    if (conc_stop) { break; }
    for (int i = 0; i < nconc_types; i++) {
      var type = TYPES[conc_types[(i + me) % nconc_types]];
      for (int c = 0; c < NCLASSES; c++) {
        var cls = *CLASSES[(c + (int)me * 3) % NCLASSES].cls;
        var want = oracle_instance(type, cls);
        if (type_instance(type, cls) != want) { __sync_fetch_and_add(&conc_mismatches, 1); }
        if (type_implements(type, cls) != (want != NULL)) { __sync_fetch_and_add(&conc_mismatches, 1); }
        if (type_implements_method_at_offset(type, cls, 0) != (want != NULL && ((var*)want)[0] != NULL)) { __sync_fetch_and_add(&conc_mismatches, 1); }
      }
    }
    /* then the checked method lookups, warm, many in a row: every thread keeps asking for ITS OWN (type, class) pairs
       while the others ask for theirs (anything memoised per process rather than per type shows up here) */
    for (int rep = 0; rep < 40; rep++) {
      for (int i = 0; i < nconc_types; i++) {
        var type = TYPES[conc_types[(i + me) % nconc_types]];
        for (int c = 0; c < 6; c++) {
          var cls = *CLASSES[(c * 5 + (int)me) % NCLASSES].cls;
          var want = oracle_instance(type, cls);
          if (want == NULL || ((var*)want)[0] == NULL) { continue; }       /* a failing lookup raises: not from a raw thread */
          if (type_method_at_offset(type, cls, 0, "member") != want) { __sync_fetch_and_add(&conc_mismatches, 1); }
          __sync_fetch_and_add(&conc_method_lookups, 1);
        }
      }
    }
    pthread_barrier_wait(&bar_end);
  }
  return NULL;
}

static void concurrent_cold_lookups(vh_rng* r, int trials) {
  pthread_t th[NTHREADS];
  pthread_barrier_init(&bar_start, NULL, NTHREADS + 1);
  pthread_barrier_init(&bar_end, NULL, NTHREADS + 1);
  conc_stop = 0;
  for (long i = 0; i < NTHREADS; i++) { pthread_create(&th[i], NULL, conc_worker, (void*)i); }
  for (int t = 0; t < trials; t++) {
    nconc_types = 6 + (int)vh_below(r, 6);
    for (int i = 0; i < nconc_types; i++) { conc_types[i] = (int)vh_below(r, (uint64_t)ntypes); reset_caches(TYPES[conc_types[i]]); }
    pthread_barrier_wait(&bar_start);
    pthread_barrier_wait(&bar_end);
    vh_count("concurrent_cold_start_trials");
  }
  conc_stop = 1;
  pthread_barrier_wait(&bar_start);
  for (int i = 0; i < NTHREADS; i++) { pthread_join(th[i], NULL); }
  pthread_barrier_destroy(&bar_start); pthread_barrier_destroy(&bar_end);
  vh_evals(trials);
  vh_count_n("concurrent_warm_method_lookups", (uint64_t)conc_method_lookups); conc_method_lookups = 0;
  if (conc_mismatches) { vh_violation(K("concurrent:wrong-instance-from-a-cold-cache"), "%ld lookups from 16 threads against cold caches returned the wrong instance", conc_mismatches); conc_mismatches = 0; }
}

/* ---------- driver ---------- */

static void full_matrix(const char* phase, int reverse) {
  for (int i = 0; i < ntypes; i++) {
    int ti = reverse ? ntypes - 1 - i : i;
    for (int c = 0; c < NCLASSES; c++) {
      int ci = reverse ? NCLASSES - 1 - c : c;
      check_cell(TYPES[ti], &CLASSES[ci], phase, 0);
    }
  }
}

static void fixed(void) {
  vh_op("full matrix: %d type objects x %d classes x all members; cold, warm, reverse", ntypes, NCLASSES);
  for (int i = 0; i < ntypes; i++) { reset_caches(TYPES[i]); }
  full_matrix("cold", 0);
  full_matrix("warm", 0);
  for (int i = 0; i < ntypes; i++) { reset_caches(TYPES[i]); }
  full_matrix("cold-reverse", 1);
  for (int i = 0; i < ntypes; i++) { check_cast(TYPES[i], TYPES[(i + 7) % ntypes]); }
  vh_count_n("type_objects_in_matrix", (uint64_t)ntypes);
  /* no built-in type declares a near-name class */
  for (int i = 0; i < ntypes; i++) { reset_caches(TYPES[i]); }
  for (int i = 0; i < ntypes; i++) { for (int k = 0; k < nnear; k++) { check_absent(TYPES[i], NEAR[k], "near-name"); } }
  /* the tuple terminator used as the type of a failing lookup (repaired defect, see KNOWN_FINDINGS.txt) */
  {
    var exc;
    vh.oplen = 0; vh.oplog[0] = 0; vh.nops = 0;
    vh_op("type_method(Terminal, Len, len)");
    for (int c = 0; c < NCLASSES; c++) { check_cell(Terminal, &CLASSES[c], "Terminal", 0); }
    VH_CATCH(type_method_at_offset(Terminal, Len, 0, "len"), exc);
    vh_eval();
    if (exc != ClassError) { vh_violation("C08:Terminal-as-type:failed-lookup-raises-the-wrong-exception", "type_method(Terminal, Len, len) gave %s instead of ClassError", vh_exc_name(exc)); }
    vh_count("terminal_reproducer_runs");
  }
  /* instance-count boundaries */
  vh_rng r; vh_rng_seed(&r, 808);
  static const int NI[] = { 0, 1, 2, 15, 16, 17, 100, 255, 256 };
  for (size_t i = 0; i < sizeof NI / sizeof NI[0]; i++) { vh.oplen = 0; vh.oplog[0] = 0; vh.nops = 0; runtime_type_case(&r, NI[i]); }
  /* 257 instances must raise, not overflow the record */
  {
    var args = new(Tuple);
    push(args, $S("TooMany")); push(args, $I(8));
    static void* two[2] = { (void*)stub0, (void*)stub1 };
    for (int i = 0; i < 257; i++) { push(args, make_instance(SYN[i], 2, two, 3)); }
    var exc = NULL;
    VH_CATCH((void)new_root_with(Type, args), exc);
    vh.oplen = 0; vh.oplog[0] = 0; vh.nops = 0;
    vh_op("new(Type, ...) with 257 instances");
    vh_eval();
    if (exc == NULL) { vh_violation("C08:runtime-type:257-instances-accepted", "a type with 257 instances was constructed without an exception"); }
    vh_count("oversized_type_attempts");
  }
  for (int k = 0; k < 40; k++) { vh.oplen = 0; vh.oplog[0] = 0; vh.nops = 0; fallback_case(&r); }
  for (int k = 0; k < 60; k++) { vh.oplen = 0; vh.oplog[0] = 0; vh.nops = 0; foreach_case(&r); }
  for (int k = 0; k < 24; k++) { vh.oplen = 0; vh.oplog[0] = 0; vh.nops = 0; same_name_types(&r); }
  for (int k = 0; k < 12; k++) { vh.oplen = 0; vh.oplog[0] = 0; vh.nops = 0; vh_op("cold type objects as receivers, round %d", k); cold_receivers(&r); }
  concurrent_cold_lookups(&r, 50);
}

static void case_random(vh_rng* r, long index) {
  /* random lookup history across types, against cold or warm caches */
  if (index % 3 == 0) {
    int ni = vh_chance(r, 20) ? 200 + (int)vh_below(r, 57) : (int)vh_below(r, 40);
    runtime_type_case(r, ni);
    for (int k = 0; k < 4; k++) { fallback_case(r); }
    for (int k = 0; k < 4; k++) { foreach_case(r); }
    same_name_types(r);
    cold_receivers(r);
  } else if (index % 3 == 1) {
    int n = 200 + (int)vh_below(r, 400);
    int cold = vh_chance(r, 50);
    if (cold) { for (int i = 0; i < ntypes; i++) { reset_caches(TYPES[i]); } }
    vh_op("history of %d random lookups, %s", n, cold ? "cold" : "warm");
    for (int k = 0; k < n; k++) {
      check_cell(TYPES[vh_below(r, (uint64_t)ntypes)], &CLASSES[vh_below(r, NCLASSES)], cold ? "random-cold" : "random-warm", 0);
      if (vh_chance(r, 3)) { reset_caches(TYPES[vh_below(r, (uint64_t)ntypes)]); }
    }
    vh_count("random_lookup_histories");
  } else {
    vh_op("16 threads, cold caches, %d trials", vh.thorough ? 40 : 10);
    concurrent_cold_lookups(r, vh.thorough ? 40 : 10);
  }
  vh_nontrivial();
}

int main(int argc, char** argv) {
  for (int i = 0; i < NBUILTIN; i++) { TYPES[ntypes++] = *BUILTIN_TYPES[i]; }
  for (int i = 0; i < NCLASSES; i++) { TYPES[ntypes++] = *CLASSES[i].cls; }
  for (int i = 0; i < 300; i++) {
    char nm[24]; snprintf(nm, sizeof nm, "Syn%d", i);
    SYN[nsyn++] = new_root(Type, $S(strdup(nm)), $I(16));
  }
  for (int i = 0; i < NCLASSES; i++) {
    char nm[3][40]; size_t n = strlen(CLASSES[i].name);
    snprintf(nm[0], sizeof nm[0], "%sX", CLASSES[i].name);
    snprintf(nm[1], sizeof nm[1], "%.*s", (int)(n - 1), CLASSES[i].name);
    snprintf(nm[2], sizeof nm[2], "%s", CLASSES[i].name);
    for (char* c = nm[2]; *c; c++) { *c = (char)tolower((unsigned char)*c); }
    for (int v = 0; v < 3; v++) {
      int clash = strlen(nm[v]) == 0;
      for (int j = 0; j < NCLASSES; j++) { if (strcmp(nm[v], CLASSES[j].name) == 0) { clash = 1; } }
      for (int j = 0; j < nnear; j++) { if (strcmp(nm[v], raw_name(NEAR[j])) == 0) { clash = 1; } }
      if (!clash) { NEAR[nnear++] = new_root(Type, $S(strdup(nm[v])), $I(16)); }
    }
  }
  return vh_run(argc, argv, "dispatch", fixed, case_random);
}
