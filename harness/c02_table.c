/*
** C02 -- Table behaves as a finite map whatever the hashing does.
**
** Reference: association list (present[] / val[] over a key universe).  After EVERY operation:
** len, mem/get of every universe key, KeyError on absent keys, iteration = key set without repeats,
** get(iteration key) short-cut; white-box slot invariants (unity include of Table.c gives the
** real struct; all derived quantities are recomputed here).
*/
#include "probes.h"
#include "Table.c"

enum { MAXU = 3400 };

/* product of the table sizes 5..1259: k*M collides at slot 0, k*M-1 at the last slot, at every size */
static const int64_t M_ALL = 5LL*11*23*53*101*197*389*683*1259;
static const int64_t M_389 = 5LL*11*23*53*101*197*389;

enum { KM_INT_DENSE, KM_INT_COLLIDE0, KM_INT_WRAP, KM_INT_RANDOM, KM_STR, KM_STR_COLLIDE, KM_PE_SAME, KM_PE_TWO,
       KM_PE_WRAP, KM_PE_IDENT, KM_PLAIN12, KM_COUNT };
static const char* KMNAME[KM_COUNT] = { "int-dense", "int-collide-slot0", "int-collide-last-slot", "int-random", "str",
  "str-collide", "pelem-one-hash", "pelem-two-hashes", "pelem-last-slot-hash", "pelem-identity-hash", "plain12-default-hash" };

static int kmode, U;
static var K[MAXU];              /* key objects (raw allocations, outside the collector) */
static int64_t kint[MAXU];       /* Int key values */
static char kstr[MAXU][24];      /* String key values */
static int present[MAXU];
static int64_t val[MAXU];
static int nmodel;
static int64_t version;

static int is_int_mode(void) { return kmode <= KM_INT_RANDOM; }
static int is_str_mode(void) { return kmode == KM_STR || kmode == KM_STR_COLLIDE; }

/* KM_PLAIN12: a plain 12-byte key type without any instance: the Table hashes and compares it with the byte-wise
   defaults over exactly 12 bytes.  Each harness key lives in a block with 4 more bytes behind it, which are
   re-randomised before every operation: what lies behind a key must never matter. */
static var Plain12;
static int plain_idx_off;        /* where a Plain12 key carries its index: in its first or in its last four bytes */
static int is_pe_mode(void) { return kmode >= KM_PE_SAME && kmode <= KM_PE_IDENT; }
static var key_type_of_mode(void) { return is_int_mode() ? Int : is_str_mode() ? String : kmode == KM_PLAIN12 ? Plain12 : PElem; }
static void scramble_tails(vh_rng* r) {
  for (int i = 0; i < U; i++) { uint32_t t = (uint32_t)vh_next(r) | 1u; memcpy((char*)K[i] + 12, &t, 4); }
}

static int key_to_id(var k) {
  if (kmode == KM_INT_DENSE) {
    int64_t v = ((struct Int*)k)->val;
    return (v >= 0 && v < U) ? (int)v : -1;
  }
  for (int i = 0; i < U; i++) {
    if (is_int_mode()) { if (((struct Int*)k)->val == kint[i]) { return i; } }
    else if (is_str_mode()) { if (strcmp(((struct String*)k)->val, kstr[i]) == 0) { return i; } }
    else if (kmode == KM_PLAIN12) { int32_t idx; memcpy(&idx, (char*)k + plain_idx_off, 4); return (idx >= 0 && idx < U) ? (int)idx : -1; }
    else { if (((struct PElem*)k)->id == i) { return i; } }
  }
  return -1;
}

static void make_keys(vh_rng* r) {
  int64_t mult = (U <= 20) ? M_ALL : M_389;
  uint64_t target = 0, p = 0;
  if (kmode == KM_PLAIN12) { plain_idx_off = vh_chance(r, 50) ? 8 : 0; if (plain_idx_off) { vh_count("plain_key_cases_with_keys_sharing_their_first_word"); } }
  if (kmode == KM_STR_COLLIDE) {
    static const uint64_t P[] = { 5, 11, 23, 53 };
    p = P[vh_below(r, 4)]; target = vh_below(r, p);
  }
  int64_t serial = 0;
  for (int i = 0; i < U; i++) {
    switch (kmode) {
      case KM_INT_DENSE: kint[i] = i; break;
      case KM_INT_COLLIDE0: kint[i] = (int64_t)i * mult; break;
      case KM_INT_WRAP: kint[i] = (int64_t)(i + 1) * mult - 1; break;
      case KM_INT_RANDOM: {
        for (;;) {
          kint[i] = vh_chance(r, 50) ? (int64_t)vh_next(r) : vh_range(r, -50, 50);
          int dup = 0;
          for (int j = 0; j < i; j++) { if (kint[j] == kint[i]) { dup = 1; } }
          if (!dup) { break; }
        }
        break;
      }
      case KM_STR: snprintf(kstr[i], sizeof kstr[i], "key-%d", i); break;
      case KM_STR_COLLIDE:
        for (;;) {
          snprintf(kstr[i], sizeof kstr[i], "c%" PRId64, serial++);
          if (hash_data(kstr[i], strlen(kstr[i])) % p == target) { break; }
        }
        break;
      default: break;
    }
    if (is_int_mode()) { K[i] = new_raw(Int, $I(kint[i])); }
    else if (is_str_mode()) { K[i] = new_raw(String, $S(kstr[i])); }
    else if (kmode == KM_PLAIN12) {
      char* blk = calloc(1, sizeof(struct Header) + 16);
      K[i] = header_init(blk, Plain12, AllocHeap);
      int32_t idx = i;
      if (plain_idx_off == 0) {
        memcpy(K[i], &idx, 4);
        for (int b = 4; b < 12; b++) { ((unsigned char*)K[i])[b] = (unsigned char)(i * 31 + b * 7); }
      } else {
        /* every key starts with the same eight bytes: only the last four tell them apart */
        memset(K[i], 0x5a, 8); memcpy((char*)K[i] + 8, &idx, 4);
      }
    }
    else {
      uint64_t h = 0;
      switch (kmode) {
        case KM_PE_SAME: h = 7; break;
        case KM_PE_TWO: h = (i % 2) ? 3 : 0; break;
        case KM_PE_WRAP: h = (uint64_t)M_ALL - 1; break;
        default: h = (uint64_t)i; break;
      }
      K[i] = new_raw(PElem, $I(i), $I((int64_t)h));
    }
  }
}

static void free_keys(void) {
  for (int i = 0; i < U; i++) { if (kmode == KM_PLAIN12) { free((char*)K[i] - sizeof(struct Header)); } else { del_raw(K[i]); } K[i] = NULL; }
}

/* ---------- white-box walker (reads only) ---------- */

static size_t wb_step(struct Table* t) {
  return sizeof(uint64_t) + sizeof(struct Header) + t->ksize + sizeof(struct Header) + t->vsize;
}
static uint64_t wb_stored(struct Table* t, size_t i) { uint64_t h; memcpy(&h, (char*)t->data + i * wb_step(t), 8); return h; }
static var wb_key(struct Table* t, size_t i) { return (char*)t->data + i * wb_step(t) + 8 + sizeof(struct Header); }

static size_t seen_sizes[64]; static int nseen_sizes;
static void note_size(size_t n) {
  for (int i = 0; i < nseen_sizes; i++) { if (seen_sizes[i] == n) { return; } }
  if (nseen_sizes < 64) { seen_sizes[nseen_sizes++] = n; vh_count("distinct_slot_counts_seen"); }
}

static void whitebox(var table, const char* after) {
  struct Table* t = table;
  vh_evals(4);
  if (t->nslots == 0) {
    if (t->nitems != 0) { vh_violation("C02:whitebox:items-without-slots", "nitems=%zu with nslots=0 after %s", t->nitems, after); }
    return;
  }
  note_size(t->nslots);
  if (t->nitems >= t->nslots) {
    vh_violation("C02:whitebox:no-empty-slot", "nitems=%zu nslots=%zu after %s (probing cannot terminate)", t->nitems, t->nslots, after);
  }
  size_t occupied = 0;
  for (size_t i = 0; i < t->nslots; i++) {
    uint64_t h = wb_stored(t, i);
    if (h == 0) { continue; }
    occupied++;
    uint64_t home = hash(wb_key(t, i)) % t->nslots;
    if (h - 1 != home) {
      vh_violation("C02:whitebox:stored-home-wrong", "slot %zu stores home %" PRIu64 " but hash%%nslots is %" PRIu64 " after %s", i, h - 1, home, after);
      continue;
    }
    uint64_t d = (i + t->nslots - home) % t->nslots;
    if (i < home) { vh_count("wrapped_entries_observed"); }
    if (d > 0) {
      size_t prev = (i + t->nslots - 1) % t->nslots;
      uint64_t ph = wb_stored(t, prev);
      if (ph == 0) {
        vh_violation("C02:whitebox:gap-before-displaced-entry", "slot %zu is at distance %" PRIu64 " but slot %zu is empty after %s", i, d, prev, after);
      } else {
        uint64_t pd = (prev + t->nslots - (ph - 1)) % t->nslots;
        if (pd + 1 < d) {
          vh_violation("C02:whitebox:probe-order", "slot %zu at distance %" PRIu64 " follows slot %zu at distance %" PRIu64 " after %s", i, d, prev, pd, after);
        }
      }
    }
  }
  if (occupied != t->nitems) {
    vh_violation("C02:whitebox:occupied-count", "%zu occupied slots but nitems=%zu after %s", occupied, t->nitems, after);
  }
}

/* distance of key id from its home slot, -1 if absent (white-box) */
static int64_t wb_distance_of(var table, int id) {
  struct Table* t = table;
  for (size_t i = 0; i < t->nslots; i++) {
    if (wb_stored(t, i) == 0) { continue; }
    if (key_to_id(wb_key(t, i)) == id) {
      uint64_t home = wb_stored(t, i) - 1;
      return (int64_t)((i + t->nslots - home) % t->nslots);
    }
  }
  return -1;
}

/* number of entries that a removal of key id will shift back (white-box, before the removal) */
static int wb_backshift_len(var table, int id) {
  struct Table* t = table;
  for (size_t i = 0; i < t->nslots; i++) {
    if (wb_stored(t, i) == 0 || key_to_id(wb_key(t, i)) != id) { continue; }
    int n = 0;
    size_t j = (i + 1) % t->nslots;
    while (wb_stored(t, j) != 0 && (j + t->nslots - (wb_stored(t, j) - 1)) % t->nslots > 0 && n < (int)t->nslots) { n++; j = (j + 1) % t->nslots; }
    return n;
  }
  return 0;
}

/* ---------- behavioural oracle ---------- */

/* value kinds: 0 Int, 1 String, 2 a plain 40-byte record (wider than every key type but the probe): v, ~v, 3v and padding */
struct Wide40 { int64_t v, nv, v3; char pad[16]; };
static var Wide40;
static int64_t value_of(var v, int strvals) {
  if (strvals == 1) { return strtoll(((struct String*)v)->val + 1, NULL, 10); }
  if (strvals == 2) {
    struct Wide40* w = v;
    if (w->nv != ~w->v || w->v3 != (int64_t)((uint64_t)w->v * 3) || w->pad[0] != 'p' || w->pad[15] != 'q') { return INT64_MIN + 40; }   /* torn */
    return w->v;
  }
  return ((struct Int*)v)->val;
}

static int seen[MAXU];
static int last_id = -1;

static void check_against(var table, const int* pres, const int64_t* vals, int n, int strvals, const char* after, const char* who) {
  char key[96];
  #define KEY(s) (snprintf(key, sizeof key, "C02:%s:%s", who, s), key)
  vh_eval();
  if (len(table) != (size_t)n) { vh_violation(KEY("len-mismatch"), "len=%zu reference=%d after %s", len(table), n, after); }
  /* full universe for small universes; for big ones a rotating window of 128 keys per call (the whole
     universe is covered every U/128 operations) plus the key last operated on */
  static int window;
  int lo = 0, hi = U;
  if (U > 500) { window = (window + 128) % U; lo = window; hi = window + 128 < U ? window + 128 : U; }
  for (int i0 = lo - 1; i0 < hi; i0++) {
    int i = i0 < lo ? (last_id >= 0 && last_id < U ? last_id : lo) : i0;
    var exc = NULL;
    bool m = false;
    vh_evals(2);
    VH_CATCH(m = mem(table, K[i]), exc);
    if (exc) { vh_violation(KEY("mem-raised"), "mem(key %d) raised %s after %s", i, vh_exc_name(exc), after); continue; }
    if (m != (pres[i] != 0)) {
      vh_violation(KEY(pres[i] ? "bound-key-not-found" : "unbound-key-found"), "mem(key %d)=%d reference=%d after %s", i, (int)m, pres[i], after);
      continue;
    }
    var got = NULL;
    VH_CATCH(got = get(table, K[i]), exc);
    if (pres[i]) {
      if (exc) { vh_violation(KEY("get-raised-for-bound-key"), "get(key %d) raised %s after %s", i, vh_exc_name(exc), after); }
      else if (value_of(got, strvals) != vals[i]) {
        vh_violation(KEY("wrong-value"), "get(key %d)=%" PRId64 " reference=%" PRId64 " after %s", i, value_of(got, strvals), vals[i], after);
      }
    } else if (exc != KeyError) {
      vh_violation(KEY("get-absent-no-keyerror"), "get(absent key %d) gave %s after %s", i, vh_exc_name(exc), after);
    }
  }
  /* iteration: every key exactly once, step-bounded */
  memset(seen, 0, sizeof(int) * (size_t)U);
  size_t steps = 0, limit = (size_t)n + 2;
  var it = iter_init(table);
  while (it != Terminal && steps <= limit) {
    steps++;
    int id = key_to_id(it);
    vh_evals(2);
    if (id < 0) { vh_violation(KEY("iteration-unknown-key"), "iteration step %zu yields a key outside the universe after %s", steps, after); break; }
    if (seen[id]++) { vh_violation(KEY("iteration-repeats-key"), "iteration yields key %d twice after %s", id, after); break; }
    if (!pres[id]) { vh_violation(KEY("iteration-yields-unbound-key"), "iteration yields key %d which is not bound after %s", id, after); }
    else {
      var v = get(table, it);   /* pointer short-cut */
      if (value_of(v, strvals) != vals[id]) {
        vh_violation(KEY("wrong-value-via-iteration-key"), "get(iteration key %d)=%" PRId64 " reference=%" PRId64 " after %s", id, value_of(v, strvals), vals[id], after);
      }
    }
    it = iter_next(table, it);
  }
  if (steps > limit) { vh_violation(KEY("iteration-does-not-end"), "more than len+2 steps after %s", after); }
  else if (steps != (size_t)n) { vh_violation(KEY("iteration-count"), "iteration yields %zu keys, reference %d after %s", steps, n, after); }
  /* and from the other end: the walk from iter_last through iter_prev yields every key exactly once as well */
  memset(seen, 0, sizeof(int) * (size_t)U);
  steps = 0;
  it = iter_last(table);
  while (it != Terminal && steps <= limit) {
    steps++;
    int id = key_to_id(it);
    vh_eval();
    if (id < 0) { vh_violation(KEY("backward-iteration-unknown-key"), "backward iteration step %zu yields a key outside the universe after %s", steps, after); break; }
    if (seen[id]++) { vh_violation(KEY("backward-iteration-repeats-key"), "backward iteration yields key %d twice after %s", id, after); break; }
    if (!pres[id]) { vh_violation(KEY("backward-iteration-yields-unbound-key"), "backward iteration yields key %d which is not bound after %s", id, after); }
    it = iter_prev(table, it);
  }
  if (steps > limit) { vh_violation(KEY("backward-iteration-does-not-end"), "more than len+2 backward steps after %s", after); }
  else if (steps != (size_t)n) { vh_violation(KEY("backward-iteration-count"), "backward iteration yields %zu keys, reference %d after %s", steps, n, after); }
  if (n == 1) { struct Table* tb = table; if (tb->nslots > 0 && Table_Key_Hash(tb, 0) != 0) { vh_count("single_entry_tables_with_the_entry_in_slot_0"); } }
  #undef KEY
}

static void set_val(var table, int id, int64_t v, int strvals) {
  if (strvals == 1) { char b[32]; snprintf(b, sizeof b, "v%" PRId64, v); set(table, K[id], $S(b)); }
  else if (strvals == 2) {
    char buf[sizeof(struct Header) + sizeof(struct Wide40)];
    struct Wide40* w = header_init(buf, Wide40, AllocStack);
    memset(w, 0, sizeof *w); w->v = v; w->nv = ~v; w->v3 = (int64_t)((uint64_t)v * 3); w->pad[0] = 'p'; w->pad[15] = 'q';
    set(table, K[id], w);
  }
  else { set(table, K[id], $I(v)); }
}

/* ---------- one case ---------- */

static int pick_present(vh_rng* r) {
  if (nmodel == 0) { return -1; }
  int start = (int)vh_below(r, (uint64_t)U);
  for (int i = 0; i < U; i++) { int id = (start + i) % U; if (present[id]) { return id; } }
  return -1;
}
static int pick_absent(vh_rng* r) {
  if (nmodel == U) { return -1; }
  int start = (int)vh_below(r, (uint64_t)U);
  for (int i = 0; i < U; i++) { int id = (start + i) % U; if (!present[id]) { return id; } }
  return -1;
}

static void run_table_case(vh_rng* r, int mode, int universe, int nops, int sweep) {
  kmode = mode; U = universe;
  int64_t live0 = pe.live;
  make_keys(r);
  memset(present, 0, sizeof present); nmodel = 0; version = 0;
  int strvals = is_str_mode() ? 1 : vh_chance(r, 35) ? 2 : 0;
  var ktype = key_type_of_mode();
  var vtype = strvals == 1 ? String : strvals == 2 ? Wide40 : Int;
  if (strvals == 2) { vh_count("tables_with_values_wider_than_keys"); }
  var t = new_with(Table, tuple(ktype, vtype));
  char opd[128];
  int after_resize0 = 0;
  int events = 0;
  vh_op("table<%s> U=%d ops=%d%s", KMNAME[mode], U, nops, sweep ? " sweep" : "");
  whitebox(t, "construction");
  for (int op = 0; op < nops; op++) {
    /* sweep: grow to U, then drain to 0, then regrow */
    int phase = sweep ? (op * 3) / nops : -1;
    int wset = phase == 0 ? 70 : phase == 1 ? 15 : phase == 2 ? 60 : 45;
    int roll = (int)vh_below(r, 100);
    if (kmode == KM_PLAIN12) { scramble_tails(r); }
    size_t slots_before = ((struct Table*)t)->nslots;
    var exc = NULL;
    if (roll < wset) {
      int id = vh_chance(r, 30) && nmodel ? pick_present(r) : pick_absent(r);
      if (id < 0) { id = (int)vh_below(r, (uint64_t)U); }
      int64_t v = ++version;
      if (present[id]) {
        int64_t d = wb_distance_of(t, id);
        if (d > 0) { vh_count("updates_of_displaced_key"); events++; }
        vh_count("set_update");
      } else { vh_count("set_fresh"); }
      if (after_resize0) { vh_count("set_after_resize0"); after_resize0 = 0; events++; }
      last_id = id;
      snprintf(opd, sizeof opd, "set(k%d,%" PRId64 ")", id, v);
      vh_op("%s", opd);
      VH_CATCH(set_val(t, id, v, strvals), exc);
      if (exc) { vh_violation("C02:model:set-raised", "%s raised %s", opd, vh_exc_name(exc)); }
      if (!present[id]) { present[id] = 1; nmodel++; }
      val[id] = v;
    } else if (roll < wset + 22) {
      int id = pick_present(r);
      if (id < 0) { continue; }
      int bs = wb_backshift_len(t, id);
      if (bs >= 2) { vh_count("removals_shifting_back_2_or_more"); events++; }
      last_id = id;
      snprintf(opd, sizeof opd, "rem(k%d)", id);
      vh_op("%s", opd);
      VH_CATCH(rem(t, K[id]), exc);
      if (exc) { vh_violation("C02:model:rem-raised-for-bound-key", "%s raised %s", opd, vh_exc_name(exc)); }
      present[id] = 0; nmodel--;
      after_resize0 = 0;
      vh_count("rem_present");
    } else if (roll < wset + 28) {
      int id = pick_absent(r);
      if (id < 0) { continue; }
      snprintf(opd, sizeof opd, "rem(absent k%d)", id);
      vh_op("%s", opd);
      VH_CATCH(rem(t, K[id]), exc);
      vh_eval();
      if (exc != KeyError) { vh_violation("C02:model:rem-absent-no-keyerror", "%s gave %s", opd, vh_exc_name(exc)); }
      vh_count("rem_absent");
    } else if (roll < wset + 33) {
      size_t n = (size_t)nmodel + vh_below(r, (uint64_t)(U + 8));
      if (n == 0) { n = 1; }
      snprintf(opd, sizeof opd, "resize(%zu)", n);
      vh_op("%s", opd);
      VH_CATCH(resize(t, n), exc);
      if (exc) { vh_violation("C02:model:resize-raised", "%s raised %s", opd, vh_exc_name(exc)); }
      after_resize0 = 0;
      vh_count("resize_reserve");
    } else if (roll < wset + 37) {
      snprintf(opd, sizeof opd, "resize(0)");
      vh_op("%s", opd);
      VH_CATCH(resize(t, 0), exc);
      if (exc) { vh_violation("C02:model:resize-raised", "%s raised %s", opd, vh_exc_name(exc)); }
      memset(present, 0, sizeof(int) * (size_t)U); nmodel = 0;
      after_resize0 = 1;
      vh_count("resize_0");
    } else if (roll < wset + 42) {
      /* assign from another Table or from a Tree holding a random sub-map */
      int from_tree = vh_chance(r, 40);
      var src = new_with(from_tree ? Tree : Table, tuple(ktype, vtype));
      static int p2[MAXU]; static int64_t v2[MAXU];
      int n2 = 0;
      memset(p2, 0, sizeof(int) * (size_t)U);
      int want = (int)vh_below(r, (uint64_t)U + 1);
      for (int i = 0; i < want; i++) {
        int id = (int)vh_below(r, (uint64_t)U);
        int64_t v = ++version;
        set_val(src, id, v, strvals);
        if (!p2[id]) { p2[id] = 1; n2++; }
        v2[id] = v;
      }
      snprintf(opd, sizeof opd, "assign(from %s of %d)", from_tree ? "Tree" : "Table", n2);
      vh_op("%s", opd);
      VH_CATCH(assign(t, src), exc);
      if (exc) { vh_violation("C02:model:assign-raised", "%s raised %s", opd, vh_exc_name(exc)); }
      memcpy(present, p2, sizeof(int) * (size_t)U); memcpy(val, v2, sizeof(int64_t) * (size_t)U); nmodel = n2;
      /* the source must be unaffected and independent */
      if (!from_tree) { check_against(src, p2, v2, n2, strvals, opd, "assign-source"); }
      del(src);
      after_resize0 = 0;
      vh_count(from_tree ? "assign_from_tree" : "assign_from_table");
    } else {
      /* copy, then mutate one side */
      snprintf(opd, sizeof opd, "copy+mutate");
      vh_op("%s", opd);
      var c = NULL;
      VH_CATCH(c = copy(t), exc);
      if (exc || c == NULL) { vh_violation("C02:model:copy-raised", "copy raised %s", vh_exc_name(exc)); continue; }
      check_against(c, present, val, nmodel, strvals, "copy", "copy");
      whitebox(c, "copy");
      static int p2[MAXU]; static int64_t v2[MAXU];
      memcpy(p2, present, sizeof(int) * (size_t)U); memcpy(v2, val, sizeof(int64_t) * (size_t)U);
      int n2 = nmodel;
      for (int k = 0; k < 3; k++) {
        int id = (int)vh_below(r, (uint64_t)U);
        if (p2[id] && vh_chance(r, 50)) { rem(c, K[id]); p2[id] = 0; n2--; }
        else { int64_t v = ++version; set_val(c, id, v, strvals); if (!p2[id]) { p2[id] = 1; n2++; } v2[id] = v; }
      }
      check_against(c, p2, v2, n2, strvals, "copy mutated", "copy");
      del(c);
      vh_count("copies");
    }
    size_t slots_after = ((struct Table*)t)->nslots;
    if (slots_after > slots_before) { vh_count("rehash_grow"); }
    if (slots_after < slots_before && slots_after != 0) { vh_count("rehash_shrink"); }
    check_against(t, present, val, nmodel, strvals, opd, "model");
    whitebox(t, opd);
    if (is_pe_mode()) {
      /* PElem keys: live elements == bindings + the U harness-held key objects */
      vh_eval();
      if (pe.live - live0 != (int64_t)nmodel + U) {
        vh_violation("C02:ledger:live-elements-differ-from-bindings", "live probe keys %" PRId64 ", bindings %d + %d harness keys after %s",
          pe.live - live0, nmodel, U, opd);
        live0 = pe.live - nmodel - U;   /* report once per divergence */
      }
    }
  }
  if (events > 0 && nops >= 20) { vh_nontrivial(); }
  del(t);
  free_keys();
  if (is_pe_mode()) {
    vh_eval();
    if (pe.live != live0) { vh_violation("C02:ledger:elements-left-after-delete", "%" PRId64 " probe keys still live after deleting the table", pe.live - live0); }
  }
}

static int big_cases;

/* ---------- one key, two representations: Float keys 0.0 and -0.0 ----------
** Cmp says the two zeros are equal, so they are ONE key: whichever spelling sets, gets, tests or removes it, the
** table holds at most one binding for it -- at every table size (other Float keys grow the table in between). */
static void float_zero_keys(vh_rng* r) {
  var t = new(Table, Float, Int);
  double pz = 0.0, nz = -0.0;
  int others = 0, ok = 1;
  int rounds = 2 + (int)vh_below(r, 5);
  for (int round = 0; round < rounds && ok; round++) {
    int first_neg = (int)vh_below(r, 2);
    int64_t a = vh_range(r, 1, 1000), b = a + 1;
    var exc = NULL;
    VH_CATCH(set(t, $F(first_neg ? nz : pz), $I(a)), exc);
    if (!exc) { VH_CATCH(set(t, $F(first_neg ? pz : nz), $I(b)), exc); }
    vh_evals(6);
    if (exc) { vh_violation("C02:float-zero:raised", "set with a zero key raised %s", vh_exc_name(exc)); break; }
    size_t zeros = 0; foreach (k in t) { if (c_float(k) == 0.0) { zeros++; } }
    if (len(t) != (size_t)others + 1 || zeros != 1) { vh_violation("C02:float-zero:two-bindings-for-one-key", "after set(%s0.0) and set(%s0.0) the table of %d other keys has len %zu and %zu zero keys", first_neg ? "-" : "+", first_neg ? "+" : "-", others, len(t), zeros); ok = 0; break; }
    if (!mem(t, $F(pz)) || !mem(t, $F(nz)) || c_int(get(t, $F(pz))) != b || c_int(get(t, $F(nz))) != b) { vh_violation("C02:float-zero:lookup-depends-on-the-sign-of-zero", "after the second set the two spellings of zero do not both find value %" PRId64, b); ok = 0; break; }
    VH_CATCH(rem(t, $F(vh_chance(r, 50) ? nz : pz)), exc);
    if (exc || mem(t, $F(pz)) || mem(t, $F(nz)) || len(t) != (size_t)others) { vh_violation("C02:float-zero:removed-key-still-found", "after rem of zero: exception %s, mem(+0)=%d mem(-0)=%d len %zu (expected %d)", vh_exc_name(exc), (int)mem(t, $F(pz)), (int)mem(t, $F(nz)), len(t), others); ok = 0; break; }
    VH_CATCH((void)get(t, $F(nz)), exc);
    if (exc != KeyError) { vh_violation("C02:float-zero:get-absent-no-keyerror", "get(-0.0) after its removal gave %s", vh_exc_name(exc)); ok = 0; break; }
    /* grow the table before the next round */
    int add = 1 + (int)vh_below(r, 12);
    for (int i = 0; i < add; i++) { set(t, $F(1.5 + (double)(others++) * 0.25), $I(7)); }
  }
  vh_count("float_tables_with_both_zeros_as_keys");
  del(t);
  /* and the other way round: doubles that differ, however little, are different keys -- also when they share a home
     slot (bit patterns 5 apart collide in the 5-slot table, 55 apart in the 5- and 11-slot tables) */
  {
    var u = new(Table, Float, Int);
    double base = vh_chance(r, 50) ? 0.1 : (double)vh_range(r, 1, 1000) / 7.0;
    uint64_t bits; memcpy(&bits, &base, 8);
    int nk = 3 + (int)vh_below(r, 4); uint64_t stride = vh_chance(r, 50) ? 5 : 55;
    double ks[8];
    for (int i = 0; i < nk; i++) { uint64_t b = bits + stride * (uint64_t)i; memcpy(&ks[i], &b, 8); set(u, $F(ks[i]), $I(100 + i)); }
    vh_evals(3);
    int ok = len(u) == (size_t)nk;
    for (int i = 0; ok && i < nk; i++) { if (!mem(u, $F(ks[i])) || c_int(get(u, $F(ks[i]))) != 100 + i) { ok = 0; } }
    if (!ok) { vh_violation("C02:float-neighbours:distinct-keys-merged", "%d Float keys %" PRIu64 " ulp apart around %.17g: len %zu, or a key finds another key's value", nk, stride, base, len(u)); }
    else {
      var exc = NULL; VH_CATCH(rem(u, $F(ks[0])), exc);
      if (exc || len(u) != (size_t)nk - 1 || mem(u, $F(ks[0])) || !mem(u, $F(ks[1]))) { vh_violation("C02:float-neighbours:distinct-keys-merged", "rem of the first of %d neighbouring Float keys removed something else", nk); }
    }
    vh_count("float_tables_with_neighbouring_keys");
    del(u);
  }
}

/* ---------- a stored value used as a key ----------
** In a Table from Int to Int a value handed out by get is an Int like any other: used as a key it is looked up by
** its number (get and mem agree), wherever in the table's own storage the object happens to live. */
static void stored_value_as_key(vh_rng* r) {
  int n = 1 + (int)vh_below(r, 60);
  var t = new(Table, Int, Int);
  for (int i = 0; i < n; i++) { set(t, $I(i), $I((i + 1) % n)); }
  if (vh_chance(r, 30)) { resize(t, (size_t)n * 3); }
  for (int i = 0; i < n; i++) {
    var v = get(t, $I(i));                       /* the Int (i+1)%n, living inside the table */
    int64_t want = ((i + 1) % n + 1) % n;        /* what key (i+1)%n is bound to */
    var exc = NULL; var got = NULL; bool m = false;
    VH_CATCH(m = mem(t, v), exc);
    if (!exc) { VH_CATCH(got = get(t, v), exc); }
    vh_evals(2);
    if (exc || !m || c_int(got) != want) {
      vh_violation("C02:stored-value-as-key:get-disagrees-with-the-mapping", "Table{i -> (i+1) mod %d}: get(t, get(t, %d)) gave %s%" PRId64 " (mem %d), the mapping says %" PRId64, n, i,
                   exc ? vh_exc_name(exc) : "", exc || !got ? (int64_t)-1 : c_int(got), (int)m, want);
      break;
    }
  }
  /* keys handed out by the iteration still find their own value */
  foreach (k in t) { vh_eval(); if (c_int(get(t, k)) != (c_int(k) + 1) % n) { vh_violation("C02:stored-value-as-key:iteration-key-finds-another-value", "get(t, iteration key %" PRId64 ") is wrong", c_int(k)); break; } }
  vh_count("tables_queried_with_their_own_stored_values");
  del(t);
}

static void case_random(vh_rng* r, long index) {
  float_zero_keys(r);
  stored_value_as_key(r);
  int mode = (int)(index % KM_COUNT);
  int big = vh.thorough && big_cases && (index % 23 == 0);
  int universe, nops, sweep = vh_chance(r, 50);
  if (big) {
    mode = KM_INT_DENSE;
    universe = 600 + (int)vh_below(r, 2700);
    nops = universe * 3;
    sweep = 1;
  } else {
    static const int US[] = { 3, 6, 8, 12, 20, 30, 48, 64, 110, 220, 420 };
    int ui = (int)vh_below(r, vh.thorough ? 11 : 9);
    universe = US[ui];
    if ((mode == KM_INT_COLLIDE0 || mode == KM_INT_WRAP) && vh_chance(r, 50)) { universe = 3 + (int)vh_below(r, 18); }
    nops = 30 + (int)vh_below(r, (uint64_t)(universe * (vh.thorough ? 4 : 3)));
    if (!vh.thorough && nops > 160) { nops = 160; }
    if (universe >= 110 && nops > universe * 2) { nops = universe * 2; }
  }
  run_table_case(r, mode, universe, nops, sweep);
}

/* deterministic scenarios that reach each event class at least once */
static void fixed(void) {
  vh_rng r; vh_rng_seed(&r, 12345);
  /* the defect shape: update of a key whose home slot is held by an equal-distance neighbour */
  kmode = KM_INT_DENSE; U = 8;
  make_keys(&r);
  memset(present, 0, sizeof present); nmodel = 0;
  var t = new(Table, Int, Int);
  vh_op("set(k0,1); set(k5,2); set(k0,3); rem(k0)");
  set(t, K[0], $I(1)); present[0] = 1; val[0] = 1; nmodel++;
  set(t, K[5], $I(2)); present[5] = 1; val[5] = 2; nmodel++;
  check_against(t, present, val, nmodel, 0, "set k0, set k5", "model");
  set(t, K[0], $I(3)); val[0] = 3;
  check_against(t, present, val, nmodel, 0, "set k0 again (update under collision)", "model");
  whitebox(t, "update under collision");
  var exc;
  VH_CATCH(rem(t, K[0]), exc);
  present[0] = 0; nmodel--;
  check_against(t, present, val, nmodel, 0, "rem k0 after update under collision", "model");
  /* emptied table keeps working */
  vh_op("resize(0); set");
  resize(t, 0);
  memset(present, 0, sizeof present); nmodel = 0;
  check_against(t, present, val, nmodel, 0, "resize(0)", "model");
  set(t, K[3], $I(9)); present[3] = 1; val[3] = 9; nmodel = 1;
  vh_count("set_after_resize0");
  check_against(t, present, val, nmodel, 0, "set after resize(0)", "model");
  whitebox(t, "set after resize(0)");
  del(t);
  free_keys();
  /* every key mode through a full grow / drain / regrow sweep */
  for (int mode = 0; mode < KM_COUNT; mode++) {
    vh.oplen = 0; vh.oplog[0] = 0; vh.nops = 0;
    run_table_case(&r, mode, mode == KM_INT_COLLIDE0 || mode == KM_INT_WRAP ? 20 : 130, 420, 1);
  }
}

int main(int argc, char** argv) {
  probes_init();
  pe_prop = "C02";
  big_cases = getenv("VH_BIG") != NULL;
  Wide40 = new_root(Type, $S("Wide40"), $I(sizeof(struct Wide40)));
  Plain12 = new_root(Type, $S("Plain12"), $I(12));
  return vh_run(argc, argv, "table", fixed, case_random);
}
