/*
** C11 -- iteration agrees with len and get, forwards and backwards, for views too.
**
** A tree of iterables is generated bottom-up (leaves: Array, List, Tuple, Table, Tree, Range; views:
** Slice, Zip, enumerate, Filter, Map, nested up to depth 3).  Every node gets a reference sequence
** computed from the DEFINITION of the view on its children's reference sequences.  For every node:
** forward walk (step-bounded) == reference, len == reference length, get(i) == reference[i] where
** get is defined, backward walk == reverse.  Items are copied out during the walk (Range and Zip
** hand out one mutable object).  ASan watches every cursor step.
*/
#include "vh.h"

enum { V_ARRAY, V_LIST, V_TUPLE, V_TABLE, V_TREE, V_RANGE, V_SLICE, V_ZIP, V_ENUM, V_FILTER, V_MAP, V_COUNT };
static const char* VNAME[V_COUNT] = { "Array", "List", "Tuple", "Table", "Tree", "Range", "Slice", "Zip", "enumerate", "Filter", "Map" };
enum { MAXNODE = 24, MAXREF = 64, MAXAR = 4 };

struct item { int arity; int64_t v[MAXAR]; };     /* arity 0: scalar in v[0] */

struct vnode {
  int kind; var obj;
  int nchild; int child[MAXAR];
  int has_len, has_get, depth, ordered;           /* ordered: reference order is defined */
  uint32_t stateful;                              /* nodes with iteration state (Range, Zip, Map) this node depends on */
  char desc[120];
  int nref; struct item ref[MAXREF];
};

static struct vnode V[MAXNODE];
static int nv;
static var fn_pred, fn_map;

static int64_t item_key(const struct item* it) { return it->v[0]; }

/* predicate and map function used by Filter / Map; they work on scalars and on zip tuples */
static int64_t obj_key(var x) { return type_of(x) == Tuple ? c_int(get(x, $I(0))) : c_int(x); }
static int ref_pred(const struct item* it) { int64_t k = item_key(it); return ((k % 3) + 3) % 3 != 0; }
static var pred_fn(var x) { int64_t k = obj_key(x); return (((k % 3) + 3) % 3 != 0) ? x : NULL; }
static int64_t ref_map(const struct item* it) {
  int64_t s = 0;
  if (it->arity == 0) { return it->v[0] * 2 + 1; }
  for (int i = 0; i < it->arity; i++) { s += it->v[i]; }
  return s * 2 + 1;
}
static var map_fn(var x) {
  int64_t s = 0;
  /* by position, not by foreach: a zip tuple may hold one pointer twice (see the open Tuple finding) */
  if (type_of(x) == Tuple) { size_t n = len(x); for (size_t i = 0; i < n; i++) { s += c_int(get(x, $I(i))); } } else { s = c_int(x); }
  return new(Int, $I(s * 2 + 1));
}

static int read_item(var x, struct item* out) {
  memset(out, 0, sizeof *out);
  if (x == NULL) { return 0; }
  if (type_of(x) == Tuple) {
    size_t n = len(x);
    if (n > MAXAR) { return 0; }
    out->arity = (int)n;
    for (size_t i = 0; i < n; i++) { out->v[i] = c_int(get(x, $I(i))); }
    return 1;
  }
  out->v[0] = c_int(x);
  return 1;
}
static int item_eq(const struct item* a, const struct item* b) {
  if (a->arity != b->arity) { return 0; }
  for (int i = 0; i < (a->arity ? a->arity : 1); i++) { if (a->v[i] != b->v[i]) { return 0; } }
  return 1;
}
static void item_str(const struct item* it, char* buf, size_t cap) {
  if (it->arity == 0) { snprintf(buf, cap, "%" PRId64, it->v[0]); return; }
  size_t o = (size_t)snprintf(buf, cap, "(");
  for (int i = 0; i < it->arity && o + 24 < cap; i++) { o += (size_t)snprintf(buf + o, cap - o, "%s%" PRId64, i ? "," : "", it->v[i]); }
  snprintf(buf + o, cap - o, ")");
}

/* ---------- reference definitions ---------- */

static int range_ref(int64_t start, int64_t stop, int64_t step, struct item* out, int cap) {
  int n = 0;
  if (step > 0) { for (int64_t x = start; x < stop && n < cap; x += step) { out[n].arity = 0; out[n++].v[0] = x; } }
  if (step < 0) { for (int64_t x = stop - 1; x >= start && n < cap; x += step) { out[n].arity = 0; out[n++].v[0] = x; } }
  return n;
}

/* ---------- the oracle for one node ---------- */

static char kb[128];
static const char* K(const struct vnode* v, const char* what) { snprintf(kb, sizeof kb, "C11:%s:%s", VNAME[v->kind], what); return kb; }

static void check_node(struct vnode* v) {
  struct item got;
  char a[80], b[80];
  /* forward */
  size_t steps = 0, limit = (size_t)v->nref + 2;
  var it = iter_init(v->obj);
  int ok = 1;
  while (it != Terminal && steps <= limit) {
    vh_eval();
    if (!read_item(it, &got)) { vh_violation(K(v, "forward-item-unreadable"), "%s: step %zu yields an unreadable item", v->desc, steps); ok = 0; break; }
    if (v->ordered && steps < (size_t)v->nref && !item_eq(&got, &v->ref[steps])) {
      item_str(&got, a, sizeof a); item_str(&v->ref[steps], b, sizeof b);
      vh_violation(K(v, "forward-wrong-item"), "%s: forward item %zu is %s, definition gives %s", v->desc, steps, a, b);
      ok = 0; break;
    }
    if (!v->ordered && steps < MAXREF) { v->ref[steps] = got; }      /* maps: the observed order is the reference */
    steps++;
    it = iter_next(v->obj, it);
  }
  if (ok) {
    vh_eval();
    if (steps > limit) { vh_violation(K(v, "forward-does-not-end"), "%s: more than %d+2 forward steps", v->desc, v->nref); ok = 0; }
    else if (steps != (size_t)v->nref) { vh_violation(K(v, "forward-count"), "%s: forward iteration yields %zu items, definition gives %d", v->desc, steps, v->nref); ok = 0; }
  }
  /* len */
  if (v->has_len) {
    vh_eval();
    size_t n = len(v->obj);
    if (n != (size_t)v->nref) { vh_violation(K(v, "len-differs-from-item-count"), "%s: len=%zu (as signed %" PRId64 "), definition gives %d items", v->desc, n, (int64_t)n, v->nref); }
  }
  /* get(i) after the walk */
  if (v->has_get && v->ordered) {
    for (int i = 0; i < v->nref; i++) {
      var exc = NULL, x = NULL;
      vh_eval();
      VH_CATCH(x = get(v->obj, $I(i)), exc);
      if (exc) { vh_violation(K(v, "get-raised-in-range"), "%s: get(%d) of %d raised %s", v->desc, i, v->nref, vh_exc_name(exc)); break; }
      if (!read_item(x, &got) || !item_eq(&got, &v->ref[i])) {
        item_str(&got, a, sizeof a); item_str(&v->ref[i], b, sizeof b);
        vh_violation(K(v, "get-differs-from-iteration"), "%s: get(%d) is %s, item %d is %s", v->desc, i, a, i, b); break;
      }
    }
  }
  /* backward: exact reverse */
  if (!ok) { return; }
  steps = 0;
  it = iter_last(v->obj);
  while (it != Terminal && steps <= limit) {
    vh_eval();
    if (!read_item(it, &got)) { vh_violation(K(v, "backward-item-unreadable"), "%s: backward step %zu yields an unreadable item", v->desc, steps); return; }
    if (steps < (size_t)v->nref && !item_eq(&got, &v->ref[v->nref - 1 - (int)steps])) {
      item_str(&got, a, sizeof a); item_str(&v->ref[v->nref - 1 - (int)steps], b, sizeof b);
      vh_violation(K(v, "backward-not-reverse-of-forward"), "%s: backward item %zu is %s, reverse of forward gives %s", v->desc, steps, a, b);
      return;
    }
    steps++;
    it = iter_prev(v->obj, it);
  }
  vh_eval();
  if (steps > limit) { vh_violation(K(v, "backward-does-not-end"), "%s: more than %d+2 backward steps", v->desc, v->nref); }
  else if (steps != (size_t)v->nref) { vh_violation(K(v, "backward-count"), "%s: backward iteration yields %zu items, forward %d", v->desc, steps, v->nref); }
}

/* ---------- construction ---------- */

/* element type whose size (12 bytes) is not a multiple of the word size: containers pad their slots, and every walk
   over them (forwards, backwards, through views) has to use the padded stride */
struct Odd12 { int32_t v; char pad[8]; };
static int64_t Odd12_C_Int(var self) { struct Odd12* o = self; return o->pad[0] == 'o' && o->pad[7] == 'd' ? (int64_t)o->v : INT64_MIN + 12; }
static var Odd12 = Cello(Odd12, Instance(C_Int, Odd12_C_Int));
static var odd12_init(char* buf, int64_t x) {
  struct Odd12* o = header_init(buf, Odd12, AllocStack);
  memset(o, 0, sizeof *o); o->v = (int32_t)x; o->pad[0] = 'o'; o->pad[7] = 'd';
  return o;
}

static int64_t map_key_base = INT64_MIN;   /* fixed grids: first key of a map leaf (INT64_MIN: random) */
static int leaf_histories;      /* generated cases only: the fixed grids need exact lengths */

static int add_leaf(vh_rng* r, int kind, int n, var* keep) {
  struct vnode* v = &V[nv];
  memset(v, 0, offsetof(struct vnode, nref));
  v->kind = kind; v->ordered = 1; v->has_len = 1; v->has_get = 1; v->depth = 0;
  int odd = leaf_histories && (kind == V_ARRAY || kind == V_LIST) && vh_chance(r, 35);
  char ob[sizeof(struct Header) + 16];
  if (odd) { vh_count("leaves_with_12_byte_elements"); }
  switch (kind) {
    case V_ARRAY: v->obj = odd ? (var)new(Array, Odd12) : (var)new(Array, Int); break;
    case V_LIST: v->obj = odd ? (var)new(List, Odd12) : (var)new(List, Int); break;
    case V_TUPLE: v->obj = new(Tuple); break;
    case V_TABLE: v->obj = new(Table, Int, Int); v->has_get = 0; break;
    case V_TREE: v->obj = new(Tree, Int, Int); v->has_get = 0; break;
    default: break;
  }
  keep[nv] = v->obj;
  v->nref = n;
  /* map keys: an arithmetic progression with a varying start and stride, so that every slot of the table
     (the first and the last one in particular) gets to be the only / first / last occupied one */
  int64_t kbase = map_key_base != INT64_MIN ? map_key_base : vh_range(r, -20, 20), kstep = map_key_base != INT64_MIN ? 1 : (int64_t[]){ 1, 5, 7, 11 }[vh_below(r, 4)];
  /* maps: insertion order ascending, descending or scattered (rotations and probe displacement depend on it) */
  int map_order = leaf_histories ? (int)vh_below(r, 3) : 0;
  for (int j = 0; j < n; j++) {
    int i = map_order == 0 ? j : map_order == 1 ? n - 1 - j : (int)(((int64_t)j * 7 + 3) % n);
    if (map_order == 2 && (n % 7) == 0) { i = j; }      /* 7 does not generate Z/n: fall back */
    if (!(kind == V_TABLE || kind == V_TREE)) { i = j; }
    int64_t x = (kind == V_TABLE || kind == V_TREE) ? kbase + (int64_t)i * kstep : vh_range(r, -9, 30);
    v->ref[i].arity = 0; v->ref[i].v[0] = x;
    if (kind == V_TUPLE) { push(v->obj, new(Int, $I(x))); }
    else if (kind == V_TABLE || kind == V_TREE) { set(v->obj, $I(x), $I(i)); }
    else { push(v->obj, odd ? odd12_init(ob, x) : (var)$I(x)); }
  }
  if (leaf_histories && (kind == V_TABLE || kind == V_TREE) && n > 1 && vh_chance(r, 60)) {
    /* a history of removals and re-insertions (for a Tree: removal repairs and rotations; for a Table: back-shifts) */
    int steps = 1 + (int)vh_below(r, 8);
    for (int k = 0; k < steps; k++) {
      int i = (int)vh_below(r, (uint64_t)n);
      int64_t x = kbase + (int64_t)i * kstep;
      if (mem(v->obj, $I(x))) { rem(v->obj, $I(x)); if (vh_chance(r, 70)) { set(v->obj, $I(x), $I(i)); } }
      else { set(v->obj, $I(x), $I(i)); }
    }
    /* restore the full key set: the fixed length n is what the rest of the harness assumes */
    for (int i = 0; i < n; i++) { int64_t x = kbase + (int64_t)i * kstep; if (!mem(v->obj, $I(x))) { set(v->obj, $I(x), $I(i)); } }
    vh_count("map_leaves_with_an_edit_history");
  }
  if (map_order == 1) { vh_count("map_leaves_filled_in_descending_order"); }
  snprintf(v->desc, sizeof v->desc, "%s[%d]", VNAME[kind], n);
  if (leaf_histories && (kind == V_ARRAY || kind == V_LIST || kind == V_TUPLE) && vh_chance(r, 60)) {
    /* a history of insertions and removals at both ends and in the middle: the links / cursors the walk relies on
       must survive it (not only containers that were filled by push) */
    int steps = 1 + (int)vh_below(r, 6);
    for (int k = 0; k < steps; k++) {
      int64_t x = vh_range(r, 40, 60);
      var xo = kind == V_TUPLE ? (var)new(Int, $I(x)) : odd ? odd12_init(ob, x) : (var)$I(x);
      int m = v->nref;
      switch (vh_below(r, 6)) {
        case 0: if (m > 0) { pop_at(v->obj, $I(0)); memmove(&v->ref[0], &v->ref[1], sizeof(struct item) * (size_t)(m - 1)); v->nref--; } break;
        case 1: if (m > 0) { pop(v->obj); v->nref--; } break;
        case 2: if (m > 1) { int at = 1 + (int)vh_below(r, (uint64_t)m - 1); pop_at(v->obj, $I(at)); memmove(&v->ref[at], &v->ref[at + 1], sizeof(struct item) * (size_t)(m - at - 1)); v->nref--; } break;
        case 3: if (m > 0 && m < MAXREF - 1) { push_at(v->obj, xo, $I(0)); memmove(&v->ref[1], &v->ref[0], sizeof(struct item) * (size_t)m); v->ref[0].arity = 0; v->ref[0].v[0] = x; v->nref++; } break;
        case 4: if (m > 1 && m < MAXREF - 1) { int at = 1 + (int)vh_below(r, (uint64_t)m - 1); push_at(v->obj, xo, $I(at)); memmove(&v->ref[at + 1], &v->ref[at], sizeof(struct item) * (size_t)(m - at)); v->ref[at].arity = 0; v->ref[at].v[0] = x; v->nref++; } break;
        default: if (m < MAXREF - 1) { push(v->obj, xo); v->ref[m].arity = 0; v->ref[m].v[0] = x; v->nref++; } break;
      }
    }
    snprintf(v->desc, sizeof v->desc, "%s[%d after %d edits]", VNAME[kind], v->nref, steps);
    vh_count("leaves_with_an_edit_history");
  }
  if (kind == V_TABLE || kind == V_TREE) {
    /* the iteration order of a map is its own business (C02/C03); observe it once, then it is the reference */
    int k = 0;
    for (var it = iter_init(v->obj); it != Terminal && k < MAXREF && k <= n; it = iter_next(v->obj, it)) { v->ref[k].arity = 0; v->ref[k++].v[0] = c_int(it); }
    v->ordered = 1;
    /* whatever the order, forward iteration of a map yields each of its n keys exactly once */
    vh_eval();
    if (k != n) { vh_violation(K(v, "forward-count"), "%s: forward iteration yields %s%d keys, the map holds %d", VNAME[kind], k > n ? "more than " : "", k > n ? n : k, n); }
    else {
      for (int i = 0; i < n; i++) {
        int64_t x = kbase + (int64_t)i * kstep; int found = 0;
        for (int q = 0; q < n; q++) { found += v->ref[q].v[0] == x; }
        if (found != 1) { vh_violation(K(v, "forward-not-the-key-set"), "%s[%d]: key %" PRId64 " is yielded %d times", VNAME[kind], n, x, found); break; }
      }
    }
  }
  return nv++;
}

static int add_range(vh_rng* r, var* keep) {
  struct vnode* v = &V[nv];
  memset(v, 0, offsetof(struct vnode, nref));
  v->kind = V_RANGE; v->ordered = 1; v->has_len = 1; v->has_get = 1;
  int nargs = 1 + (int)vh_below(r, 3);
  int64_t a = vh_range(r, -50, 50), b = vh_range(r, -50, 50), c = vh_range(r, -7, 7);
  if (vh_chance(r, 50)) { if (a > b) { int64_t t = a; a = b; b = t; } }     /* half the time start <= stop */
  if (b - a > 40 && (c == 1 || c == -1 || nargs < 3)) { b = a + 40; }
  int64_t start = 0, stop = 0, step = 1;
  if (nargs == 1) { if (b > 40) { b = 40; } stop = b; v->obj = new(Range, $I(b)); snprintf(v->desc, sizeof v->desc, "range(%" PRId64 ")", b); }
  else if (nargs == 2) { start = a; stop = b; v->obj = new(Range, $I(a), $I(b)); snprintf(v->desc, sizeof v->desc, "range(%" PRId64 ",%" PRId64 ")", a, b); }
  else { start = a; stop = b; step = c; v->obj = new(Range, $I(a), $I(b), $I(c)); snprintf(v->desc, sizeof v->desc, "range(%" PRId64 ",%" PRId64 ",%" PRId64 ")", a, b, c); }
  keep[nv] = v->obj;
  v->stateful = (uint32_t)1 << nv;
  v->nref = range_ref(start, stop, step, v->ref, MAXREF);
  if (v->nref > 0 && step != 0 && (stop - start) % (step < 0 ? -step : step) != 0) { vh_count("ranges_length_not_divisible_by_step"); }
  if (stop <= start) { vh_count("ranges_with_stop_not_above_start"); }
  if (step < 0) { vh_count("ranges_with_negative_step"); }
  return nv++;
}

static int normalise_slice_arg(int part, int n, int given, int64_t a, int* ambiguous) {
  if (!given) { return part == 0 ? 0 : part == 1 ? n : 1; }
  if (part == 2) { return (int)a; }
  if (a >= 0 && a <= n) { return (int)a; }
  if (a > n) { return n; }
  if (a >= -n) { return (int)(n + a); }
  *ambiguous = 1;     /* below -n: the statement does not say; only [0,n] is required */
  return 0;
}

static int add_slice(vh_rng* r, int c, var* keep) {
  struct vnode* v = &V[nv];
  struct vnode* ch = &V[c];
  memset(v, 0, offsetof(struct vnode, nref));
  v->kind = V_SLICE; v->ordered = 1; v->has_len = 1; v->has_get = ch->has_get; v->nchild = 1; v->child[0] = c; v->depth = ch->depth + 1;
  v->stateful = ch->stateful | ((uint32_t)1 << nv);      /* a Slice keeps its position in its own Range */
  int n = ch->nref;
  int nargs = (int)vh_below(r, 4);       /* how many of start/stop/step are given (Cello's macro: 1 -> stop; 2 -> start,stop; 3 -> all) */
  int64_t a[3]; int given[3] = {0, 0, 0};
  for (int i = 0; i < 3; i++) { a[i] = vh_range(r, -n - 3, n + 3); }
  a[2] = vh_range(r, -4, 4);
  var args = new(Tuple);
  push(args, ch->obj);
  var underscore = _;
  char d[60];
  if (nargs == 1) { given[1] = 1; push(args, new(Int, $I(a[1]))); snprintf(d, sizeof d, "%" PRId64, a[1]); }
  else if (nargs == 2) { given[0] = given[1] = 1; push(args, new(Int, $I(a[0]))); push(args, new(Int, $I(a[1]))); snprintf(d, sizeof d, "%" PRId64 ",%" PRId64, a[0], a[1]); }
  else if (nargs == 3) {
    for (int i = 0; i < 3; i++) { given[i] = !vh_chance(r, 25); if (given[i]) { push(args, new(Int, $I(a[i]))); } else { push(args, underscore); } }
    snprintf(d, sizeof d, "%s%" PRId64 ",%s%" PRId64 ",%s%" PRId64, given[0] ? "" : "_", given[0] ? a[0] : 0, given[1] ? "" : "_", given[1] ? a[1] : 0, given[2] ? "" : "_", given[2] ? a[2] : 0);
  } else { d[0] = 0; }
  v->obj = new_with(Slice, args);
  keep[nv] = v->obj;
  snprintf(v->desc, sizeof v->desc, "slice(%.70s%s%s)", ch->desc, d[0] ? "," : "", d);
  int amb = 0;
  int start = normalise_slice_arg(0, n, given[0], a[0], &amb);
  int stop = normalise_slice_arg(1, n, given[1], a[1], &amb);
  int step = normalise_slice_arg(2, n, given[2], a[2], &amb);
  struct Slice* s = v->obj;
  struct Range* rg = s->range;
  vh_eval();
  if (rg->start < 0 || rg->start > n || rg->stop < 0 || rg->stop > n) {
    vh_violation("C11:Slice:bounds-not-normalised-into-range", "%s: normalised start %" PRId64 " stop %" PRId64 " for length %d", v->desc, rg->start, rg->stop, n);
  }
  if (!amb && (rg->start != start || rg->stop != stop || rg->step != step)) {
    vh_violation("C11:Slice:bounds-normalised-wrongly", "%s: normalised (%" PRId64 ",%" PRId64 ",%" PRId64 "), definition gives (%d,%d,%d) for length %d",
      v->desc, rg->start, rg->stop, rg->step, start, stop, step, n);
  }
  if (amb) { start = (int)rg->start; stop = (int)rg->stop; if (start < 0) { start = 0; } if (stop > n) { stop = n; } vh_count("slices_with_far_negative_bound"); }
  /* positions by definition */
  struct item pos[MAXREF];
  int np = range_ref(start, stop, step, pos, MAXREF);
  v->nref = 0;
  for (int i = 0; i < np; i++) { int p = (int)pos[i].v[0]; if (p >= 0 && p < n) { v->ref[v->nref++] = ch->ref[p]; } }
  if (np > 0 && step != 0 && (stop - start) % (step < 0 ? -step : step) != 0) { vh_count("slices_length_not_divisible_by_step"); }
  if (step < 0) { vh_count("slices_with_negative_step"); }
  if (stop < n && step > 0) { vh_count("slices_stopping_before_the_end"); }
  vh_count("slices");
  return nv++;
}

static int add_zip(vh_rng* r, const int* cs, int k, int enumerate_, var* keep) {
  struct vnode* v = &V[nv];
  (void)r;
  memset(v, 0, offsetof(struct vnode, nref));
  v->kind = enumerate_ ? V_ENUM : V_ZIP; v->ordered = 1; v->has_len = 1; v->has_get = 1; v->nchild = k;
  size_t o = (size_t)snprintf(v->desc, sizeof v->desc, "%s(", enumerate_ ? "enumerate" : "zip");
  var args = new(Tuple);
  int minlen = MAXREF, unequal = 0;
  if (enumerate_) {
    var rg = new(Range);
    push(args, rg);
  }
  for (int i = 0; i < k; i++) {
    struct vnode* ch = &V[cs[i]];
    v->child[i] = cs[i];
    push(args, ch->obj);
    if (!ch->has_get) { v->has_get = 0; }
    if (!ch->has_len) { v->has_len = 0; }
    if (!ch->ordered) { v->ordered = 0; }
    if (ch->depth + 1 > v->depth) { v->depth = ch->depth + 1; }
    if (i > 0 && ch->nref != minlen) { unequal = 1; }
    if (ch->nref < minlen) { minlen = ch->nref; }
    if (o + 30 < sizeof v->desc) { o += (size_t)snprintf(v->desc + o, sizeof v->desc - o, "%s%.24s", i ? "," : "", ch->desc); }
    v->stateful |= ch->stateful;
  }
  v->stateful |= (uint32_t)1 << nv;
  snprintf(v->desc + o, sizeof v->desc - o, ")");
  v->obj = new_with(Zip, args);
  if (enumerate_) { enumerate_stack(v->obj); }
  keep[nv] = v->obj;
  v->nref = minlen;
  for (int i = 0; i < minlen; i++) {
    int ar = 0;
    if (enumerate_) { v->ref[i].v[ar++] = i; }
    for (int j = 0; j < k; j++) { v->ref[i].v[ar++] = V[cs[j]].ref[i].v[0]; }
    v->ref[i].arity = ar;
  }
  if (unequal) { vh_count("zips_of_unequal_lengths"); }
  vh_count(enumerate_ ? "enumerates" : "zips");
  return nv++;
}

static int add_filter_or_map(int c, int is_map, var* keep) {
  struct vnode* v = &V[nv];
  struct vnode* ch = &V[c];
  memset(v, 0, offsetof(struct vnode, nref));
  v->kind = is_map ? V_MAP : V_FILTER; v->ordered = ch->ordered; v->nchild = 1; v->child[0] = c; v->depth = ch->depth + 1;
  v->has_len = is_map ? ch->has_len : 0;
  v->has_get = is_map ? ch->has_get : 0;
  v->stateful = ch->stateful | (is_map ? (uint32_t)1 << nv : 0);
  v->obj = is_map ? (var)new(Map, ch->obj, fn_map) : (var)new(Filter, ch->obj, fn_pred);
  keep[nv] = v->obj;
  snprintf(v->desc, sizeof v->desc, "%s(%.100s)", is_map ? "map" : "filter", ch->desc);
  v->nref = 0;
  for (int i = 0; i < ch->nref; i++) {
    if (is_map) { v->ref[v->nref].arity = 0; v->ref[v->nref++].v[0] = ref_map(&ch->ref[i]); }
    else if (ref_pred(&ch->ref[i])) { v->ref[v->nref++] = ch->ref[i]; }
  }
  vh_count(is_map ? "maps" : "filters");
  return nv++;
}

static int scalar_node(vh_rng* r, int maxdepth) {
  /* a node whose items are scalars */
  for (int tries = 0; tries < 40; tries++) {
    int c = (int)vh_below(r, (uint64_t)nv);
    if (V[c].depth <= maxdepth && (V[c].nref == 0 || V[c].ref[0].arity == 0) && V[c].kind != V_ZIP && V[c].kind != V_ENUM) { return c; }
  }
  return 0;
}

static void __attribute__((noinline)) case_random(vh_rng* r, long index) {
  var keep[MAXNODE];
  memset(keep, 0, sizeof keep);
  nv = 0;
  (void)index;
  leaf_histories = 1;
  /* leaves */
  int nleaf = 3 + (int)vh_below(r, 3);
  for (int i = 0; i < nleaf; i++) {
    int kind = (int)vh_below(r, 6);
    int n = vh_chance(r, 15) ? 0 : (int)vh_below(r, 41);
    if (kind == V_RANGE) { add_range(r, keep); } else { add_leaf(r, kind, n, keep); }
  }
  /* views, bottom-up, to depth 3 */
  int nviews = 3 + (int)vh_below(r, 8);
  for (int i = 0; i < nviews && nv < MAXNODE; i++) {
    int roll = (int)vh_below(r, 100);
    if (roll < 40) {
      int c;
      for (int tries = 0; ; tries++) {
        c = (int)vh_below(r, (uint64_t)nv);
        /* a slice needs len; and get-by-position of its underlying iterable only for get */
        if (V[c].has_len && V[c].ordered && V[c].depth <= 2) { break; }
        if (tries > 30) { c = -1; break; }
      }
      if (c >= 0) { add_slice(r, c, keep); }
    } else if (roll < 60) {
      int k = 1 + (int)vh_below(r, 4), cs[MAXAR];
      int enumerate_ = vh_chance(r, 30);
      if (enumerate_) { k = 1; }
      uint32_t used = 0; int got = 0;
      for (int j = 0; j < k; j++) {
        for (int tries = 0; tries < 30; tries++) {
          int c = scalar_node(r, 2);
          int dup = 0;
          for (int q = 0; q < got; q++) { if (cs[q] == c) { dup = 1; } }
          /* children that share iteration state (the same Range, Map or Zip below them) cannot be walked side by side */
          if (dup || (V[c].stateful & used) || (enumerate_ && !V[c].has_len)) { continue; }
          cs[got++] = c; used |= V[c].stateful; break;
        }
      }
      if (got > 0) { add_zip(r, cs, got, enumerate_, keep); }
    } else if (roll < 80) {
      int c = (int)vh_below(r, (uint64_t)nv);
      if (V[c].depth <= 2) { add_filter_or_map(c, 0, keep); }
    } else {
      int c = (int)vh_below(r, (uint64_t)nv);
      if (V[c].depth <= 2) { add_filter_or_map(c, 1, keep); }
    }
  }
  int deepest = 0;
  for (int i = 0; i < nv; i++) {
    check_node(&V[i]);
    vh_op("%s", V[i].desc);
    if (V[i].depth > deepest) { deepest = V[i].depth; }
    if (V[i].nref == 0) { vh_count("empty_iterables"); }
    static const char* CN[V_COUNT] = { "checked_Array", "checked_List", "checked_Tuple", "checked_Table", "checked_Tree", "checked_Range",
      "checked_Slice", "checked_Zip", "checked_enumerate", "checked_Filter", "checked_Map" };
    vh_count(CN[V[i].kind]);
  }
  if (deepest >= 2) { vh_count("compositions_of_depth_2_or_more"); vh_nontrivial(); }
  if (deepest >= 3) { vh_count("compositions_of_depth_3"); }
}

/* ---------- fixed: exhaustive small grids + the open finding ---------- */

static void __attribute__((noinline)) fixed(void) {
  var keep[MAXNODE];
  vh_rng r; vh_rng_seed(&r, 11);
  leaf_histories = 0;
  /* every leaf kind at every length 0..12, with its reverse view */
  for (int kind = 0; kind < 5; kind++) {
    for (int n = 0; n <= 12; n++) {
      nv = 0; memset(keep, 0, sizeof keep);
      int c = add_leaf(&r, kind, n, keep);
      check_node(&V[c]);
      if (V[c].ordered) {
        /* reverse(x) == slice(x, _, _, -1) */
        struct vnode* v = &V[nv];
        memset(v, 0, offsetof(struct vnode, nref));
        v->kind = V_SLICE; v->ordered = 1; v->has_len = 1; v->has_get = V[c].has_get; v->depth = 1;
        var args = new(Tuple); push(args, V[c].obj); push(args, _); push(args, _); push(args, new(Int, $I(-1)));
        v->obj = new_with(Slice, args); keep[nv] = v->obj;
        snprintf(v->desc, sizeof v->desc, "reverse(%s)", V[c].desc);
        v->nref = n;
        for (int i = 0; i < n; i++) { v->ref[i] = V[c].ref[n - 1 - i]; }
        nv++;
        check_node(v);
        vh_count("reverse_views");
      }
    }
  }
  /* maps of 1..3 bindings with every possible first key 0..24: each slot of the smallest tables is, in turn,
     the only occupied one, the first one and the last one */
  for (int kind = V_TABLE; kind <= V_TREE; kind++) {
    for (int n = 1; n <= 3; n++) {
      for (int64_t base = 0; base < 25; base++) {
        nv = 0; memset(keep, 0, sizeof keep);
        map_key_base = base;
        int c = add_leaf(&r, kind, n, keep);
        map_key_base = INT64_MIN;
        check_node(&V[c]);
        struct vnode* v = &V[nv];
        memset(v, 0, offsetof(struct vnode, nref));
        v->kind = V_SLICE; v->ordered = 1; v->has_len = 1; v->has_get = 0; v->depth = 1;
        var args = new(Tuple); push(args, V[c].obj); push(args, _); push(args, _); push(args, new(Int, $I(-1)));
        v->obj = new_with(Slice, args); keep[nv] = v->obj;
        snprintf(v->desc, sizeof v->desc, "reverse(%s first key %" PRId64 ")", V[c].desc, base);
        v->nref = n;
        for (int i = 0; i < n; i++) { v->ref[i] = V[c].ref[n - 1 - i]; }
        nv++;
        check_node(v);
        vh_count("small_map_grid_points");
      }
    }
  }
  /* Range grid: start, stop in [-6,6], step in [-3,3] */
  for (int64_t a = -6; a <= 6; a++) { for (int64_t b = -6; b <= 6; b++) { for (int64_t c = -3; c <= 3; c++) {
    nv = 0;
    struct vnode* v = &V[nv];
    memset(v, 0, offsetof(struct vnode, nref));
    v->kind = V_RANGE; v->ordered = 1; v->has_len = 1; v->has_get = 1;
    v->obj = new(Range, $I(a), $I(b), $I(c)); keep[0] = v->obj;
    snprintf(v->desc, sizeof v->desc, "range(%" PRId64 ",%" PRId64 ",%" PRId64 ")", a, b, c);
    v->nref = range_ref(a, b, c, v->ref, MAXREF);
    nv++;
    check_node(v);
    vh_count("range_grid_points");
  } } }
  /* Slice grid over Array / List / Tuple / Range of length 0..6 */
  for (int kind = 0; kind < 4; kind++) { for (int n = 0; n <= 6; n++) {
    for (int64_t a = -8; a <= 8; a++) { for (int64_t b = -8; b <= 8; b++) { for (int64_t c = -3; c <= 3; c++) {
      nv = 0; memset(keep, 0, sizeof keep);
      int leaf;
      if (kind == 3) {
        struct vnode* v = &V[nv];
        memset(v, 0, offsetof(struct vnode, nref));
        v->kind = V_RANGE; v->ordered = 1; v->has_len = 1; v->has_get = 1;
        v->obj = new(Range, $I(n)); keep[0] = v->obj; snprintf(v->desc, sizeof v->desc, "range(%d)", n);
        v->nref = range_ref(0, n, 1, v->ref, MAXREF); leaf = nv++;
      } else { leaf = add_leaf(&r, kind, n, keep); }
      struct vnode* v = &V[nv];
      memset(v, 0, offsetof(struct vnode, nref));
      v->kind = V_SLICE; v->ordered = 1; v->has_len = 1; v->has_get = 1; v->depth = 1;
      var args = new(Tuple); push(args, V[leaf].obj); push(args, new(Int, $I(a))); push(args, new(Int, $I(b))); push(args, new(Int, $I(c)));
      v->obj = new_with(Slice, args); keep[nv] = v->obj;
      snprintf(v->desc, sizeof v->desc, "slice(%s,%" PRId64 ",%" PRId64 ",%" PRId64 ")", V[leaf].desc, a, b, c);
      int amb = 0;
      int start = normalise_slice_arg(0, n, 1, a, &amb), stop = normalise_slice_arg(1, n, 1, b, &amb);
      struct Slice* s = v->obj; struct Range* rg = s->range;
      if (amb) { start = (int)rg->start; stop = (int)rg->stop; if (start < 0 || start > n) { start = 0; } if (stop < 0 || stop > n) { stop = n; } }
      struct item pos[MAXREF];
      int np = range_ref(start, stop, c, pos, MAXREF);
      v->nref = 0;
      for (int i = 0; i < np; i++) { int p = (int)pos[i].v[0]; if (p >= 0 && p < n) { v->ref[v->nref++] = V[leaf].ref[p]; } }
      nv++;
      check_node(v);
      vh_count("slice_grid_points");
    } } }
  } }
  /* Zip of unequal lengths, backwards */
  {
    nv = 0; memset(keep, 0, sizeof keep);
    int a = add_leaf(&r, V_ARRAY, 3, keep), b = add_leaf(&r, V_LIST, 2, keep), c = add_leaf(&r, V_TUPLE, 5, keep);
    int cs[3] = { a, b, c };
    int z = add_zip(&r, cs, 3, 0, keep);
    check_node(&V[z]);
    int cs2[2] = { c, a };
    z = add_zip(&r, cs2, 2, 0, keep);
    check_node(&V[z]);
  }
  /* OPEN FINDING reproducer: a Tuple in which one pointer occurs twice */
  {
    var x = new(Int, $I(1)), y = new(Int, $I(2));
    var t = new(Tuple); push(t, x); push(t, x); push(t, y);
    size_t steps = 0;
    var it = iter_init(t);
    while (it != Terminal && steps <= 5) { steps++; it = iter_next(t, it); }
    vh.oplen = 0; vh.oplog[0] = 0; vh.nops = 0;
    vh_op("tuple(x, x, y) forward iteration");
    vh_eval();
    if (steps != 3) { vh_violation("C11:Tuple:repeated-pointer:iteration-does-not-follow-positions", "tuple(x,x,y): forward iteration took %zu steps (bounded at 6), len is 3", steps); }
    vh_count("repeated_pointer_reproducer_runs");
  }
}

int main(int argc, char** argv) {
  fn_pred = new_root(Function, $(Function, pred_fn));
  fn_map = new_root(Function, $(Function, map_fn));
  return vh_run(argc, argv, "views", fixed, case_random);
}
