/*
** C10 -- equal values hash equally; copy and assign produce equal values; swap exchanges.
** Pairs equal BY CONSTRUCTION (same value in different allocation classes, same contents through
** different construction histories, across container kinds); for each: eq => same hash, copy/assign
** results eq and same hash, swap exchanges canonical snapshots.  hash_data: alignment / neighbourhood
** independence for every length 0..64 (exact-size heap blocks, ASan watches over-reads).
*/
#include "vh.h"
#include <float.h>

struct Pt { int64_t x; int64_t y; };
static var Pt;
enum { NBLOB = 40 };
static var BLOB[NBLOB + 1];      /* plain types of 1..40 bytes, no instances */

/* containers whose elements are used through interior pointers must stay referenced from the stack:
   the collector does not treat an interior pointer as a reference (documented limitation) */
static void __attribute__((noinline)) keep_alive(volatile var x) { __asm__ volatile("" :: "r"(x) : "memory"); }

static char kb[128];
static const char* K(const char* dom, const char* what) { snprintf(kb, sizeof kb, "C10:%s:%s", dom, what); return kb; }

/* a and b are equal by construction */
static void equal_pair(const char* dom, var a, var b, const char* desc) {
  vh_evals(3);
  bool e1 = eq(a, b), e2 = eq(b, a);
  if (!e1 || !e2) { vh_violation(K(dom, "equal-by-construction-not-eq"), "eq=%d/%d for %s", (int)e1, (int)e2, desc); return; }
  uint64_t ha = hash(a), hb = hash(b);
  if (ha != hb) { vh_violation(K(dom, "eq-but-different-hash"), "eq holds but hash %016" PRIx64 " != %016" PRIx64 " for %s", ha, hb, desc); }
  if (hash(a) != ha) { vh_violation(K(dom, "hash-not-a-function-of-the-value"), "two calls of hash on the same object differ for %s", desc); }
}

/* arbitrary (not necessarily equal) pair: whenever the library says eq, the hashes must agree */
static void implication_pair(const char* dom, var a, var b, const char* desc) {
  vh_eval();
  if (eq(a, b)) {
    vh_count("arbitrary_pairs_found_eq");
    if (hash(a) != hash(b)) { vh_violation(K(dom, "eq-but-different-hash"), "eq holds but hashes differ for %s", desc); }
  } else { vh_count("arbitrary_pairs_found_different"); }
}

/* copy(x) and assign(y, x) */
static void copy_assign(const char* dom, var x, var blank, const char* desc) {
  var exc = NULL, c = NULL;
  vh_evals(4);
  uint64_t hx = hash(x);
  VH_CATCH(c = copy(x), exc);
  if (exc) { vh_violation(K(dom, "copy-raised"), "copy raised %s for %s", vh_exc_name(exc), desc); }
  else {
    if (c == x) { vh_violation(K(dom, "copy-returned-the-same-object"), "copy returned its argument for %s", desc); }
    if (!eq(c, x) || !eq(x, c)) { vh_violation(K(dom, "copy-not-eq"), "copy is not eq to the original for %s", desc); }
    if (hash(c) != hx) { vh_violation(K(dom, "copy-hashes-differently"), "copy hashes differently from the original for %s", desc); }
    if (hash(x) != hx) { vh_violation(K(dom, "copy-changed-the-original"), "hash of the original changed across copy for %s", desc); }
    del(c);
  }
  if (blank) {
    VH_CATCH(assign(blank, x), exc);
    if (exc) { vh_violation(K(dom, "assign-raised"), "assign raised %s for %s", vh_exc_name(exc), desc); }
    else {
      if (!eq(blank, x) || !eq(x, blank)) { vh_violation(K(dom, "assign-not-eq"), "assigned object is not eq to the source for %s", desc); }
      if (hash(blank) != hx) { vh_violation(K(dom, "assign-hashes-differently"), "assigned object hashes differently for %s", desc); }
    }
  }
}

/* canonical text of a value / container */
static void dump(var x, char* out, size_t cap) {
  var t = type_of(x);
  if (t == Int) { snprintf(out, cap, "I%" PRId64, c_int(x)); }
  else if (t == Float) { snprintf(out, cap, "F%a", c_float(x)); }
  else if (t == String) { snprintf(out, cap, "S%s", c_str(x)); }
  else if (t == Pt) { struct Pt* p = x; snprintf(out, cap, "P%" PRId64 ",%" PRId64, p->x, p->y); }
  else if (t == Ref || t == Box) { snprintf(out, cap, "R%p", deref(x)); }
  else if (t == Table || t == Tree) {
    size_t o = (size_t)snprintf(out, cap, "M%zu:", len(x));
    int64_t pairs[64]; size_t n = 0;
    foreach (k in x) { if (n < 64) { pairs[n++] = c_int(k) * 100003 + c_int(get(x, k)); } }
    for (size_t i = 0; i < n; i++) { for (size_t j = i + 1; j < n; j++) { if (pairs[j] < pairs[i]) { int64_t q = pairs[i]; pairs[i] = pairs[j]; pairs[j] = q; } } }
    for (size_t i = 0; i < n && o + 24 < cap; i++) { o += (size_t)snprintf(out + o, cap - o, "%" PRId64 ",", pairs[i]); }
  } else {
    size_t o = (size_t)snprintf(out, cap, "Q%zu:", len(x));
    size_t n = len(x);
    for (size_t i = 0; i < n && o + 24 < cap; i++) { o += (size_t)snprintf(out + o, cap - o, "%" PRId64 ",", c_int(get(x, $I((int64_t)i)))); }
  }
}

static void swap_check(const char* dom, var a, var b, const char* desc) {
  char a0[600], b0[600], a1[600], b1[600];
  var exc;
  dump(a, a0, sizeof a0); dump(b, b0, sizeof b0);
  VH_CATCH(swap(a, b), exc);
  vh_evals(2);
  if (exc) { vh_violation(K(dom, "swap-raised"), "swap raised %s for %s", vh_exc_name(exc), desc); return; }
  dump(a, a1, sizeof a1); dump(b, b1, sizeof b1);
  if (strcmp(a1, b0) != 0 || strcmp(b1, a0) != 0) { vh_violation(K(dom, "swap-did-not-exchange"), "before (%.60s | %.60s) after (%.60s | %.60s) for %s", a0, b0, a1, b1, desc); }
  vh_count("swaps");
}

/* ---------- scalar values in every allocation class ---------- */

static void scalar_classes(vh_rng* r) {
  char d[160];
  /* Int */
  {
    int64_t v = vh_chance(r, 50) ? (int64_t)vh_next(r) : vh_range(r, -5, 5);
    var heap = new(Int, $I(v)), raw = new_raw(Int, $I(v));
    var arr = new(Array, Int, $I(v)); var tab = new(Table, Int, Int); set(tab, $I(v), $I(v));
    var inarr = get(arr, $I(0)); var key = iter_init(tab);
    snprintf(d, sizeof d, "Int %" PRId64 " stack/heap/raw/array-element/table-key", v);
    equal_pair("int", $I(v), heap, d); equal_pair("int", heap, raw, d); equal_pair("int", raw, inarr, d); equal_pair("int", inarr, key, d);
    { int64_t w[] = { (int64_t)((uint64_t)v + 1), (int64_t)((uint64_t)v - 1), (int64_t)((uint64_t)v ^ ((uint64_t)1 << 32)), (int64_t)((uint64_t)v ^ ((uint64_t)1 << 63)), (int32_t)v };
      for (int q = 0; q < 5; q++) { char dd[96]; snprintf(dd, sizeof dd, "Int %" PRId64 " vs %" PRId64, v, w[q]); implication_pair("int", heap, $I(w[q]), dd); } }
    copy_assign("int", inarr, new(Int), d);
    var o = new(Int, $I(v + 1));
    swap_check("int", heap, o, d);
    del_raw(raw);
    keep_alive(arr); keep_alive(tab);
    vh_count("allocation_class_groups");
  }
  /* Float, signed zeros included */
  {
    double v;
    switch (vh_below(r, 5)) {
      case 0: v = 0.0; break; case 1: v = -0.0; break;
      case 2: { uint64_t b = vh_next(r); memcpy(&v, &b, 8); if (v != v) { v = 1.5; } break; }
      case 3: v = 4.9406564584124654e-324; break;
      default: v = (double)vh_range(r, -100, 100) / 4.0; break;
    }
    var heap = new(Float, $F(v)); var arr = new(List, Float, $F(v));
    snprintf(d, sizeof d, "Float %a stack/heap/list-element", v);
    equal_pair("float", $F(v), heap, d); equal_pair("float", heap, get(arr, $I(0)), d);
    if (v == 0.0) { equal_pair("float", $F(0.0), $F(-0.0), "Float 0.0 vs -0.0"); vh_count("signed_zero_pairs"); }
    /* near neighbours: different values that a sloppy comparison might call equal */
    {
      double near[] = { nextafter(v, INFINITY), nextafter(v, -INFINITY), v + v * 1e-16, v * (1.0 + 2.2e-16), v + 1e-300, (float)v };
      for (int q = 0; q < 6; q++) {
        if (near[q] != near[q]) { continue; }
        char dd[120]; snprintf(dd, sizeof dd, "Float %a vs near neighbour %a", v, near[q]);
        implication_pair("float", heap, $F(near[q]), dd);
        var la = new(List, Float, $F(v)), lb = new(Array, Float, $F(near[q]));
        implication_pair("sequence", la, lb, dd);
      }
      implication_pair("float", $F(0.1 + 0.2), $F(0.3), "0.1+0.2 vs 0.3");
      implication_pair("float", $F(1e-300), $F(0.0), "1e-300 vs 0");
    }
    copy_assign("float", heap, new(Float), d);
    swap_check("float", heap, new(Float, $F(v + 1.0)), d);
    keep_alive(arr);
  }
  /* String */
  {
    char b[40]; size_t n = vh_below(r, 30);
    for (size_t i = 0; i < n; i++) { b[i] = (char)(1 + vh_below(r, 255)); } b[n] = 0;
    var heap = new(String, $S(b)); var arr = new(Array, String, $S(b)); var tr = new(Tree, String, Int); set(tr, $S(b), $I(1));
    snprintf(d, sizeof d, "String of %zu bytes stack/heap/array-element/tree-key", n);
    equal_pair("string", $S(b), heap, d); equal_pair("string", heap, get(arr, $I(0)), d); equal_pair("string", get(arr, $I(0)), iter_init(tr), d);
    /* same characters at a different address and after growing / shrinking the buffer */
    var grown = new(String, $S(b)); resize(grown, n + 40); equal_pair("string", heap, grown, "String after a reserve");
    var built = new(String); for (size_t i = 0; i < n; i++) { char c[2] = { b[i], 0 }; append(built, $S(c)); }
    equal_pair("string", heap, built, "String built by appends");
    { char b2[44]; snprintf(b2, sizeof b2, "%s", b); size_t m = strlen(b2);
      if (m > 0) { b2[m - 1] = (char)(b2[m - 1] ^ 0x20 ? b2[m - 1] ^ 0x20 : 'x'); implication_pair("string", heap, $S(b2), "strings differing in the last byte"); b2[m - 1] = 0; implication_pair("string", heap, $S(b2), "string vs its prefix"); }
      snprintf(b2, sizeof b2, "%s ", b); implication_pair("string", heap, $S(b2), "string vs itself plus a space"); }
    copy_assign("string", heap, new(String), d);
    swap_check("string", heap, new(String, $S("other")), d);
    keep_alive(arr); keep_alive(tr);
  }
  /* Type objects, Ref / Box, plain struct */
  {
    var T[] = { Int, String, KeyError, Table, Type, Cmp };
    var t = T[vh_below(r, 6)];
    equal_pair("type", t, t, "a type object and itself");
    vh_eval();
    if (hash(t) != hash_data(c_str(t), strlen(c_str(t)))) { vh_count("type_hash_is_not_name_hash"); }
    var target = new(Int, $I(3));
    var r1 = new(Ref, target), r2 = $R(target);
    equal_pair("ref", r1, r2, "two Refs to one object (heap / stack)");
    copy_assign("ref", r1, new(Ref), "Ref");
    var arr = new(Array, Ref, r1);
    equal_pair("ref", r1, get(arr, $I(0)), "Ref on the heap and embedded in an Array");
    /* a Ref that refers to nothing is a value like any other: its copies and everything assigned from it refer to
       nothing too, wherever the source object lives (stack, heap, container slot) */
    {
      var n1 = new(Ref), n2 = $R(NULL);          /* (a Ref constructed without argument refers to nothing) */
      equal_pair("ref", n1, n2, "two Refs to nothing (heap / stack)");
      copy_assign("ref", n1, new(Ref, target), "Ref to nothing");
      copy_assign("ref", n2, new(Ref), "stack Ref to nothing");
      var a0 = new(Array, Ref), a1 = new(Array, Ref), l0 = new(List, Ref);
      push(a0, $R(NULL)); push(a0, r1); push(a1, n1); push(a1, r2); push(l0, $R(NULL)); push(l0, r1);
      equal_pair("ref", a0, a1, "Arrays [nothing, target] built from different Ref objects");
      equal_pair("ref", a0, l0, "Array and List [nothing, target]");
      vh_eval();
      if (deref(get(a0, $I(0))) != NULL || deref(get(l0, $I(0))) != NULL) { vh_violation(K("ref", "copy-of-a-ref-to-nothing-refers-to-something"), "a Ref to nothing pushed into a container refers to %p", deref(get(a0, $I(0)))); }
      vh_count("refs_to_nothing_copied");
      keep_alive(a0); keep_alive(a1); keep_alive(l0); keep_alive(n1);
    }
    struct Pt pv = { vh_range(r, -9, 9), (int64_t)vh_next(r) };
    var p1 = $(Pt, pv.x, pv.y); var p2 = new(Pt); memcpy(p2, &pv, sizeof pv);
    var parr = new(Array, Pt, p1);
    equal_pair("struct", p1, p2, "plain struct stack / heap");
    equal_pair("struct", p2, get(parr, $I(0)), "plain struct heap / array element");
    copy_assign("struct", p2, new(Pt), "plain struct");
    swap_check("struct", p2, new(Pt), "plain struct");
    keep_alive(arr); keep_alive(parr); keep_alive(target);
  }
}

/* ---------- containers through different construction histories ---------- */

static var build_seq(vh_rng* r, int kind, const int64_t* v, int n, int history) {
  var c = kind == 0 ? (var)new(Array, Int) : kind == 1 ? (var)new(List, Int) : (var)new(Tuple);
  #define ELEM(x) (kind == 2 ? (var)new(Int, $I(x)) : (var)$I(x))
  switch (history) {
    case 0: for (int i = 0; i < n; i++) { push(c, ELEM(v[i])); } break;
    case 1: for (int i = n - 1; i >= 0; i--) { if (len(c) == 0) { push(c, ELEM(v[i])); } else { push_at(c, ELEM(v[i]), $I(0)); } } break;   /* built back to front */
    case 2: /* extra elements inserted and removed again */
      for (int i = 0; i < n; i++) { push(c, ELEM(v[i])); if (vh_chance(r, 50)) { push(c, ELEM(12345)); pop(c); } }
      if (n > 0) { push_at(c, ELEM(777), $I(0)); pop_at(c, $I(0)); }
      break;
    case 4: /* overshoot, then cut back with resize; then a resize to the length it already has */
      for (int i = 0; i < n; i++) { push(c, ELEM(v[i])); }
      if (kind != 2) {
        int extra = (int)vh_below(r, 4);
        for (int i = 0; i < extra; i++) { push(c, ELEM(4242 + i)); }
        if (n > 0 || extra > 0) { resize(c, (size_t)n); }
        if (n > 0) { resize(c, (size_t)n); }
        vh_count("sequences_cut_back_with_resize");
      }
      break;
    case 5: /* a List grown by resize (fresh zero elements), then overwritten */
      if (kind == 1 && n > 0) {
        resize(c, (size_t)n);
        for (int i = 0; i < n; i++) { set(c, $I(i), ELEM(v[i])); }
        vh_count("lists_grown_with_resize");
        break;
      }
      /* fall through */
    default: /* reserve / overwrite */
      if (kind == 0) { resize(c, (size_t)n + 50); }
      for (int i = 0; i < n; i++) { push(c, ELEM(0)); }
      for (int i = 0; i < n; i++) { set(c, $I(i), ELEM(v[i])); }
      break;
  }
  #undef ELEM
  return c;
}

static void seq_histories(vh_rng* r) {
  int64_t v[12]; int n = (int)vh_below(r, 11);
  for (int i = 0; i < n; i++) { v[i] = vh_chance(r, 70) ? vh_range(r, -3, 3) : (int64_t)vh_next(r); }
  var c[6]; int kinds[6];
  char d[120];
  for (int i = 0; i < 6; i++) { kinds[i] = i % 3; c[i] = build_seq(r, kinds[i], v, n, (int)vh_below(r, 6)); }
  for (int i = 0; i < 6; i++) { for (int j = i + 1; j < 6; j++) {
    snprintf(d, sizeof d, "sequences of %d elements: kind %d vs kind %d, different histories", n, kinds[i], kinds[j]);
    equal_pair("sequence", c[i], c[j], d);
    if (kinds[i] != kinds[j]) { vh_count("cross_kind_equal_pairs"); }
  } }
  for (int i = 0; i < 3; i++) {
    /* the target of the assignment is of any kind and already holds fewer, as many or more elements than the source */
    int tk = (kinds[i] == 2 || vh_chance(r, 60)) ? kinds[i] : (int)vh_below(r, 3);     /* (a Tuple source makes an Array of Ref: not eq by design) */
    int had = vh_chance(r, 25) ? 0 : (int)vh_below(r, (uint64_t)n + 5);
    var blank = tk == 0 ? (var)new(Array, Int) : tk == 1 ? (var)new(List, Int) : (var)new(Tuple);
    for (int k = 0; k < had; k++) { push(blank, tk == 2 ? (var)new(Int, $I(9000 + k)) : (var)$I(9000 + k)); }
    snprintf(d, sizeof d, "sequence kind %d of %d elements assigned to a kind %d that held %d", kinds[i], n, tk, had);
    copy_assign("sequence", c[i], blank, d);
    if (had > n) { vh_count("assigns_onto_a_longer_sequence"); if (tk == 2) { vh_count("assigns_onto_a_longer_tuple"); } }
    if (tk != kinds[i]) { vh_count("cross_kind_sequence_assigns"); }
  }
  /* swap two containers of the same kind */
  { int64_t w[3] = { 9, 8, 7 }; var o = build_seq(r, 0, w, 3, 0); swap_check("sequence", c[0], o, "two Arrays"); }
  { int64_t w[2] = { 5, 6 }; var o = build_seq(r, 1, w, 2, 0); swap_check("sequence", c[1], o, "two Lists"); }
  vh_count("sequence_history_groups");
}

static void iteration_order(var m, int64_t* out, int* n) { *n = 0; foreach (k in m) { if (*n < 64) { out[(*n)++] = c_int(k); } } }

static void map_histories(vh_rng* r) {
  int n = (int)vh_below(r, 14);
  int64_t k[16], v[16];
  for (int i = 0; i < n; i++) { k[i] = i * 5 + vh_range(r, 0, 4); v[i] = vh_range(r, 0, 9); }
  char d[140];
  for (int is_tree = 0; is_tree < 2; is_tree++) {
    var m[3];
    for (int h = 0; h < 3; h++) {
      m[h] = is_tree ? (var)new(Tree, Int, Int) : (var)new(Table, Int, Int);
      if (h == 0) { for (int i = 0; i < n; i++) { set(m[h], $I(k[i]), $I(v[i])); } }
      else if (h == 1) { for (int i = n - 1; i >= 0; i--) { set(m[h], $I(k[i]), $I(0)); } for (int i = 0; i < n; i++) { set(m[h], $I(k[i]), $I(v[i])); } }
      else { for (int i = 0; i < n; i++) { set(m[h], $I(k[i]), $I(v[i])); set(m[h], $I(1000 + i), $I(1)); } for (int i = 0; i < n; i++) { rem(m[h], $I(1000 + i)); } }
    }
    const char* dom = is_tree ? "Tree" : "Table";
    for (int a = 0; a < 3; a++) { for (int b = a + 1; b < 3; b++) {
      snprintf(d, sizeof d, "%s of %d bindings, histories %d and %d", dom, n, a, b);
      equal_pair(dom, m[a], m[b], d);
    } }
    /* copy / assign */
    for (int h = 0; h < 3; h++) {
      var c = copy(m[h]);
      char x0[600], x1[600];
      dump(m[h], x0, sizeof x0); dump(c, x1, sizeof x1);
      vh_evals(3);
      if (strcmp(x0, x1) != 0) { vh_violation(K(dom, "copy-lost-or-changed-a-binding"), "copy of %s of %d bindings: [%.100s] vs [%.100s]", dom, n, x0, x1); }
      if (hash(c) != hash(m[h])) { vh_violation(K(dom, "copy-hashes-differently"), "copy of %s of %d bindings hashes differently", dom, n); }
      if (!eq(c, m[h])) {
        int64_t o1[64], o2[64]; int n1, n2;
        iteration_order(m[h], o1, &n1); iteration_order(c, o2, &n2);
        int same_order = n1 == n2 && memcmp(o1, o2, sizeof(int64_t) * (size_t)n1) == 0;
        if (!is_tree && !same_order) {
          /* Table comparison must not depend on the slot order (repaired defect, see KNOWN_FINDINGS.txt) */
          vh_violation("C10:Table:copy-not-eq-when-slot-order-differs", "eq(copy(t), t) is false for a Table of %d bindings whose copy lays its slots out differently (history %d)", n, h);
        } else {
          vh_violation(K(dom, "copy-not-eq"), "eq(copy, original) is false for %s of %d bindings with identical iteration order", dom, n);
        }
      }
      del(c);
    }
    /* near misses: a map against one with one binding more, one fewer, one value changed, an empty one -- in both
       operand orders and against the other kind of map.  Whenever eq holds, the hashes (and lengths) agree. */
    {
      var more = copy(m[0]), fewer = copy(m[0]), changed = copy(m[0]);
      var empty = is_tree ? (var)new(Tree, Int, Int) : (var)new(Table, Int, Int);
      var other = is_tree ? (var)new(Table, Int, Int) : (var)new(Tree, Int, Int);     /* the other kind, one binding more */
      set(more, $I(777777), $I(3));
      for (int i = 0; i < n; i++) { set(other, $I(k[i]), $I(v[i])); }
      set(other, $I(888888), $I(4));
      if (n > 0) { rem(fewer, $I(k[n / 2])); set(changed, $I(k[n / 2]), $I(v[n / 2] + 1)); }
      var near[5] = { more, fewer, changed, empty, other };
      static const char* NN[5] = { "one binding more", "one binding fewer", "one value changed", "an empty map", "the other kind of map with one binding more" };
      for (int q = 0; q < 5; q++) {
        if ((q == 1 || q == 2) && n == 0) { continue; }
        if (q == 3 && n == 0) { continue; }
        for (int dir = 0; dir < 2; dir++) {
          var x = dir ? near[q] : m[0], y = dir ? m[0] : near[q];
          vh_evals(2);
          bool e = eq(x, y);
          if (e) {
            vh_count("near_miss_map_pairs_found_eq");
            if (hash(x) != hash(y) || len(x) != len(y)) { vh_violation(K(dom, "eq-but-different-hash"), "eq(%s, %s) holds but hashes or lengths differ for a %s of %d bindings", dir ? NN[q] : "the map", dir ? "the map" : NN[q], dom, n); }
          }
          vh_count("near_miss_map_pairs");
        }
      }
      del(more); del(fewer); del(changed); del(empty); del(other);
    }
    { int64_t kk = 424242; var o = is_tree ? (var)new(Tree, Int, Int) : (var)new(Table, Int, Int); set(o, $I(kk), $I(1)); swap_check(dom, m[0], o, dom); }
    vh_count("map_history_groups");
  }
}


/* ---------- maps whose key and value types have different sizes, reached through different histories ----------
** The final bindings are the same; one map gets them directly, one through a superset followed by removals (for a
** Tree these remove leaves, one-child nodes and two-children nodes alike), one with every value overwritten once.
** All must be eq with equal hashes, hold the stored bytes, and so must their copies. */
static void obj_bytes(unsigned char* out, size_t size, int index, unsigned salt) {
  memset(out, 0, size);
  out[0] = (unsigned char)index;
  for (size_t i = 1; i < size; i++) { out[i] = (unsigned char)(index * 11 + (int)i * 7 + (int)salt); }
}
static var stack_blob(size_t size, int index, unsigned salt, char* buf) {
  var o = header_init(buf, BLOB[size], AllocStack);
  obj_bytes(o, size, index, salt);
  return o;
}
static void sized_map_histories(vh_rng* r) {
  static const size_t SZ[] = { 1, 3, 8, 12, 24, 40 };
  size_t ks = SZ[vh_below(r, 6)], vs = SZ[vh_below(r, 6)];
  int is_tree = (int)vh_below(r, 2);
  int n = 1 + (int)vh_below(r, 40), extra = 1 + (int)vh_below(r, 40);
  if (n + extra > 250) { extra = 250 - n; }
  char kb[sizeof(struct Header) + 48], vb[sizeof(struct Header) + 48], d[160];
  const char* dom = is_tree ? "Tree" : "Table";
  var MK = is_tree ? Tree : Table;
  var m[3];
  /* final keys: even indices 0,2,4,..; extras: the odd ones in between (so that removals hit inner nodes) */
  for (int h = 0; h < 3; h++) {
    m[h] = new_with(MK, tuple(BLOB[ks], BLOB[vs]));
    if (h == 0) { for (int i = 0; i < n; i++) { set(m[h], stack_blob(ks, 2 * i, 3, kb), stack_blob(vs, 2 * i, 9, vb)); } }
    else if (h == 1) {
      int total = 2 * n > n + extra ? n + extra : 2 * n;
      for (int j = 0; j < total; j++) { int i = total % 7 ? (j * 7 + 3) % total : j; set(m[h], stack_blob(ks, i, 3, kb), stack_blob(vs, i, 9, vb)); }
      for (int i = 0; i < total; i++) { if (i % 2 == 1 || i >= 2 * n) { rem(m[h], stack_blob(ks, i, 3, kb)); } }
      for (int i = 0; i < n; i++) { if (2 * i >= total) { set(m[h], stack_blob(ks, 2 * i, 3, kb), stack_blob(vs, 2 * i, 9, vb)); } }
    } else {
      for (int i = n - 1; i >= 0; i--) { set(m[h], stack_blob(ks, 2 * i, 3, kb), stack_blob(vs, 2 * i + 1, 77, vb)); }
      for (int i = 0; i < n; i++) { set(m[h], stack_blob(ks, 2 * i, 3, kb), stack_blob(vs, 2 * i, 9, vb)); }
    }
  }
  for (int a = 0; a < 3; a++) { for (int b = a + 1; b < 3; b++) {
    snprintf(d, sizeof d, "%s<%zu-byte,%zu-byte> of %d bindings, histories %d and %d", dom, ks, vs, n, a, b);
    equal_pair(dom, m[a], m[b], d);
  } }
  for (int h = 0; h < 3; h++) {
    unsigned char want[48];
    vh_evals(2);
    if (len(m[h]) != (size_t)n) { vh_violation(K(dom, "history-changed-the-number-of-bindings"), "%s<%zu-byte,%zu-byte> history %d: len %zu, expected %d", dom, ks, vs, h, len(m[h]), n); continue; }
    for (int i = 0; i < n; i++) {
      obj_bytes(want, vs, 2 * i, 9);
      var got = get(m[h], stack_blob(ks, 2 * i, 3, kb));
      if (memcmp(got, want, vs) != 0) { vh_violation(K(dom, "value-changed-by-the-history-of-other-keys"), "%s<%zu-byte,%zu-byte> history %d: the value under key %d is not the one stored", dom, ks, vs, h, 2 * i); break; }
    }
    var c = copy(m[h]);
    snprintf(d, sizeof d, "copy of %s<%zu-byte,%zu-byte> (history %d)", dom, ks, vs, h);
    equal_pair(dom, c, m[h], d);
    equal_pair(dom, c, m[0], d);
    var a = new_with(MK, tuple(BLOB[vs], BLOB[ks]));
    assign(a, m[h]);
    snprintf(d, sizeof d, "assign of %s<%zu-byte,%zu-byte> (history %d)", dom, ks, vs, h);
    equal_pair(dom, a, m[0], d);
    del(c); del(a);
  }
  if (vs > ks) { vh_count("sized_map_histories_value_wider_than_key"); }
  vh_count("sized_map_history_groups");
}

/* ---------- hash_data ---------- */

static void hash_data_alignment(vh_rng* r) {
  unsigned char pattern[64];
  for (int i = 0; i < 64; i++) { pattern[i] = (unsigned char)vh_below(r, 256); }
  for (size_t n = 0; n <= 64; n++) {
    uint64_t first = 0;
    for (size_t off = 0; off < 8; off++) {
      /* exact-size block, data at its very end: an over-read hits the red zone */
      unsigned char* blk = malloc(off + n + (n + off == 0 ? 1 : 0));
      for (size_t i = 0; i < off; i++) { blk[i] = (unsigned char)vh_below(r, 256); }   /* varying neighbourhood */
      memcpy(blk + off, pattern, n);
      uint64_t h = hash_data(blk + off, n);
      vh_eval();
      if (off == 0) { first = h; }
      else if (h != first) { vh_violation("C10:hash_data:depends-on-alignment-or-neighbourhood", "%zu bytes hash differently at offset %zu", n, off); }
      free(blk);
    }
    /* one changed byte changes the value (sanity: the function looks at every byte) */
    if (n > 0) {
      unsigned char* blk = malloc(n);
      memcpy(blk, pattern, n);
      size_t at = vh_below(r, n);
      blk[at] ^= 0x40;
      if (hash_data(blk, n) == first) { vh_count("hash_data_single_byte_collisions"); }
      free(blk);
    }
  }
  vh_count("hash_data_alignment_sweeps");
}

/* ---------- plain user types of every size 1..40: no instances at all, so eq / hash / copy / assign / swap fall back
** to the byte-wise defaults over exactly size(type) bytes -- sizes that are not a multiple of 8 included ---------- */


static void fill_blob(vh_rng* r, unsigned char* p, size_t n) { for (size_t i = 0; i < n; i++) { p[i] = (unsigned char)vh_below(r, 256); } }

static void blob_values(vh_rng* r) {
  size_t n = 1 + vh_below(r, NBLOB);
  var T = BLOB[n];
  unsigned char va[NBLOB], vb[NBLOB];
  fill_blob(r, va, n); fill_blob(r, vb, n);
  if (memcmp(va, vb, n) == 0) { vb[n - 1] ^= 1; }
  char d[96];
  snprintf(d, sizeof d, "plain %zu-byte struct", n);
  var a = new_with(T, tuple()), a2 = new_with(T, tuple()), b = new_with(T, tuple());
  memcpy(a, va, n); memcpy(a2, va, n); memcpy(b, vb, n);
  equal_pair("struct", a, a2, d);
  /* differs in the last byte only: must not be eq (the defaults look at every byte of the object) */
  var c = new_with(T, tuple()); memcpy(c, va, n); ((unsigned char*)c)[n - 1] ^= 0x80;
  vh_eval();
  if (eq(a, c)) { vh_violation(K("struct", "different-last-byte-eq"), "two %zu-byte structs that differ in their last byte are eq", n); }
  copy_assign("struct", a, new_with(T, tuple()), d);
  /* swap: both objects exchanged completely, heap/heap and heap/array-element */
  var exc = NULL;
  VH_CATCH(swap(a, b), exc);
  vh_evals(2);
  if (exc) { vh_violation(K("struct", "swap-raised"), "swap raised %s for %s", vh_exc_name(exc), d); }
  else if (memcmp(a, vb, n) != 0 || memcmp(b, va, n) != 0) { vh_violation(K("struct", "swap-did-not-exchange"), "swap of two %zu-byte structs did not exchange all their bytes", n); }
  vh_count("swaps"); vh_count(n % 8 ? "blob_swaps_size_not_multiple_of_8" : "blob_swaps_size_multiple_of_8");
  /* an Array of them: elements sit back to back, so a swap that touches too much or too little damages a neighbour */
  int m = 3 + (int)vh_below(r, 14);
  var arr = new(Array, T);
  unsigned char model[20][NBLOB];
  for (int i = 0; i < m; i++) { fill_blob(r, model[i], n); var e = new_with(T, tuple()); memcpy(e, model[i], n); push(arr, e); }
  int i = (int)vh_below(r, (uint64_t)m), j = (int)vh_below(r, (uint64_t)m);
  VH_CATCH(swap(get(arr, $I(i)), get(arr, $I(j))), exc);
  { unsigned char t[NBLOB]; memcpy(t, model[i], n); memcpy(model[i], model[j], n); memcpy(model[j], t, n); }
  vh_evals(m);
  for (int k = 0; k < m && !exc; k++) {
    if (memcmp(get(arr, $I(k)), model[k], n) != 0) { vh_violation(K("struct", "swap-did-not-exchange"), "swap of elements %d and %d of an Array of %zu-byte structs: element %d is wrong afterwards", i, j, n, k); break; }
  }
  /* sort (default cmp = byte order) is built on swap: result must be the sorted permutation of the model */
  VH_CATCH(sort(arr), exc);
  if (exc) { vh_violation(K("struct", "sort-raised"), "sort of an Array of %zu-byte structs raised %s", n, vh_exc_name(exc)); }
  else {
    for (int x = 0; x < m; x++) { for (int y = x + 1; y < m; y++) { if (memcmp(model[y], model[x], n) < 0) { unsigned char t[NBLOB]; memcpy(t, model[x], n); memcpy(model[x], model[y], n); memcpy(model[y], t, n); } } }
    for (int k = 0; k < m; k++) {
      if (memcmp(get(arr, $I(k)), model[k], n) != 0) { vh_violation(K("struct", "sort-result-is-not-the-sorted-permutation"), "sorted Array of %d %zu-byte structs differs from the sorted model at element %d", m, n, k); break; }
    }
    vh_count("blob_array_sorts");
  }
  keep_alive(arr);
}

static void case_random(vh_rng* r, long index) {
  (void)index;
  scalar_classes(r);
  blob_values(r); blob_values(r);
  seq_histories(r);
  map_histories(r);
  sized_map_histories(r);
  hash_data_alignment(r);
  vh_op("scalars+sequences+maps+hash_data, first draw %" PRIu64, vh_next(r));
  vh_nontrivial();
}

static void fixed(void) {
  equal_pair("float", $F(0.0), $F(-0.0), "Float 0.0 vs -0.0");
  equal_pair("float", new(Float, $F(-0.0)), $F(0.0), "Float -0.0 (heap) vs 0.0");
  /* a Table with spare capacity must be eq to its own copy (repaired defect) */
  var t = new(Table, Int, Int);
  for (int i = 0; i < 10; i++) { set(t, $I(i), $I(i)); }
  resize(t, 100);
  var c = copy(t);
  vh_op("t = Table{0..9}; resize(t, 100); eq(copy(t), t)");
  vh_evals(2);
  if (hash(c) != hash(t)) { vh_violation("C10:Table:copy-hashes-differently", "copy of a reserved Table hashes differently"); }
  if (!eq(c, t)) { vh_violation("C10:Table:copy-not-eq-when-slot-order-differs", "eq(copy(t), t) is false for Table{0..9} after resize(t, 100)"); }
  vh_count("table_eq_reproducer_runs");
}

int main(int argc, char** argv) {
  Pt = new_root(Type, $S("Pt"), $I(sizeof(struct Pt)));
  for (int n = 1; n <= NBLOB; n++) { char nm[16]; snprintf(nm, sizeof nm, "Blob%d", n); BLOB[n] = new_root(Type, $S(strdup(nm)), $I(n)); }
  return vh_run(argc, argv, "values", fixed, case_random);
}
