/*
** C12 -- a failed operation is reported as an exception and changes nothing.
**
** Enumerated fault table: object kind x operation x kind of invalid argument x object size.  For each
** fault: canonical dump before, the call in a capture block, the exception must be one the fault class
** documents, the dump and the number of live probe elements must be unchanged, and the object must keep
** working (a burst of valid operations against a reference model).  ASan/UBSan watch during and after.
*/
#include "probes.h"
#include <limits.h>

enum { DUMPCAP = 8192 };
static long faults_run, distinct_faults;
static uint64_t seen_fault_hash[4096]; static int nseen;

/* ---------- canonical dumps ---------- */

static int64_t elem_val(var e) {
  var t = type_of(e);
  if (t == Int) { return ((struct Int*)e)->val; }
  if (t == PElem) { return ((struct PElem*)e)->id; }
  if (t == String) { return (int64_t)hash_data(c_str(e), strlen(c_str(e))) % 100000; }
  return -424242;
}

static void dump_seq(var c, char* out) {
  size_t o = (size_t)snprintf(out, DUMPCAP, "len=%zu:", len(c));
  size_t n = len(c), steps = 0;
  foreach (e in c) { if (steps++ > n + 2 || o + 24 >= DUMPCAP) { break; } o += (size_t)snprintf(out + o, DUMPCAP - o, "%" PRId64 ",", elem_val(e)); }
  o += (size_t)snprintf(out + o, DUMPCAP - o, "|get:");
  for (size_t i = 0; i < n && o + 24 < DUMPCAP; i++) { o += (size_t)snprintf(out + o, DUMPCAP - o, "%" PRId64 ",", elem_val(get(c, $I((int64_t)i)))); }
}

static int cmp_i64(const void* a, const void* b) { int64_t x = *(const int64_t*)a, y = *(const int64_t*)b; return (x > y) - (x < y); }

static void dump_map(var c, char* out) {
  int64_t pairs[256]; size_t np = 0, n = len(c), steps = 0;
  foreach (k in c) { if (steps++ > n + 2 || np >= 128) { break; } pairs[np++] = elem_val(k) * 1000003 + elem_val(get(c, k)); }
  qsort(pairs, np, sizeof(int64_t), cmp_i64);
  size_t o = (size_t)snprintf(out, DUMPCAP, "len=%zu:", n);
  for (size_t i = 0; i < np && o + 24 < DUMPCAP; i++) { o += (size_t)snprintf(out + o, DUMPCAP - o, "%" PRId64 ",", pairs[i]); }
}

static void dump_string(var s, char* out) { snprintf(out, DUMPCAP, "len=%zu:%s", len(s), c_str(s)); }
static void dump_range(var r, char* out) { struct Range* g = r; snprintf(out, DUMPCAP, "%" PRId64 ",%" PRId64 ",%" PRId64 ":len=%zu", g->start, g->stop, g->step, len(r)); }

typedef void (*dump_fn)(var, char*);

/* ---------- fault classes: which exceptions document them ---------- */

enum { FC_INDEX, FC_EMPTY, FC_KEY, FC_ELEMENT, FC_TYPE, FC_NULL, FC_CLASS, FC_FORMAT, FC_RESIZE, FC_COUNT };
static const char* FCNAME[FC_COUNT] = { "index-out-of-range", "pop-from-empty", "missing-key", "missing-element", "wrong-type",
  "null-object", "unimplemented-class", "too-few-format-arguments", "resize-not-honourable" };

static int exc_allowed(int fc, var e) {
  switch (fc) {
    case FC_INDEX: case FC_EMPTY: return e == IndexOutOfBoundsError;
    case FC_KEY: return e == KeyError;
    case FC_ELEMENT: return e == ValueError || e == KeyError;
    case FC_TYPE: return e == TypeError || e == ValueError || e == ClassError;
    case FC_NULL: return e == ValueError || e == TypeError;
    case FC_CLASS: return e == ClassError;
    case FC_FORMAT: return e == FormatError;
    case FC_RESIZE: return e == FormatError || e == ValueError || e == ResourceError;
  }
  return 0;
}

static char before[DUMPCAP], after[DUMPCAP];
static const char* cur_kind; static size_t cur_size;

static void note_fault(const char* op, const char* arg) {
  uint64_t h = hash_data(op, strlen(op)) ^ (hash_data(arg, strlen(arg)) * 31) ^ (hash_data(cur_kind, strlen(cur_kind)) * 131) ^ (cur_size * 0x9E3779B97F4A7C15ULL);
  for (int i = 0; i < nseen; i++) { if (seen_fault_hash[i] == h) { return; } }
  if (nseen < 4096) { seen_fault_hash[nseen++] = h; distinct_faults++; }
}

/* run one fault: STMT must fail */
#define FAULT(OBJ, DUMP, FC, OP, ARG, STMT) do { \
    var f__exc = NULL; int64_t f__live = pe.live; char f__key[160]; \
    (DUMP)((OBJ), before); \
    VH_CATCH(STMT, f__exc); \
    faults_run++; note_fault(OP, ARG); vh_evals(3); \
    if (f__exc == NULL) { \
      snprintf(f__key, sizeof f__key, "C12:%s:%s:%s:no-exception", cur_kind, OP, ARG); \
      vh_violation(f__key, "%s of size %zu: %s (%s) was accepted silently; %s requires an exception", cur_kind, cur_size, OP, ARG, FCNAME[FC]); \
    } else if (!exc_allowed((FC), f__exc)) { \
      snprintf(f__key, sizeof f__key, "C12:%s:%s:%s:wrong-exception", cur_kind, OP, ARG); \
      vh_violation(f__key, "%s of size %zu: %s (%s) raised %s, which is not what %s documents", cur_kind, cur_size, OP, ARG, vh_exc_name(f__exc), FCNAME[FC]); \
    } \
    (DUMP)((OBJ), after); \
    if (strcmp(before, after) != 0) { \
      snprintf(f__key, sizeof f__key, "C12:%s:%s:%s:object-changed", cur_kind, OP, ARG); \
      vh_violation(f__key, "%s of size %zu: failed %s (%s) changed the object: before [%.150s] after [%.150s]", cur_kind, cur_size, OP, ARG, before, after); \
    } \
    if (pe.live != f__live) { \
      snprintf(f__key, sizeof f__key, "C12:%s:%s:%s:element-%s", cur_kind, OP, ARG, pe.live > f__live ? "leaked" : "lost"); \
      vh_violation(f__key, "%s of size %zu: failed %s (%s) changed the number of live elements by %" PRId64, cur_kind, cur_size, OP, ARG, pe.live - f__live); \
    } \
  } while (0)

/* ---------- sequences ---------- */

enum { SK_ARRAY, SK_LIST, SK_TUPLE };
static const char* SKNAME[3] = { "Array", "List", "Tuple" };

static var mk_elem(int kind, int et, int64_t v, var* slot) {
  (void)slot;
  if (kind == SK_TUPLE) { return new(Int, $I(v)); }
  return et ? (var)new_raw(PElem, $I(v), $I(v)) : (var)new_raw(Int, $I(v));
}

/* valid operations against a model: the object must remain fully usable */

/* a failure is reported once: raised inside a guarding try, caught there, and gone -- the valid operations that follow
   in the enclosing try must not meet it again (neither as a handler that runs nor as an exception that escapes) */
static void reported_once(var c, var bad_key, const char* kind) {
  volatile int inner = 0, outer = 0, later = 0;
  var escaped = NULL;
  VH_CATCH(({
    try {
      try { (void)get(c, bad_key); } catch (e) { inner++; }
      (void)len(c);
    } catch (e2) { outer++; }
    try {
      try { (void)get(c, bad_key); } catch (e) { inner++; }
      try { (void)len(c); } catch (e3) { later++; }
      (void)len(c);
    } catch (e2) { outer++; }
  }), escaped);
  vh_evals(2);
  if (inner != 2 || outer != 0 || later != 0 || escaped != NULL) {
    char key[120]; snprintf(key, sizeof key, "C12:%s:reporting:handled-failure-reported-again", kind);
    vh_violation(key, "a get that failed and was handled inside an enclosing try: inner handler %d time(s), later handler %d, enclosing handler %d, escaped %s", inner, later, outer, vh_exc_name(escaped));
  }
  vh_count("failures_handled_inside_an_enclosing_try");
}

static void seq_usable(vh_rng* r, int kind, int et, var c, int64_t* m, int* np) {
  int n = *np;
  char key[128];
  for (int k = 0; k < 30; k++) {
    int roll = (int)vh_below(r, 4);
    int64_t v = vh_range(r, 0, 50);
    var x = mk_elem(kind, et, v, NULL);
    if (roll == 0 || n == 0) { push(c, x); m[n++] = v; }
    else if (roll == 1) { pop(c); n--; }
    else if (roll == 2) { int i = (int)vh_below(r, (uint64_t)n); set(c, $I(i), x); m[i] = v; }
    else { int i = (int)vh_below(r, (uint64_t)n); pop_at(c, $I(i)); memmove(&m[i], &m[i+1], sizeof(int64_t) * (size_t)(n - i - 1)); n--; }
    if (kind != SK_TUPLE) { del_raw(x); }
    vh_eval();
    int ok = len(c) == (size_t)n;
    for (int i = 0; ok && i < n; i++) { if (elem_val(get(c, $I(i))) != m[i]) { ok = 0; } }
    if (!ok) {
      snprintf(key, sizeof key, "C12:%s:not-usable-after-failed-operations", SKNAME[kind]);
      vh_violation(key, "%s disagrees with its model during valid operations that follow the failed ones", SKNAME[kind]);
      break;
    }
  }
  *np = n;
}

static void seq_faults(vh_rng* r, int kind, int et, int size) {
  var c = kind == SK_ARRAY ? (var)new_with(Array, tuple(et ? PElem : Int)) : kind == SK_LIST ? (var)new_with(List, tuple(et ? PElem : Int)) : (var)new(Tuple);
  int64_t m[200]; int n = 0;
  for (int i = 0; i < size; i++) { int64_t v = i * 3 + 1; var x = mk_elem(kind, et, v, NULL); push(c, x); if (kind != SK_TUPLE) { del_raw(x); } m[n++] = v; }
  if (size == 0) {
    /* the ways of being empty: never filled, drained one by one, emptied with resize(c, 0) */
    int how = (int)vh_below(r, kind == SK_ARRAY ? 5 : 3), k = 1 + (int)vh_below(r, 20);
    if (how == 3) {
      /* an Array that never held anything but has room reserved */
      resize(c, (size_t)k); vh_count("empty_arrays_with_reserved_room");
    } else if (how == 4) {
      /* ... or that was emptied by resizing to zero and had room reserved again */
      for (int i = 0; i < k; i++) { var x = mk_elem(kind, et, 5 + i, NULL); push(c, x); del_raw(x); }
      resize(c, 0); resize(c, (size_t)k + 2); vh_count("empty_arrays_with_reserved_room");
    } else if (how > 0) {
      for (int i = 0; i < k; i++) { var x = mk_elem(kind, et, 5 + i, NULL); push(c, x); if (kind != SK_TUPLE) { del_raw(x); } }
      if (how == 1) { while (len(c) > 0) { if (vh_chance(r, 50)) { pop(c); } else { pop_at(c, $I(0)); } } vh_count("empty_after_draining"); }
      else { resize(c, 0); vh_count("empty_after_resize_0"); }
    }
  }
  char kn[40]; snprintf(kn, sizeof kn, "%s<%s>", SKNAME[kind], kind == SK_TUPLE ? "Int*" : et ? "PElem" : "Int");
  cur_kind = kn; cur_size = (size_t)size;
  int64_t L = size;
  /* out-of-range indices */
  /* push_at: an Array resolves the index against the new length, so len and -len-1 insert at the ends;
     an empty List accepts index 0.  Those are in range and therefore not in the fault table. */
  struct { const char* name; int64_t v; int skip_push_at; } IDX[] = {
    { "len", L, kind == SK_ARRAY || (kind == SK_LIST && size == 0) }, { "len+1", L + 1, 0 }, { "-len-1", -L - 1, kind == SK_ARRAY },
    { "-len-2", -L - 2, 0 }, { "INT64_MAX", INT64_MAX, 0 }, { "INT64_MIN", INT64_MIN, 0 },
    { "len+1000", L + 1000, 0 }, { "-len-1000", -L - 1000, 0 } };
  var good = mk_elem(kind, et, 99, NULL);
  for (size_t k = 0; k < sizeof IDX / sizeof IDX[0]; k++) {
    var bad = $I(IDX[k].v);
    FAULT(c, dump_seq, FC_INDEX, "get", IDX[k].name, get(c, bad));
    FAULT(c, dump_seq, FC_INDEX, "set", IDX[k].name, set(c, bad, good));
    FAULT(c, dump_seq, FC_INDEX, "pop_at", IDX[k].name, pop_at(c, bad));
    if (!IDX[k].skip_push_at) { FAULT(c, dump_seq, FC_INDEX, "push_at", IDX[k].name, push_at(c, good, bad)); }
  }
  if (size == 0) { FAULT(c, dump_seq, FC_EMPTY, "pop", "empty", pop(c)); }
  /* missing element */
  { var absent = mk_elem(kind, et, 777777, NULL); FAULT(c, dump_seq, FC_ELEMENT, "rem", "absent-element", rem(c, absent)); if (kind != SK_TUPLE) { del_raw(absent); } }
  /* wrong-typed and NULL values (embedded element containers only: a Tuple holds arbitrary pointers) */
  if (kind != SK_TUPLE) {
    FAULT(c, dump_seq, FC_TYPE, "push", "wrong-typed-value", push(c, $S("not an element")));
    FAULT(c, dump_seq, FC_NULL, "push", "NULL", push(c, NULL));
    if (size > 0) {
      FAULT(c, dump_seq, FC_TYPE, "set", "wrong-typed-value", set(c, $I(0), $S("not an element")));
      FAULT(c, dump_seq, FC_TYPE, "push_at", "wrong-typed-value", push_at(c, $S("not an element"), $I(0)));
      FAULT(c, dump_seq, FC_NULL, "push_at", "NULL", push_at(c, NULL, $I(0)));
    }
    FAULT(c, dump_seq, FC_TYPE, "get", "wrong-typed-index", get(c, $S("0")));
    FAULT(c, dump_seq, FC_TYPE, "concat", "non-iterable-argument", concat(c, $I(5)));
  } else {
    FAULT(c, dump_seq, FC_RESIZE, "resize", "to-len", resize(c, (size_t)size));
    FAULT(c, dump_seq, FC_RESIZE, "resize", "above-len", resize(c, (size_t)size + 3));
    /* ... and to lengths far out of range, on either side of where a signed length would wrap */
    FAULT(c, dump_seq, FC_RESIZE, "resize", "INT64_MAX", resize(c, (size_t)INT64_MAX));
    FAULT(c, dump_seq, FC_RESIZE, "resize", "2^63", resize(c, (size_t)1 << 63));
    FAULT(c, dump_seq, FC_RESIZE, "resize", "2^63+len-1", resize(c, ((size_t)1 << 63) + (size_t)(size > 0 ? size - 1 : 1)));
    FAULT(c, dump_seq, FC_RESIZE, "resize", "SIZE_MAX-2", resize(c, SIZE_MAX - 2));
    vh_count("tuples_offered_far_out_of_range_lengths");
  }
  FAULT(c, dump_seq, FC_NULL, "get", "NULL-index", get(c, NULL));
  if (kind != SK_TUPLE) { del_raw(good); }
  reported_once(c, $I(L + 5), SKNAME[kind]);
  seq_usable(r, kind, et, c, m, &n);
  vh_count("sequence_objects_faulted");
  del(c);
}

/* ---------- Tuples that cannot be reallocated: tuple(...) literals, $(Tuple, ...) and static Tuples ----------
** Every length-changing operation on them is one "the container cannot honour": it raises ValueError and the Tuple
** keeps its items, in order, whichever index or item was named (valid ones included).  Reads and set stay valid. */
static void dump_tuple_ptrs(var c, char* out) {
  size_t off = (size_t)snprintf(out, DUMPCAP, "len=%zu:", len(c));
  struct Tuple* t = c;
  for (size_t i = 0; t->items[i] != Terminal && off + 24 < DUMPCAP; i++) { off += (size_t)snprintf(out + off, DUMPCAP - off, "%p=%" PRId64 ",", t->items[i], c_int(t->items[i])); }
}

static void fixed_tuple_faults(vh_rng* r, int size, int is_static) {
  static var static_items[10];
  var stack_items[10];
  var* items = is_static ? static_items : stack_items;
  var elems[8];
  for (int i = 0; i < size; i++) { elems[i] = new_raw(Int, $I(i * 7 + 2)); items[i] = elems[i]; }
  int dup = size >= 3 && vh_chance(r, 40);
  if (dup) { items[size - 1] = items[0]; }          /* the same object twice */
  items[size] = Terminal;
  struct Tuple* c = is_static ? header_init((char[sizeof(struct Header) + sizeof(struct Tuple)]){0}, Tuple, AllocStatic)
                              : header_init((char[sizeof(struct Header) + sizeof(struct Tuple)]){0}, Tuple, AllocStack);
  c->items = items;
  char kn[40]; snprintf(kn, sizeof kn, "%s-Tuple", is_static ? "static" : "stack");
  cur_kind = kn; cur_size = (size_t)size;
  var extra = new_raw(Int, $I(4242));
  var other = new_raw(Tuple, extra, extra);
  FAULT(c, dump_tuple_ptrs, FC_RESIZE, "push", "any", push(c, extra));
  FAULT(c, dump_tuple_ptrs, FC_RESIZE, "concat", "heap-tuple", concat(c, other));
  FAULT(c, dump_tuple_ptrs, FC_RESIZE, "append", "item", append(c, extra));
  FAULT(c, dump_tuple_ptrs, FC_RESIZE, "resize", "len+1", resize(c, (size_t)size + 1));
  if (size > 0) {
    FAULT(c, dump_tuple_ptrs, FC_RESIZE, "resize", "len-1", resize(c, (size_t)size - 1));
    FAULT(c, dump_tuple_ptrs, FC_RESIZE, "pop", "non-empty", pop(c));
    for (int i = -size; i < size; i++) {
      char an[24]; snprintf(an, sizeof an, "valid-index-%d", i);
      FAULT(c, dump_tuple_ptrs, FC_RESIZE, "pop_at", an, pop_at(c, $I(i)));
      FAULT(c, dump_tuple_ptrs, FC_RESIZE, "push_at", an, push_at(c, extra, $I(i)));
    }
    for (int i = 0; i < size; i++) {
      char an[24]; snprintf(an, sizeof an, "present-item-%d", i);
      FAULT(c, dump_tuple_ptrs, FC_RESIZE, "rem", an, rem(c, items[i]));
    }
  }
  /* still usable: reads, membership, iteration and set */
  vh_evals(3);
  int ok = len(c) == (size_t)size;
  int seen = 0;
  /* (iteration over a Tuple that holds one object twice is the open C11 finding, so it is walked only without one) */
  if (!dup) { foreach (x in c) { if (seen < size && x != items[seen]) { ok = 0; } seen++; } if (seen != size) { ok = 0; } }
  for (int i = 0; ok && i < size; i++) { if (!mem(c, items[i]) || get(c, $I(i)) != items[i] || get(c, $I(i - size)) != items[i]) { ok = 0; } }
  if (ok && size > 0) { var exc = NULL; VH_CATCH(set(c, $I(size - 1), extra), exc); if (exc || get(c, $I(size - 1)) != extra) { ok = 0; } }
  if (!ok) { vh_violation("C12:Tuple:not-usable-after-failed-operations", "a %s Tuple of %d items disagrees with its items after the refused operations", is_static ? "static" : "stack", size); }
  vh_count("fixed_storage_tuples_faulted");
  del_raw(other); del_raw(extra);
  for (int i = 0; i < size; i++) { del_raw(elems[i]); }
}

/* ---------- Strings that cannot be reallocated: $S(buffer) ----------
** A String on the stack wraps the caller's character buffer.  Every operation that would need another buffer (resize
** to ANY size -- larger, equal, smaller, zero --, concat, append, assign, a formatted write, reading into it) raises
** ValueError and leaves the caller's characters as they were. */
static char* ss_buf; enum { SS_CAP = 48 };
static void dump_stack_string(var s, char* out) {
  size_t off = (size_t)snprintf(out, DUMPCAP, "val=%s:len=%zu:", ((struct String*)s)->val == ss_buf ? "caller-buffer" : "OTHER", len(s));
  for (int i = 0; i < SS_CAP && off + 3 < DUMPCAP; i++) { off += (size_t)snprintf(out + off, DUMPCAP - off, "%02x", (unsigned char)ss_buf[i]); }
}
static void stack_string_faults(vh_rng* r, size_t L) {
  char buf[SS_CAP]; memset(buf, 0x7e, sizeof buf);
  for (size_t i = 0; i < L; i++) { buf[i] = (char)('a' + vh_below(r, 26)); }
  buf[L] = 0;
  ss_buf = buf;
  var s = $S(buf);
  cur_kind = "stack-String"; cur_size = L;
  size_t sizes[] = { L + 1, L + 20, L, L ? L - 1 : 0, L / 2, 0 };
  const char* names[] = { "len+1", "len+20", "len", "len-1", "len/2", "zero" };
  for (int k = 0; k < 6; k++) { FAULT(s, dump_stack_string, FC_RESIZE, "resize", names[k], resize(s, sizes[k])); }
  FAULT(s, dump_stack_string, FC_RESIZE, "concat", "one-character", concat(s, $S("x")));
  FAULT(s, dump_stack_string, FC_RESIZE, "concat", "empty", concat(s, $S("")));
  FAULT(s, dump_stack_string, FC_RESIZE, "append", "one-character", append(s, $S("y")));
  FAULT(s, dump_stack_string, FC_RESIZE, "assign", "shorter", assign(s, $S("")));
  FAULT(s, dump_stack_string, FC_RESIZE, "assign", "longer", assign(s, $S("a string that is longer than the buffer's text")));
  FAULT(s, dump_stack_string, FC_RESIZE, "assign", "itself", assign(s, s));
  FAULT(s, dump_stack_string, FC_RESIZE, "print_to", "at-zero", print_to(s, 0, "%i", $I(7)));
  FAULT(s, dump_stack_string, FC_RESIZE, "print_to", "at-len", print_to(s, (int)L, "z"));
  FAULT(s, dump_stack_string, FC_RESIZE, "look_from", "quoted-text", look_from(s, $S("\"q\""), 0));
  /* still usable for what needs no other buffer */
  vh_evals(2);
  char first[2] = { buf[0], 0 };
  if (len(s) != L || strlen(buf) != L || (L > 0 && !mem(s, $S(first))) || hash(s) != hash($S(buf))) {
    vh_violation("C12:String:not-usable-after-failed-operations", "a stack String of %zu characters disagrees with its buffer after the refused operations", L);
  }
  vh_count("stack_strings_faulted");
}

/* ---------- plain element types (no Assign instance): the default assignment checks the type itself ----------
** A value of another type offered to a plain struct -- directly, or as an element of an Array or List of them --
** raises TypeError and changes nothing: the default assignment copies size(type) bytes only between objects of one type. */
static var PlainA, PlainB;
static void dump_plain_seq(var c, char* out) {
  size_t off = (size_t)snprintf(out, DUMPCAP, "len=%zu:", len(c));
  foreach (x in c) { if (off + 60 > DUMPCAP) { break; } unsigned char* p = x; for (int i = 0; i < 24; i++) { off += (size_t)snprintf(out + off, DUMPCAP - off, "%02x", p[i]); } off += (size_t)snprintf(out + off, DUMPCAP - off, ","); }
}
static void dump_plain_obj(var x, char* out) { unsigned char* p = x; size_t off = 0; for (int i = 0; i < 24; i++) { off += (size_t)snprintf(out + off, DUMPCAP - off, "%02x", p[i]); } }
static void plain_struct_faults(vh_rng* r, int size) {
  _Alignas(16) char ba[sizeof(struct Header) + 24], bb[sizeof(struct Header) + 40];
  var good = header_init(ba, PlainA, AllocStack); memset(good, 0x31, 24);
  var other = header_init(bb, PlainB, AllocStack); memset(other, 0x77, 40);
  for (int list = 0; list < 2; list++) {
    var c = list ? (var)new_with(List, tuple(PlainA)) : (var)new_with(Array, tuple(PlainA));
    for (int i = 0; i < size; i++) { memset(good, 0x31 + i, 24); push(c, good); }
    cur_kind = list ? "List<plain-struct>" : "Array<plain-struct>"; cur_size = (size_t)size;
    var wrong[4]; wrong[0] = $I(5); wrong[1] = $S("text"); wrong[2] = other; wrong[3] = $F(2.5);
    static const char* WN[4] = { "an-Int", "a-String", "a-larger-plain-struct", "a-Float" };
    for (int w = 0; w < 4; w++) {
      FAULT(c, dump_plain_seq, FC_TYPE, "push", WN[w], push(c, wrong[w]));
      if (size > 0) {
        FAULT(c, dump_plain_seq, FC_TYPE, "set", WN[w], set(c, $I((int64_t)vh_below(r, (uint64_t)size)), wrong[w]));
        FAULT(c, dump_plain_seq, FC_TYPE, "push_at", WN[w], push_at(c, wrong[w], $I(0)));
      }
    }
    /* still usable */
    memset(good, 0x5c, 24);
    var exc = NULL; VH_CATCH(push(c, good), exc);
    vh_evals(2);
    if (exc || len(c) != (size_t)size + 1 || memcmp(get(c, $I(-1)), good, 24) != 0) { vh_violation("C12:plain-struct:not-usable-after-failed-operations", "%s of %d plain structs does not take a valid push after the refused ones", list ? "List" : "Array", size); }
    del(c);
  }
  /* direct assignment */
  memset(good, 0x42, 24);
  cur_kind = "plain-struct"; cur_size = 24;
  FAULT(good, dump_plain_obj, FC_TYPE, "assign", "an-Int", assign(good, $I(5)));
  FAULT(good, dump_plain_obj, FC_TYPE, "assign", "a-larger-plain-struct", assign(good, other));
  FAULT(good, dump_plain_obj, FC_TYPE, "assign", "a-String", assign(good, $S("text")));
  vh_count("plain_struct_containers_faulted");
}

/* ---------- maps ---------- */

static void map_faults(vh_rng* r, int is_tree, int strkeys, int size) {
  var c = new_with(is_tree ? Tree : Table, tuple(strkeys ? String : Int, Int));
  int present[128] = {0}; int64_t val[128]; int n = 0;
  char kb[24];
  for (int i = 0; i < size; i++) {
    int k = i * 2; snprintf(kb, sizeof kb, "k%03d", k);
    if (strkeys) { set(c, $S(kb), $I(k + 1)); } else { set(c, $I(k), $I(k + 1)); }
    present[k] = 1; val[k] = k + 1; n++;
  }
  if (size == 0) {
    int how = (int)vh_below(r, 3), k = 1 + (int)vh_below(r, 20);
    if (how > 0) {
      for (int i = 0; i < k; i++) { snprintf(kb, sizeof kb, "q%03d", i); if (strkeys) { set(c, $S(kb), $I(i)); } else { set(c, $I(1000 + i), $I(i)); } }
      if (how == 1) { for (int i = 0; i < k; i++) { snprintf(kb, sizeof kb, "q%03d", i); if (strkeys) { rem(c, $S(kb)); } else { rem(c, $I(1000 + i)); } } vh_count("empty_after_draining"); }
      else { resize(c, 0); vh_count("empty_after_resize_0"); }
    }
  }
  char kn[40]; snprintf(kn, sizeof kn, "%s<%s,Int>", is_tree ? "Tree" : "Table", strkeys ? "String" : "Int");
  cur_kind = kn; cur_size = (size_t)size;
  var absent = strkeys ? (var)$S("k999") : (var)$I(999);
  var absent2 = strkeys ? (var)$S("") : (var)$I(-1);
  var wrongkey = strkeys ? (var)$I(3) : (var)$S("k000");
  FAULT(c, dump_map, FC_KEY, "get", "absent-key", get(c, absent));
  FAULT(c, dump_map, FC_KEY, "rem", "absent-key", rem(c, absent));
  FAULT(c, dump_map, FC_KEY, "get", "absent-key-2", get(c, absent2));
  FAULT(c, dump_map, FC_KEY, "rem", "absent-key-2", rem(c, absent2));
  if (!strkeys && size > 0) {
    /* a chained lookup: the key is the object a previous get handed out, a value stored inside the map itself (the
       values are odd, the keys even: no stored value is a key) */
    var stored = get(c, $I(((size - 1) / 2) * 2));
    FAULT(c, dump_map, FC_KEY, "get", "absent-key-that-is-a-stored-value", get(c, stored));
    stored = get(c, $I(0));
    FAULT(c, dump_map, FC_KEY, "rem", "absent-key-that-is-a-stored-value", rem(c, stored));
    vh_count("stored_values_offered_as_absent_keys");
  }
  if (!strkeys) {
    FAULT(c, dump_map, FC_KEY, "get", "absent-INT64_MAX", get(c, $I(INT64_MAX)));
    FAULT(c, dump_map, FC_KEY, "rem", "absent-INT64_MIN", rem(c, $I(INT64_MIN)));
  }
  FAULT(c, dump_map, FC_TYPE, "get", "wrong-typed-key", get(c, wrongkey));
  FAULT(c, dump_map, FC_TYPE, "set", "wrong-typed-key", set(c, wrongkey, $I(1)));
  FAULT(c, dump_map, FC_TYPE, "rem", "wrong-typed-key", rem(c, wrongkey));
  FAULT(c, dump_map, FC_TYPE, "mem", "wrong-typed-key", mem(c, wrongkey));
  FAULT(c, dump_map, FC_TYPE, "set", "wrong-typed-value", set(c, absent, $S("v")));
  /* wrong types that the element type's own assignment would absorb if the container let them through: a type object
     has a name (String's assign takes anything with c_str), a probe element has an integer value (Int's assign takes
     anything with c_int) */
  var absorbable_key = strkeys ? (var)Int : (var)PE_KEY(999, 0);
  FAULT(c, dump_map, FC_TYPE, "set", "wrong-typed-key-its-type-could-absorb", set(c, absorbable_key, $I(1)));
  FAULT(c, dump_map, FC_TYPE, "set", "wrong-typed-value-its-type-could-absorb", set(c, absent, PE_KEY(7, 0)));
  FAULT(c, dump_map, FC_TYPE, "get", "wrong-typed-key-its-type-could-absorb", get(c, absorbable_key));
  FAULT(c, dump_map, FC_TYPE, "rem", "wrong-typed-key-its-type-could-absorb", rem(c, absorbable_key));
  if (size == 0) { vh_count("absorbable_wrong_types_offered_to_an_empty_map"); }
  if (size > 0) {
    var present_key = strkeys ? (var)$S("k000") : (var)$I(0);
    FAULT(c, dump_map, FC_TYPE, "set", "wrong-typed-value-for-bound-key", set(c, present_key, $F(1.5)));
  }
  FAULT(c, dump_map, FC_NULL, "get", "NULL-key", get(c, NULL));
  FAULT(c, dump_map, FC_NULL, "set", "NULL-key", set(c, NULL, $I(1)));
  FAULT(c, dump_map, FC_NULL, "set", "NULL-value", set(c, absent, NULL));
  FAULT(c, dump_map, FC_NULL, "rem", "NULL-key", rem(c, NULL));
  if (is_tree) {
    FAULT(c, dump_map, FC_RESIZE, "resize", "nonzero", resize(c, (size_t)size + 1));
    FAULT(c, dump_map, FC_RESIZE, "resize", "one", resize(c, 1));
  } else if (size > 1) {
    FAULT(c, dump_map, FC_RESIZE, "resize", "below-len", resize(c, (size_t)size - 1));
    FAULT(c, dump_map, FC_RESIZE, "resize", "to-one", resize(c, 1));
  }
  /* still usable */
  char key[128];
  for (int k = 0; k < 30; k++) {
    int id = (int)vh_below(r, 128);
    snprintf(kb, sizeof kb, "k%03d", id);
    var ko = strkeys ? (var)$S(kb) : (var)$I(id);
    if (present[id] && vh_chance(r, 50)) { rem(c, ko); present[id] = 0; n--; }
    else { int64_t v = vh_range(r, 0, 999); set(c, ko, $I(v)); if (!present[id]) { present[id] = 1; n++; } val[id] = v; }
    vh_eval();
    int ok = len(c) == (size_t)n;
    for (int i = 0; ok && i < 128; i++) {
      snprintf(kb, sizeof kb, "k%03d", i);
      var q = strkeys ? (var)$S(kb) : (var)$I(i);
      if (mem(c, q) != (present[i] != 0)) { ok = 0; }
      else if (present[i] && c_int(get(c, q)) != val[i]) { ok = 0; }
    }
    if (!ok) { snprintf(key, sizeof key, "C12:%s:not-usable-after-failed-operations", is_tree ? "Tree" : "Table"); vh_violation(key, "%s disagrees with its model after the failed operations", kn); break; }
  }
  reported_once(c, absent, is_tree ? "Tree" : "Table");
  vh_count("map_objects_faulted");
  del(c);
}

/* ---------- String, Range, scalars, format ---------- */

static void string_faults(const char* text) {
  var s = new(String, $S((char*)text));
  cur_kind = "String"; cur_size = strlen(text);
  FAULT(s, dump_string, FC_ELEMENT, "rem", "absent-substring", rem(s, $S("\x01zz-absent")));
  FAULT(s, dump_string, FC_CLASS, "concat", "argument-without-C_Str", concat(s, $I(5)));
  FAULT(s, dump_string, FC_NULL, "concat", "NULL", concat(s, NULL));
  FAULT(s, dump_string, FC_NULL, "assign", "NULL", assign(s, NULL));
  FAULT(s, dump_string, FC_CLASS, "assign", "argument-without-C_Str", assign(s, $F(1.0)));
  FAULT(s, dump_string, FC_CLASS, "get", "unimplemented-member", get(s, $I(0)));
  FAULT(s, dump_string, FC_CLASS, "push", "unimplemented-class", push(s, $S("x")));
  FAULT(s, dump_string, FC_FORMAT, "print_to", "too-few-arguments", print_to(s, 0, "abc %i def %s", $I(1)));
  FAULT(s, dump_string, FC_FORMAT, "print_to", "no-arguments", print_to(s, 0, "%$"));
  FAULT(s, dump_string, FC_FORMAT, "print_to", "too-few-arguments-at-end-position", print_to(s, (int)strlen(text), "x%iy%i", $I(1)));
  /* the missing argument belongs to a specification with flags, width, precision or a length modifier */
  static const char* SPECS[] = { "%li", "%lu", "%lld", "%hd", "%hhx", "%zu", "%jd", "%td", "%lf", "%5.2f", "%-8s", "%+08.3e", "%#lx", "%c", "%p", "% d" };
  for (size_t k = 0; k < sizeof SPECS / sizeof SPECS[0]; k++) {
    char f2[64], nm[48];
    snprintf(f2, sizeof f2, "count = %%i, total = %s!", SPECS[k]);
    snprintf(nm, sizeof nm, "too-few-arguments-for-%s", SPECS[k] + 1);
    for (char* q = nm; *q; q++) { if (!((*q >= 'a' && *q <= 'z') || (*q >= 'A' && *q <= 'Z') || (*q >= '0' && *q <= '9') || *q == '-')) { *q = '_'; } }
    FAULT(s, dump_string, FC_FORMAT, "print_to", nm, print_to_with(s, 0, f2, tuple($I(1))));
  }
  /* usable */
  vh_eval();
  append(s, $S("!tail"));
  char want[300]; snprintf(want, sizeof want, "%s!tail", text);
  if (strcmp(c_str(s), want) != 0) { vh_violation("C12:String:not-usable-after-failed-operations", "append after the failed operations gives \"%.80s\"", c_str(s)); }
  vh_count("string_objects_faulted");
  del(s);
}

static void range_faults(int64_t a, int64_t b, int64_t st) {
  var rg = new(Range, $I(a), $I(b), $I(st));
  int64_t n = (int64_t)len(rg);
  cur_kind = "Range"; cur_size = (size_t)n;
  FAULT(rg, dump_range, FC_INDEX, "get", "len", get(rg, $I(n)));
  FAULT(rg, dump_range, FC_INDEX, "get", "len+1", get(rg, $I(n + 1)));
  FAULT(rg, dump_range, FC_INDEX, "get", "-len-1", get(rg, $I(-n - 1)));
  FAULT(rg, dump_range, FC_INDEX, "get", "-len-7", get(rg, $I(-n - 7)));
  FAULT(rg, dump_range, FC_INDEX, "get", "len+1000", get(rg, $I(n + 1000)));
  /* "left exactly as it was" includes an iteration that is under way: a Range (and a Slice, through its own Range)
     keeps its cursor inside itself; a refused get in the loop body must not move it */
  for (int view = 0; view < 2; view++) {
    var arr = new(Array, Int);
    for (int i = 0; i < 9; i++) { push(arr, $I(100 + i)); }
    var it_obj = view == 0 ? rg : (var)new(Slice, arr, $I(1), $I(8), $I(2));
    int64_t want_n = (int64_t)len(it_obj), seen = 0, sum = 0, want_sum = 0;
    for (int64_t i = 0; i < want_n; i++) { want_sum += c_int(get(it_obj, $I(i))); }
    for (var it = iter_init(it_obj); it != Terminal && seen <= want_n; it = iter_next(it_obj, it)) {
      int64_t before = c_int(it);
      var exc = NULL;
      VH_CATCH(get(it_obj, $I(want_n + (seen % 3))), exc);
      vh_evals(2);
      if (exc != IndexOutOfBoundsError) { vh_violation("C12:iteration:get-out-of-range-did-not-raise", "get(%" PRId64 ") on a %s of %" PRId64 " items gave %s", want_n + (seen % 3), view ? "Slice" : "Range", want_n, vh_exc_name(exc)); }
      if (c_int(it) != before) { vh_violation(view ? "C12:Slice:get:during-iteration:object-changed" : "C12:Range:get:during-iteration:object-changed", "the item the loop is at changed from %" PRId64 " to %" PRId64 " across a refused get", before, c_int(it)); break; }
      sum += before; seen++;
    }
    vh_eval();
    if (seen != want_n || sum != want_sum) {
      vh_violation(view ? "C12:Slice:get:during-iteration:object-changed" : "C12:Range:get:during-iteration:object-changed", "an iteration with a refused get in its body visited %" PRId64 " of %" PRId64 " items (sum %" PRId64 ", expected %" PRId64 ")", seen, want_n, sum, want_sum);
    }
    if (view == 1) { del(it_obj); }
    del(arr);
    vh_count("iterations_with_a_refused_get_in_the_body");
  }
  vh_count("range_objects_faulted");
  del(rg);
}

static void dump_scalar(var x, char* out) {
  var t = type_of(x);
  if (t == Int) { snprintf(out, DUMPCAP, "Int %" PRId64, c_int(x)); }
  else if (t == Float) { snprintf(out, DUMPCAP, "Float %a", c_float(x)); }
  else { snprintf(out, DUMPCAP, "obj"); }
}

static void scalar_faults(void) {
  var i = new(Int, $I(42)), f = new(Float, $F(2.5));
  cur_kind = "Int"; cur_size = 0;
  FAULT(i, dump_scalar, FC_CLASS, "len", "unimplemented-class", len(i));
  FAULT(i, dump_scalar, FC_CLASS, "get", "unimplemented-class", get(i, $I(0)));
  FAULT(i, dump_scalar, FC_CLASS, "push", "unimplemented-class", push(i, $I(0)));
  FAULT(i, dump_scalar, FC_CLASS, "c_str", "unimplemented-class", c_str(i));
  FAULT(i, dump_scalar, FC_CLASS, "iter_init", "unimplemented-class", iter_init(i));
  FAULT(i, dump_scalar, FC_CLASS, "call", "unimplemented-class", call(i, $I(1)));
  FAULT(i, dump_scalar, FC_CLASS, "resize", "unimplemented-class", resize(i, 3));
  FAULT(i, dump_scalar, FC_CLASS, "assign", "argument-without-C_Int", assign(i, $S("12")));
  FAULT(i, dump_scalar, FC_NULL, "assign", "NULL", assign(i, NULL));
  FAULT(i, dump_scalar, FC_NULL, "cmp", "NULL", cmp(i, NULL));
  FAULT(i, dump_scalar, FC_TYPE, "cast", "other-type", cast(i, Float));
  cur_kind = "Float";
  FAULT(f, dump_scalar, FC_CLASS, "c_int", "unimplemented-class", c_int(f));
  FAULT(f, dump_scalar, FC_CLASS, "assign", "argument-without-C_Float", assign(f, $S("1.0")));
  FAULT(f, dump_scalar, FC_CLASS, "sort", "unimplemented-class", sort(f));
  cur_kind = "NULL";
  FAULT(i, dump_scalar, FC_NULL, "len", "NULL-object", len(NULL));
  FAULT(i, dump_scalar, FC_NULL, "type_of", "NULL-object", type_of(NULL));
  FAULT(i, dump_scalar, FC_NULL, "hash", "NULL-object", hash(NULL));
  FAULT(i, dump_scalar, FC_NULL, "copy", "NULL-object", copy(NULL));
  vh_count("scalar_objects_faulted");
  del(i); del(f);
}

/* ---------- driver ---------- */

static const int SIZES[] = { 0, 1, 2, 7, 64 };

static void fixed(void) {
  vh_rng r; vh_rng_seed(&r, 1212);
  for (int kind = 0; kind < 3; kind++) { for (int et = 0; et < (kind == SK_TUPLE ? 1 : 2); et++) { for (int si = 0; si < 5; si++) {
    for (int rep = 0; rep < (SIZES[si] == 0 ? 8 : 1); rep++) { seq_faults(&r, kind, et, SIZES[si]); }
  } } }
  for (int tree = 0; tree < 2; tree++) { for (int sk = 0; sk < 2; sk++) { for (int si = 0; si < 5; si++) { for (int rep = 0; rep < (SIZES[si] == 0 ? 8 : 1); rep++) { map_faults(&r, tree, sk, SIZES[si]); } } } }
  string_faults(""); string_faults("a"); string_faults("hello world"); string_faults("%i %s %% percent");
  range_faults(0, 10, 1); range_faults(0, 10, 3); range_faults(5, 5, 1); range_faults(-4, 9, -2); range_faults(0, 0, 1);
  scalar_faults();
  for (int st = 0; st < 2; st++) { for (int size = 0; size <= 8; size++) { fixed_tuple_faults(&r, size, st); } }
  for (size_t L = 0; L <= 26; L++) { stack_string_faults(&r, L); }
  for (int n = 0; n <= 6; n++) { plain_struct_faults(&r, n); }
  vh_info("faults run %ld distinct %ld", faults_run, distinct_faults);
  vh_count_n("distinct_faults_in_table", (uint64_t)distinct_faults);
  vh_count_n("faults_run", (uint64_t)faults_run);
}

/* random sizes and contents for the same fault table */
static void case_random(vh_rng* r, long index) {
  long f0 = faults_run;
  int size = vh_chance(r, 16) ? 0 : (int)vh_below(r, 70);
  switch (index % 4) {
    case 0: { int kind = (int)vh_below(r, 3); int et = kind == SK_TUPLE ? 0 : (int)vh_below(r, 2); seq_faults(r, kind, et, size); vh_op("%s size %d", SKNAME[kind], size);
              int ts = (int)vh_below(r, 9), st = (int)vh_below(r, 2); vh_op("%s Tuple of %d items", st ? "static" : "stack", ts); fixed_tuple_faults(r, ts, st); break; }
    case 1: { int tree = (int)vh_below(r, 2), sk = (int)vh_below(r, 2); if (size > 60) { size = 60; } map_faults(r, tree, sk, size); vh_op("%s strkeys=%d size %d", tree ? "Tree" : "Table", sk, size); break; }
    case 2: { stack_string_faults(r, (size_t)vh_below(r, 27)); plain_struct_faults(r, (int)vh_below(r, 9)); char t[80]; size_t n = vh_below(r, 60); for (size_t i = 0; i < n; i++) { t[i] = (char)(32 + vh_below(r, 90)); } t[n] = 0; string_faults(t); vh_op("String \"%s\"", t); break; }
    default: { int64_t a = vh_range(r, -20, 20), b = vh_range(r, -20, 20), st = vh_range(r, -4, 4); range_faults(a, b, st); vh_op("range(%" PRId64 ",%" PRId64 ",%" PRId64 ")", a, b, st); break; }
  }
  vh_count_n("faults_run", (uint64_t)(faults_run - f0));
  vh_nontrivial();
}

int main(int argc, char** argv) {
  probes_init();
  pe_prop = "C12";
  PlainA = new_root(Type, $S("PlainA"), $I(24));
  PlainB = new_root(Type, $S("PlainB"), $I(40));
  return vh_run(argc, argv, "faults", fixed, case_random);
}
