/*
** C03 -- Tree behaves as an ordered map and stays a valid red-black tree.
**
** Reference: present[]/val[] over an ordered key universe (id order == key order).  After EVERY
** operation: len, mem/get of every key, KeyError on absent, forward iteration strictly monotone
** over exactly the bound keys, backward iteration its exact reverse; white-box validator over the
** node layout (own code; unity include of Tree.c only supplies struct Tree).
*/
#include "probes.h"
#include "Tree.c"

enum { MAXU = 6000 };
enum { KM_INT, KM_INT_WIDE, KM_STR, KM_PE, KM_STR_PREFIX, KM_COUNT };
static const char* KMNAME[KM_COUNT] = { "int", "int-wide", "str", "pelem", "str-prefix-chains" };

static int kmode, U;
static long case_serial;
static var K[MAXU];
static int present[MAXU];
static int64_t val[MAXU];
static int nmodel;
static int64_t version;
static int direction;     /* 0 unknown, +1 ascending, -1 descending: pinned at first observation */

/* KM_STR_PREFIX: String keys in which every key is followed, in key order, by its own extensions ("a", "aa", "aaa",
   "aab", "ab", ...: the strings over {a,b} in lexicographic order): neighbours in the tree are prefixes of each other */
static char pfx[MAXU][16];
static int pfx_n;
static void pfx_gen(char* cur, int len, int maxlen, int want) {
  if (pfx_n >= want) { return; }
  if (len > 0) { memcpy(pfx[pfx_n], cur, (size_t)len); pfx[pfx_n][len] = 0; pfx_n++; }
  if (len == maxlen) { return; }
  cur[len] = 'a'; pfx_gen(cur, len + 1, maxlen, want);
  cur[len] = 'b'; pfx_gen(cur, len + 1, maxlen, want);
}

static int key_to_id(var k) {
  switch (kmode) {
    case KM_STR_PREFIX: { const char* s = ((struct String*)k)->val; for (int i = 0; i < U; i++) { if (strcmp(s, pfx[i]) == 0) { return i; } } return -1; }
    case KM_INT: { int64_t v = ((struct Int*)k)->val + 1000; return (v % 3 == 0 && v / 3 >= 0 && v / 3 < U) ? (int)(v / 3) : -1; }
    case KM_INT_WIDE: {
      int64_t v = ((struct Int*)k)->val;
      int64_t step = (int64_t)1 << 29;
      int64_t base = -(int64_t)(U / 2) * step;
      if ((v - base) % step != 0) { return -1; }
      int64_t id = (v - base) / step;
      return id >= 0 && id < U ? (int)id : -1;
    }
    case KM_STR: { const char* s = ((struct String*)k)->val; if (s[0] != 'k') { return -1; } int id = atoi(s + 1); return id >= 0 && id < U ? id : -1; }
    default: { int64_t id = ((struct PElem*)k)->id; return id >= 0 && id < U ? (int)id : -1; }
  }
}

static void make_keys(void) {
  if (kmode == KM_STR_PREFIX) {
    /* the first U strings of the full trie of depth L (2^(L+1)-2 >= U): deep enough that chains are long */
    int L = 1; while ((2 << L) - 2 < U) { L++; }
    char cur[16]; pfx_n = 0; pfx_gen(cur, 0, L + 2 > 14 ? 14 : L + 2, U);
  }
  for (int i = 0; i < U; i++) {
    switch (kmode) {
      case KM_STR_PREFIX: K[i] = new_raw(String, $S(pfx[i])); break;
      case KM_INT: K[i] = new_raw(Int, $I((int64_t)i * 3 - 1000)); break;
      /* within +-2^30 * U/2: differences stay far from the int64 limits (C09 owns that) */
      case KM_INT_WIDE: K[i] = new_raw(Int, $I(((int64_t)i - U / 2) * ((int64_t)1 << 29))); break;
      case KM_STR: { char b[16]; snprintf(b, sizeof b, "k%05d", i); K[i] = new_raw(String, $S(b)); break; }
      default: K[i] = new_raw(PElem, $I(i), $I(i % 7)); break;
    }
  }
}
static void free_keys(void) { for (int i = 0; i < U; i++) { del_raw(K[i]); K[i] = NULL; } }
static var key_type_of_mode(void) { return (kmode == KM_STR || kmode == KM_STR_PREFIX) ? String : kmode == KM_PE ? PElem : Int; }

/* ---------- white-box validator (own traversal of the node layout) ---------- */

struct wb { var left, right; uintptr_t parent_colour; };
static var wb_left(var n) { return ((struct wb*)n)->left; }
static var wb_right(var n) { return ((struct wb*)n)->right; }
static var wb_parent(var n) { return (var)(((struct wb*)n)->parent_colour & ~(uintptr_t)1); }
static int wb_red(var n) { return n != NULL && (((struct wb*)n)->parent_colour & 1); }
static var wb_keyof(var n) { return (char*)n + 3 * sizeof(var) + sizeof(struct Header); }

static long wb_nodes;
static int wb_bad;
static int wb_orient;     /* +1: larger keys in the left subtree, -1: in the right; observed, then pinned */
static var wb_larger(var n) { return wb_orient >= 0 ? wb_left(n) : wb_right(n); }
static var wb_smaller(var n) { return wb_orient >= 0 ? wb_right(n) : wb_left(n); }
static const char* wb_after;

/* returns black height, -1 after an error; lo/hi: exclusive id bounds (larger keys are on the left) */
static int wb_walk(var n, var parent, int lo, int hi, int depth, int* maxdepth) {
  if (n == NULL) { return 1; }
  if (wb_bad || depth > 200) { wb_bad = 1; return -1; }
  wb_nodes++;
  if (depth > *maxdepth) { *maxdepth = depth; }
  if (wb_parent(n) != parent) { vh_violation("C03:whitebox:parent-link", "child's parent link does not point to its parent after %s", wb_after); wb_bad = 1; return -1; }
  int id = key_to_id(wb_keyof(n));
  if (id < 0) { vh_violation("C03:whitebox:unknown-key", "node holds a key outside the universe after %s", wb_after); wb_bad = 1; return -1; }
  if (id <= lo || id >= hi) { vh_violation("C03:whitebox:search-order", "node key id %d outside (%d,%d) after %s", id, lo, hi, wb_after); wb_bad = 1; return -1; }
  if (wb_red(n) && (wb_red(wb_left(n)) || wb_red(wb_right(n)))) {
    vh_violation("C03:whitebox:red-red", "red node id %d has a red child after %s", id, wb_after); wb_bad = 1; return -1;
  }
  int bl = wb_walk(wb_larger(n), n, id, hi, depth + 1, maxdepth);
  int br = wb_walk(wb_smaller(n), n, lo, id, depth + 1, maxdepth);
  if (bl < 0 || br < 0) { return -1; }
  if (bl != br) { vh_violation("C03:whitebox:black-height", "black heights %d and %d differ below node id %d after %s", bl, br, id, wb_after); wb_bad = 1; return -1; }
  return bl + (wb_red(n) ? 0 : 1);
}

static void whitebox(var tree, const char* after) {
  struct Tree* m = tree;
  wb_nodes = 0; wb_bad = 0; wb_after = after;
  vh_evals(5);
  if (m->root == NULL) {
    if (m->nitems != 0) { vh_violation("C03:whitebox:count", "nitems=%zu with no root after %s", m->nitems, after); }
    return;
  }
  if (wb_red(m->root)) { vh_violation("C03:whitebox:red-root", "root is red after %s", after); }
  if (wb_orient == 0 && (wb_left(m->root) || wb_right(m->root))) {
    int rid = key_to_id(wb_keyof(m->root));
    var c = wb_left(m->root) ? wb_left(m->root) : wb_right(m->root);
    int cid = key_to_id(wb_keyof(c));
    int left_is_larger = wb_left(m->root) ? (cid > rid) : (cid < rid);
    wb_orient = left_is_larger ? 1 : -1;
  }
  int maxdepth = 0;
  wb_walk(m->root, NULL, -1, U, 1, &maxdepth);
  if (wb_bad) { return; }
  if ((size_t)wb_nodes != m->nitems) { vh_violation("C03:whitebox:count", "%ld nodes but nitems=%zu after %s", wb_nodes, m->nitems, after); }
  /* height <= 2*log2(n+1) */
  double bound = 2.0 * log2((double)wb_nodes + 1.0);
  if ((double)maxdepth > bound + 1e-9) { vh_violation("C03:whitebox:height", "height %d exceeds 2*log2(%ld+1)=%.2f after %s", maxdepth, wb_nodes, bound, after); }
  if (maxdepth >= 6) { vh_count("validations_of_trees_of_height_6_or_more"); }
}

static var wb_find(var tree, int id) {
  struct Tree* m = tree;
  var n = m->root;
  while (n) { int nid = key_to_id(wb_keyof(n)); if (nid == id) { return n; } n = nid < id ? wb_larger(n) : wb_smaller(n); }
  return NULL;
}

static char classbuf[96];
/* classify a removal before it happens (first round of the repair) */
static const char* classify_removal(var tree, int id) {
  var n = wb_find(tree, id);
  if (!n) { return NULL; }
  const char* two = "";
  if (wb_left(n) && wb_right(n)) {
    two = "two-children,"; vh_count("rem_node_with_two_children");
    n = wb_left(n); while (wb_right(n)) { n = wb_right(n); }
  }
  if (((struct Tree*)tree)->root == n && !wb_left(n) && !wb_right(n)) { snprintf(classbuf, sizeof classbuf, "rem_class:%slast-node", two); return classbuf; }
  var child = wb_right(n) ? wb_right(n) : wb_left(n);
  if (wb_red(n)) { snprintf(classbuf, sizeof classbuf, "rem_class:%sred-node", two); return classbuf; }
  if (wb_red(child)) { snprintf(classbuf, sizeof classbuf, "rem_class:%sblack-node-red-child", two); return classbuf; }
  var p = wb_parent(n);
  if (!p) { snprintf(classbuf, sizeof classbuf, "rem_class:%sblack-root", two); return classbuf; }
  int side_left = wb_left(p) == n;
  var s = side_left ? wb_right(p) : wb_left(p);
  const char* side = side_left ? "L" : "R";
  if (wb_red(s)) { snprintf(classbuf, sizeof classbuf, "rem_class:double-black:%s:red-sibling", side); return classbuf; }
  var near = s ? (side_left ? wb_left(s) : wb_right(s)) : NULL;
  var far = s ? (side_left ? wb_right(s) : wb_left(s)) : NULL;
  if (!wb_red(near) && !wb_red(far)) {
    snprintf(classbuf, sizeof classbuf, "rem_class:double-black:%s:black-nephews:%s-parent", side, wb_red(p) ? "red" : "black");
  } else if (wb_red(far)) {
    snprintf(classbuf, sizeof classbuf, "rem_class:double-black:%s:far-nephew-red", side);
  } else {
    snprintf(classbuf, sizeof classbuf, "rem_class:double-black:%s:near-nephew-red", side);
  }
  return classbuf;
}

/* keep counter names alive (vh_count keeps the pointer) */
static const char* intern(const char* s) {
  static char* pool[64]; static int n;
  for (int i = 0; i < n; i++) { if (strcmp(pool[i], s) == 0) { return pool[i]; } }
  if (n < 64) { pool[n] = strdup(s); return pool[n++]; }
  return "rem_class:other";
}

/* will the insertion of id meet a red parent with a red uncle? */
static void classify_insert(var tree, int id) {
  struct Tree* m = tree;
  var n = m->root, p = NULL;
  while (n) { p = n; int nid = key_to_id(wb_keyof(n)); if (nid == id) { return; } n = nid < id ? wb_larger(n) : wb_smaller(n); }
  if (!p || !wb_red(p)) { return; }
  var g = wb_parent(p);
  if (!g) { return; }
  var u = wb_left(g) == p ? wb_right(g) : wb_left(g);
  if (wb_red(u)) { vh_count("insert_red_uncle_recolour"); if (wb_parent(g) == NULL || wb_red(wb_parent(g))) { vh_count("insert_recolour_propagates"); } }
  else { vh_count("insert_rotation"); }
}

/* ---------- behavioural oracle ---------- */

/* values are Ints, or (every other case) 40-byte plain records: a node then carries a value five times as wide as an
   Int key, and every byte of it must survive set, update, assign, copy and the payload moves of a removal */
struct WideV { int64_t v, nv, v3; unsigned char pad[16]; };
static var WideV;
static int wide_vals;
static var val_type_of_case(void) { return wide_vals ? WideV : Int; }
static var mk_val(int64_t v) {
  static _Alignas(16) char buf[sizeof(struct Header) + sizeof(struct WideV)];
  if (!wide_vals) { struct Int* i = header_init(buf, Int, AllocStack); i->val = v; return i; }
  struct WideV* w = header_init(buf, WideV, AllocStack);
  w->v = v; w->nv = ~v; w->v3 = v * 3; memset(w->pad, 0x5A ^ (int)(v & 0xF), sizeof w->pad);
  return w;
}
static int64_t value_of(var x) {
  if (!wide_vals) { return ((struct Int*)x)->val; }
  struct WideV* w = x;
  if (w->nv != ~w->v || w->v3 != w->v * 3) { return INT64_MIN; }
  for (size_t i = 0; i < sizeof w->pad; i++) { if (w->pad[i] != (unsigned char)(0x5A ^ (int)(w->v & 0xF))) { return INT64_MIN + 1; } }
  return w->v;
}
static int order[MAXU];

static void check_against(var tree, const int* pres, const int64_t* vals, int n, const char* after, const char* who) {
  char key[96];
  #define KEY(s) (snprintf(key, sizeof key, "C03:%s:%s", who, s), key)
  vh_eval();
  if (len(tree) != (size_t)n) { vh_violation(KEY("len-mismatch"), "len=%zu reference=%d after %s", len(tree), n, after); }
  static int window;
  int lo = 0, hi = U;
  if (U > 300) { window = (window + 100) % U; lo = window; hi = window + 100 < U ? window + 100 : U; }
  for (int i = lo; i < hi; i++) {
    var exc = NULL; bool m = false;
    vh_evals(2);
    VH_CATCH(m = mem(tree, K[i]), exc);
    if (exc) { vh_violation(KEY("mem-raised"), "mem(key %d) raised %s after %s", i, vh_exc_name(exc), after); continue; }
    if (m != (pres[i] != 0)) { vh_violation(KEY(pres[i] ? "bound-key-not-found" : "unbound-key-found"), "mem(key %d)=%d reference=%d after %s", i, (int)m, pres[i], after); continue; }
    var got = NULL;
    VH_CATCH(got = get(tree, K[i]), exc);
    if (pres[i]) {
      if (exc) { vh_violation(KEY("get-raised-for-bound-key"), "get(key %d) raised %s after %s", i, vh_exc_name(exc), after); }
      else if (value_of(got) != vals[i]) { vh_violation(KEY("wrong-value"), "get(key %d)=%" PRId64 " reference=%" PRId64 " after %s", i, value_of(got), vals[i], after); }
    } else if (exc != KeyError) { vh_violation(KEY("get-absent-no-keyerror"), "get(absent key %d) gave %s after %s", i, vh_exc_name(exc), after); }
  }
  /* forward iteration: strictly monotone, exactly the bound keys */
  size_t steps = 0, limit = (size_t)n + 2;
  int prev = -1, bad = 0;
  var it = iter_init(tree);
  while (it != Terminal && steps <= limit) {
    int id = key_to_id(it);
    vh_evals(2);
    if (id < 0) { vh_violation(KEY("iteration-unknown-key"), "forward step %zu yields a key outside the universe after %s", steps, after); bad = 1; break; }
    if (!pres[id]) { vh_violation(KEY("iteration-yields-unbound-key"), "forward iteration yields unbound key %d after %s", id, after); bad = 1; break; }
    if (steps > 0) {
      int d = id > prev ? 1 : id < prev ? -1 : 0;
      if (d == 0) { vh_violation(KEY("iteration-repeats-key"), "forward iteration yields key %d twice in a row after %s", id, after); bad = 1; break; }
      if (direction == 0) { direction = d; }
      if (d != direction) { vh_violation(KEY("iteration-not-monotone"), "forward iteration goes from key %d to key %d against the direction of the run after %s", prev, id, after); bad = 1; break; }
    }
    if (value_of(get(tree, it)) != vals[id]) { vh_violation(KEY("wrong-value-via-iteration-key"), "get(iteration key %d) wrong after %s", id, after); }
    if (steps < MAXU) { order[steps] = id; }
    prev = id; steps++;
    it = iter_next(tree, it);
  }
  if (bad) { return; }
  if (steps > limit) { vh_violation(KEY("iteration-does-not-end"), "more than len+2 forward steps after %s", after); return; }
  if (steps != (size_t)n) { vh_violation(KEY("iteration-count"), "forward iteration yields %zu keys, reference %d after %s", steps, n, after); return; }
  /* backward iteration: exact reverse */
  size_t back = 0;
  it = iter_last(tree);
  while (it != Terminal && back <= limit) {
    int id = key_to_id(it);
    vh_eval();
    if (back >= steps || id != order[steps - 1 - back]) {
      vh_violation(KEY("backward-not-reverse-of-forward"), "backward step %zu yields key %d, forward order has %d there after %s",
        back, id, back < steps ? order[steps - 1 - back] : -1, after);
      return;
    }
    back++;
    it = iter_prev(tree, it);
  }
  if (back != steps) { vh_violation(KEY("backward-count"), "backward iteration yields %zu keys, forward %zu after %s", back, steps, after); }
  #undef KEY
}

/* ---------- operations ---------- */

static var T;
static char opd[128];

static void do_set(int id) {
  var exc;
  int64_t v = ++version;
  if (!present[id]) { classify_insert(T, id); vh_count("set_fresh"); } else { vh_count("set_update"); }
  snprintf(opd, sizeof opd, "set(k%d,%" PRId64 ")", id, v);
  vh_op("%s", opd);
  VH_CATCH(set(T, K[id], mk_val(v)), exc);
  if (exc) { vh_violation("C03:model:set-raised", "%s raised %s", opd, vh_exc_name(exc)); }
  if (!present[id]) { present[id] = 1; nmodel++; }
  val[id] = v;
}

static void do_rem(int id) {
  var exc;
  snprintf(opd, sizeof opd, "rem(k%d)", id);
  vh_op("%s", opd);
  if (present[id]) {
    const char* cls = classify_removal(T, id);
    if (cls) { vh_count(intern(cls)); }
    VH_CATCH(rem(T, K[id]), exc);
    if (exc) { vh_violation("C03:model:rem-raised-for-bound-key", "%s raised %s", opd, vh_exc_name(exc)); }
    present[id] = 0; nmodel--;
    if (nmodel == 0) { vh_count("drained_to_empty"); }
  } else {
    VH_CATCH(rem(T, K[id]), exc);
    vh_eval();
    if (exc != KeyError) { vh_violation("C03:model:rem-absent-no-keyerror", "%s (absent) gave %s", opd, vh_exc_name(exc)); }
    vh_count("rem_absent");
  }
}

static void verify(void) {
  check_against(T, present, val, nmodel, opd, "model");
  whitebox(T, opd);
}

static int pick(vh_rng* r, int want_present) {
  int start = (int)vh_below(r, (uint64_t)U);
  for (int i = 0; i < U; i++) { int id = (start + i) % U; if ((present[id] != 0) == (want_present != 0)) { return id; } }
  return -1;
}

static int root_id(void) { struct Tree* m = T; return m->root ? key_to_id(wb_keyof(m->root)) : -1; }

static int two_children_id(vh_rng* r) {
  int start = (int)vh_below(r, (uint64_t)U);
  for (int i = 0; i < U; i++) {
    int id = (start + i) % U;
    if (!present[id]) { continue; }
    var n = wb_find(T, id);
    if (n && wb_left(n) && wb_right(n)) { return id; }
  }
  return -1;
}

static void random_ops(vh_rng* r, int nops, int wset) {
  for (int op = 0; op < nops; op++) {
    int roll = (int)vh_below(r, 100);
    var exc;
    if (roll < wset) {
      int id = vh_chance(r, 25) && nmodel ? pick(r, 1) : pick(r, 0);
      if (id < 0) { id = (int)vh_below(r, (uint64_t)U); }
      do_set(id);
    } else if (roll < wset + 30) {
      int id = pick(r, 1);
      if (id < 0) { continue; }
      if (vh_chance(r, 20) && root_id() >= 0) { id = root_id(); }
      else if (vh_chance(r, 25)) { int t2 = two_children_id(r); if (t2 >= 0) { id = t2; } }
      do_rem(id);
    } else if (roll < wset + 36) {
      int id = pick(r, 0);
      if (id < 0) { continue; }
      do_rem(id);
    } else if (roll < wset + 39) {
      snprintf(opd, sizeof opd, "resize(0)");
      vh_op("%s", opd);
      VH_CATCH(resize(T, 0), exc);
      if (exc) { vh_violation("C03:model:resize0-raised", "resize(0) raised %s", vh_exc_name(exc)); }
      memset(present, 0, sizeof(int) * (size_t)U); nmodel = 0;
      vh_count("resize_0");
    } else if (roll < wset + 43) {
      int from_table = vh_chance(r, 40);
      var src = new_with(from_table ? Table : Tree, tuple(key_type_of_mode(), val_type_of_case()));
      static int p2[MAXU]; static int64_t v2[MAXU];
      int n2 = 0;
      memset(p2, 0, sizeof(int) * (size_t)U);
      int want = (int)vh_below(r, (uint64_t)(U < 200 ? U : 200) + 1);
      for (int i = 0; i < want; i++) {
        int id = (int)vh_below(r, (uint64_t)U);
        int64_t v = ++version;
        set(src, K[id], mk_val(v));
        if (!p2[id]) { p2[id] = 1; n2++; }
        v2[id] = v;
      }
      snprintf(opd, sizeof opd, "assign(from %s of %d)", from_table ? "Table" : "Tree", n2);
      vh_op("%s", opd);
      VH_CATCH(assign(T, src), exc);
      if (exc) { vh_violation("C03:model:assign-raised", "%s raised %s", opd, vh_exc_name(exc)); }
      memcpy(present, p2, sizeof(int) * (size_t)U); memcpy(val, v2, sizeof(int64_t) * (size_t)U); nmodel = n2;
      if (!from_table) { check_against(src, p2, v2, n2, opd, "assign-source"); }
      del(src);
      vh_count(from_table ? "assign_from_table" : "assign_from_tree");
    } else {
      snprintf(opd, sizeof opd, "copy+mutate");
      vh_op("%s", opd);
      var c = NULL;
      VH_CATCH(c = copy(T), exc);
      if (exc || !c) { vh_violation("C03:model:copy-raised", "copy raised %s", vh_exc_name(exc)); continue; }
      check_against(c, present, val, nmodel, "copy", "copy");
      whitebox(c, "copy");
      static int p2[MAXU]; static int64_t v2[MAXU];
      memcpy(p2, present, sizeof(int) * (size_t)U); memcpy(v2, val, sizeof(int64_t) * (size_t)U);
      int n2 = nmodel;
      for (int k = 0; k < 3; k++) {
        int id = (int)vh_below(r, (uint64_t)U);
        if (p2[id] && vh_chance(r, 50)) { rem(c, K[id]); p2[id] = 0; n2--; }
        else { int64_t v = ++version; set(c, K[id], mk_val(v)); if (!p2[id]) { p2[id] = 1; n2++; } v2[id] = v; }
      }
      check_against(c, p2, v2, n2, "copy mutated", "copy");
      whitebox(c, "copy mutated");
      del(c);
      vh_count("copies");
    }
    verify();
  }
}

static void run_tree_case(vh_rng* r, int mode, int universe, int pattern, int nops) {
  kmode = mode; U = universe;
  wide_vals = (int)(case_serial++ & 1);
  if (wide_vals) { vh_count("trees_with_values_wider_than_keys"); }
  int64_t live0 = pe.live;
  make_keys();
  memset(present, 0, sizeof present); nmodel = 0; version = 0;
  /* T lives in static storage, which the collector does not scan: it is allocated as a root */
  T = new_root_with(Tree, tuple(key_type_of_mode(), val_type_of_case()));
  snprintf(opd, sizeof opd, "construction");
  vh_op("tree<%s> U=%d pattern=%d ops=%d", KMNAME[mode], U, pattern, nops);
  verify();
  switch (pattern) {
    case 0:
      random_ops(r, nops, 50);
      break;
    case 1:   /* ascending inserts, remove the root until empty, refill descending, random tail */
      for (int i = 0; i < U; i++) { do_set(i); verify(); }
      while (nmodel > 0 && root_id() >= 0) { do_rem(root_id()); verify(); vh_count("rem_root"); }
      for (int i = U - 1; i >= 0; i--) { do_set(i); verify(); }
      random_ops(r, nops / 2, 35);
      break;
    case 2:   /* descending inserts, remove nodes that have two children, random tail */
      for (int i = U - 1; i >= 0; i--) { do_set(i); verify(); }
      for (;;) { int id = two_children_id(r); if (id < 0) { break; } do_rem(id); verify(); }
      random_ops(r, nops / 2, 55);
      break;
    case 3: { /* alternating outside-in inserts, drain ascending, refill in random order */
      for (int i = 0; i < U; i++) { int id = (i % 2 == 0) ? i / 2 : U - 1 - i / 2; do_set(id); verify(); }
      for (int i = 0; i < U; i++) { if (present[i]) { do_rem(i); verify(); } }
      for (int i = 0; i < U; i++) { do_set((int)vh_below(r, (uint64_t)U)); verify(); }
      random_ops(r, nops / 2, 30);
      break;
    }
    default: /* grow-heavy then remove-heavy phases */
      random_ops(r, nops / 2, 75);
      random_ops(r, nops / 2, 15);
      break;
  }
  if (vh.nops >= 20) { vh_nontrivial(); }
  del(T); T = NULL;
  free_keys();
  if (mode == KM_PE) {
    vh_eval();
    if (pe.live != live0) { vh_violation("C03:ledger:elements-left-after-delete", "%" PRId64 " probe keys still live after deleting the tree", pe.live - live0); }
  }
}

static int big_cases;

static void case_random(vh_rng* r, long index) {
  int mode = (int)(index % KM_COUNT);
  int pattern = (int)((index / KM_COUNT) % 5);
  static const int US[] = { 1, 2, 3, 5, 8, 13, 21, 34, 64, 120, 250 };
  int universe = US[vh_below(r, vh.thorough ? 11 : 9)];
  int nops = 40 + (int)vh_below(r, (uint64_t)universe * 3 + 1);
  if (!vh.thorough && nops > 150) { nops = 150; }
  if (vh.thorough && big_cases && index % 29 == 0) { universe = 1000 + (int)vh_below(r, 4500); mode = KM_INT; pattern = 1 + (int)vh_below(r, 4); nops = 2000; }
  run_tree_case(r, mode, universe, pattern, nops);
}

static void fixed(void) {
  vh_rng r; vh_rng_seed(&r, 777);
  for (int mode = 0; mode < KM_COUNT; mode++) {
    for (int pattern = 0; pattern < 5; pattern++) {
      vh.oplen = 0; vh.oplog[0] = 0; vh.nops = 0;
      run_tree_case(&r, mode, 40 + 7 * pattern, pattern, 300);
    }
  }
}

int main(int argc, char** argv) {
  probes_init();
  pe_prop = "C03";
  WideV = new_root(Type, $S("WideV"), $I(sizeof(struct WideV)));
  big_cases = getenv("VH_BIG") != NULL;
  return vh_run(argc, argv, "tree", fixed, case_random);
}
