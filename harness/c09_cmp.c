/*
** C09 -- cmp is a consistent total order and the predicates derive from it.
** Reference orders are computed in plain C; every pair is checked for the reference sign,
** antisymmetry, reflexivity, predicate agreement; triples for transitivity; boundary keys are
** looked up again in a Tree and a Table.
*/
#include "vh.h"
#include <float.h>

static int sgn(int x) { return (x > 0) - (x < 0); }
static int sgn64(int64_t a, int64_t b) { return (a > b) - (a < b); }
static int sgnd(double a, double b) { return (a > b) - (a < b); }
static int sgnstr(const char* a, const char* b) {
  const unsigned char *p = (const unsigned char*)a, *q = (const unsigned char*)b;
  while (*p && *p == *q) { p++; q++; }
  return (*p > *q) - (*p < *q);
}

static char keybuf[96];
static const char* K(const char* dom, const char* what) {
  snprintf(keybuf, sizeof keybuf, "C09:%s:%s", dom, what);
  return keybuf;
}

/* all pair oracles; desc is a printable description of the pair */
static void check_pair(const char* dom, var a, var b, int ref, const char* desc) {
  int c1 = sgn(cmp(a, b)), c2 = sgn(cmp(b, a));
  vh_evals(10);
  if (c1 != ref) { vh_violation(K(dom, "order"), "sign(cmp(a,b))=%d, reference %d for %s", c1, ref, desc); }
  if (c2 != -c1) { vh_violation(K(dom, "antisymmetry"), "sign(cmp(a,b))=%d but sign(cmp(b,a))=%d for %s", c1, c2, desc); }
  if (cmp(a, a) != 0 || cmp(b, b) != 0) { vh_violation(K(dom, "reflexivity"), "cmp(x,x) != 0 for %s", desc); }
  if (eq(a, b) != (ref == 0)) { vh_violation(K(dom, "predicate-eq"), "eq=%d, reference sign %d for %s", (int)eq(a, b), ref, desc); }
  if (neq(a, b) != (ref != 0)) { vh_violation(K(dom, "predicate-neq"), "neq=%d, reference sign %d for %s", (int)neq(a, b), ref, desc); }
  if (lt(a, b) != (ref < 0)) { vh_violation(K(dom, "predicate-lt"), "lt=%d, reference sign %d for %s", (int)lt(a, b), ref, desc); }
  if (gt(a, b) != (ref > 0)) { vh_violation(K(dom, "predicate-gt"), "gt=%d, reference sign %d for %s", (int)gt(a, b), ref, desc); }
  if (le(a, b) != (ref <= 0)) { vh_violation(K(dom, "predicate-le"), "le=%d, reference sign %d for %s", (int)le(a, b), ref, desc); }
  if (ge(a, b) != (ref >= 0)) { vh_violation(K(dom, "predicate-ge"), "ge=%d, reference sign %d for %s", (int)ge(a, b), ref, desc); }
}

/* transitivity from the library's own answers only */
static void check_triple(const char* dom, var a, var b, var c, const char* desc) {
  int ab = sgn(cmp(a, b)), bc = sgn(cmp(b, c)), ac = sgn(cmp(a, c));
  vh_eval();
  if (ab <= 0 && bc <= 0) {
    int want = (ab < 0 || bc < 0) ? -1 : 0;
    if (ac != want) { vh_violation(K(dom, "transitivity"), "ab=%d bc=%d but ac=%d for %s", ab, bc, ac, desc); }
  }
  if (ab >= 0 && bc >= 0) {
    int want = (ab > 0 || bc > 0) ? 1 : 0;
    if (ac != want) { vh_violation(K(dom, "transitivity"), "ab=%d bc=%d but ac=%d for %s", ab, bc, ac, desc); }
  }
}

/* ---------- Int ---------- */

static int64_t IGRID[64];
static int nigrid;

static void build_int_grid(void) {
  int64_t base[] = { INT64_MIN, INT64_MIN + 1, -((int64_t)1 << 62) - 1, -((int64_t)1 << 62), -((int64_t)1 << 62) + 1,
    -((int64_t)1 << 32) - 1, -((int64_t)1 << 32), -((int64_t)1 << 32) + 1,
    -((int64_t)1 << 31) - 1, -((int64_t)1 << 31), -((int64_t)1 << 31) + 1, -2, -1, 0, 1, 2,
    ((int64_t)1 << 31) - 1, ((int64_t)1 << 31), ((int64_t)1 << 31) + 1,
    ((int64_t)1 << 32) - 1, ((int64_t)1 << 32), ((int64_t)1 << 32) + 1,
    ((int64_t)1 << 62) - 1, ((int64_t)1 << 62), ((int64_t)1 << 62) + 1, INT64_MAX - 1, INT64_MAX };
  nigrid = (int)(sizeof base / sizeof base[0]);
  memcpy(IGRID, base, sizeof base);
}

static int64_t rand_int(vh_rng* r) {
  switch (vh_below(r, 6)) {
    case 0: return (int64_t)vh_next(r);
    case 1: return IGRID[vh_below(r, (uint64_t)nigrid)];
    case 2: { int64_t g = IGRID[vh_below(r, (uint64_t)nigrid)]; int64_t d = vh_range(r, -3, 3);
              if ((d > 0 && g > INT64_MAX - d) || (d < 0 && g < INT64_MIN - d)) { return g; } return g + d; }
    case 3: return vh_range(r, -5, 5);
    case 4: return (int64_t)(vh_next(r) >> vh_below(r, 64)) * (vh_chance(r, 50) ? 1 : -1);
    default: return (int64_t)((uint64_t)1 << vh_below(r, 63)) * (vh_chance(r, 50) ? 1 : -1) + vh_range(r, -1, 1);
  }
}

static void int_pair(int64_t x, int64_t y) {
  char d[96];
  snprintf(d, sizeof d, "Int %" PRId64 " vs %" PRId64, x, y);
  check_pair("int", $I(x), $I(y), sgn64(x, y), d);
}

/* ---------- Float ---------- */

static double FGRID[48];
static int nfgrid;

static void build_float_grid(void) {
  double base[] = { -INFINITY, -DBL_MAX, -1e300, -4294967296.0, -2.0, -1.0000000000000002, -1.0, -DBL_MIN,
    -4.9406564584124654e-324, -0.0, 0.0, 4.9406564584124654e-324, 9.8813129168249309e-324, DBL_MIN, 2.2250738585072009e-308,
    0.1, 0.30000000000000004, 0.3, 1.0, 1.0000000000000002, 2.0, 2147483648.0, 4294967296.0, 9007199254740992.0,
    9007199254740994.0, 1e300, DBL_MAX, INFINITY };
  nfgrid = (int)(sizeof base / sizeof base[0]);
  memcpy(FGRID, base, sizeof base);
}

static double rand_float(vh_rng* r) {
  for (;;) {
    double d;
    switch (vh_below(r, 4)) {
      case 0: { uint64_t b = vh_next(r); memcpy(&d, &b, 8); break; }
      case 1: d = FGRID[vh_below(r, (uint64_t)nfgrid)]; break;
      case 2: d = nextafter(FGRID[vh_below(r, (uint64_t)nfgrid)], vh_chance(r, 50) ? INFINITY : -INFINITY); break;
      default: d = (double)vh_range(r, -4, 4) / 2.0; break;
    }
    if (d == d) { return d; }   /* NaN excluded by the statement */
  }
}

static void float_pair(double x, double y) {
  char d[96];
  snprintf(d, sizeof d, "Float %a vs %a", x, y);
  check_pair("float", $F(x), $F(y), sgnd(x, y), d);
}

/* ---------- String ---------- */

static const char* SGRID[] = { "", "a", "aa", "ab", "abc", "abd", "b", "A", "a\x7f", "a\x80", "a\xff", "\x01", "\x7f",
  "\x80", "\x81", "\xfe", "\xff", "\xff\x01", "a b", "a\tb", "~", "\xc3\xa9", "z", "zz" };
enum { NSGRID = sizeof SGRID / sizeof SGRID[0] };

static void rand_string(vh_rng* r, char* buf, size_t cap) {
  size_t n = vh_below(r, cap < 12 ? cap : 12);
  if (vh_chance(r, 30)) { snprintf(buf, cap, "%s", SGRID[vh_below(r, NSGRID)]); return; }
  for (size_t i = 0; i < n; i++) {
    int c;
    switch (vh_below(r, 4)) {
      case 0: c = 'a' + (int)vh_below(r, 3); break;
      case 1: c = 128 + (int)vh_below(r, 128); break;
      case 2: c = 1 + (int)vh_below(r, 255); break;
      default: c = 'a'; break;
    }
    buf[i] = (char)c;
  }
  buf[n] = 0;
}

static void esc(const char* s, char* out, size_t cap) {
  size_t o = 0;
  for (; *s && o + 5 < cap; s++) {
    unsigned char c = (unsigned char)*s;
    if (c >= 32 && c < 127 && c != '\\') { out[o++] = (char)c; }
    else { o += (size_t)snprintf(out + o, cap - o, "\\x%02x", c); }
  }
  out[o] = 0;
}

static void string_pair(const char* x, const char* y, int heap) {
  char d[200], ex[80], ey[80];
  esc(x, ex, sizeof ex); esc(y, ey, sizeof ey);
  snprintf(d, sizeof d, "String \"%s\" vs \"%s\"%s", ex, ey, heap ? " (heap)" : "");
  if (heap) {
    var a = new(String, $S((char*)x));
    var b = new(String, $S((char*)y));
    check_pair("string", a, b, sgnstr(x, y), d);
    del(a); del(b);
  } else {
    check_pair("string", $S((char*)x), $S((char*)y), sgnstr(x, y), d);
  }
}

/* ---------- plain struct without its own comparison ---------- */

struct Plain { int64_t a; int64_t b; };
static var Plain;

struct Odd { char bytes[12]; };       /* size not a multiple of 8: every byte must take part */
static var Odd;

/* ---------- sequences ---------- */

enum { MAXSEQ = 7 };
struct seqref { int kind; int n; int64_t v[MAXSEQ]; unsigned share; };
/* Tuples hold references: two Tuples may hold the very same object at the same index (never twice inside one Tuple here:
   iteration over such a Tuple is the open C11 finding).  One interned Int per (index, small value). */
static var SHARED[MAXSEQ][5];

static int seq_ref_cmp(const struct seqref* a, const struct seqref* b) {
  for (int i = 0; ; i++) {
    if (i == a->n && i == b->n) { return 0; }
    if (i == a->n) { return -1; }
    if (i == b->n) { return 1; }
    int c = sgn64(a->v[i], b->v[i]);
    if (c) { return c; }
  }
}

static const char* SEQK[3] = { "Array", "List", "Tuple" };

static var seq_build(const struct seqref* s) {
  var c;
  if (s->kind == 0) { c = new(Array, Int); }
  else if (s->kind == 1) { c = new(List, Int); }
  else { c = new(Tuple); }
  for (int i = 0; i < s->n; i++) {
    if (s->kind == 2 && (s->share >> i & 1) && s->v[i] >= -2 && s->v[i] <= 2) { push(c, SHARED[i][s->v[i] + 2]); vh_count("tuple_slots_holding_an_object_shared_with_other_tuples"); }
    else if (s->kind == 2) { push(c, new(Int, $I(s->v[i]))); }
    else { push(c, $I(s->v[i])); }
  }
  return c;
}

static void seq_desc(const struct seqref* s, char* out, size_t cap) {
  size_t o = (size_t)snprintf(out, cap, "%s[", SEQK[s->kind]);
  for (int i = 0; i < s->n && o + 24 < cap; i++) { o += (size_t)snprintf(out + o, cap - o, "%s%" PRId64, i ? "," : "", s->v[i]); }
  snprintf(out + o, cap - o, "]");
}

static void rand_seq(vh_rng* r, struct seqref* s, const struct seqref* like) {
  s->kind = (int)vh_below(r, 3);
  s->share = vh_chance(r, 60) ? (unsigned)vh_below(r, 128) | 1u : 0;
  if (like && vh_chance(r, 60)) {
    /* a neighbour of `like`: same prefix, then shorter / longer / one element changed */
    unsigned sh = s->share;
    *s = *like; s->kind = (int)vh_below(r, 3); s->share = vh_chance(r, 70) ? (like->share | sh) : sh;
    switch (vh_below(r, 4)) {
      case 0: if (s->n > 0) { s->n--; } break;
      case 1: if (s->n < MAXSEQ) { s->v[s->n++] = vh_range(r, -2, 2); } break;
      case 2: if (s->n > 0) { int64_t* q = &s->v[vh_below(r, (uint64_t)s->n)]; *q = (int64_t)((uint64_t)*q + (uint64_t)vh_range(r, -1, 1)); } break;
      default: break;
    }
    return;
  }
  s->n = (int)vh_below(r, MAXSEQ + 1);
  for (int i = 0; i < s->n; i++) { s->v[i] = vh_chance(r, 80) ? vh_range(r, -2, 2) : rand_int(r); }
}

/* ---------- Tree ---------- */

enum { MAXTREE = 6 };
struct treeref { int n; int64_t k[MAXTREE]; int64_t v[MAXTREE]; };   /* keys strictly ascending */

static int tree_dir;   /* +1: iteration ascending, -1: descending (observed once) */

static int tree_ref_cmp(const struct treeref* a, const struct treeref* b) {
  for (int i = 0; ; i++) {
    if (i == a->n && i == b->n) { return 0; }
    if (i == a->n) { return -1; }
    if (i == b->n) { return 1; }
    int ia = tree_dir > 0 ? i : a->n - 1 - i, ib = tree_dir > 0 ? i : b->n - 1 - i;
    int c = sgn64(a->k[ia], b->k[ib]);
    if (c) { return c; }
    c = sgn64(a->v[ia], b->v[ib]);
    if (c) { return c; }
  }
}

static void rand_tree(vh_rng* r, struct treeref* t, const struct treeref* like) {
  if (like && vh_chance(r, 60)) {
    *t = *like;
    switch (vh_below(r, 3)) {
      case 0: if (t->n > 0) { t->n--; } break;
      case 1: if (t->n > 0) { int64_t* q = &t->v[vh_below(r, (uint64_t)t->n)]; *q = (int64_t)((uint64_t)*q + (uint64_t)vh_range(r, -1, 1)); } break;
      default: break;
    }
    return;
  }
  t->n = (int)vh_below(r, MAXTREE + 1);
  int64_t k = vh_range(r, -3, 0);
  for (int i = 0; i < t->n; i++) { t->k[i] = k; t->v[i] = vh_range(r, -1, 1); k += 1 + (int64_t)vh_below(r, 2); }
}

static var tree_build(vh_rng* r, const struct treeref* t) {
  var m = new(Tree, Int, Int);
  /* random insertion order: the value must not depend on it */
  int order[MAXTREE];
  for (int i = 0; i < t->n; i++) { order[i] = i; }
  for (int i = t->n - 1; i > 0; i--) { int j = (int)vh_below(r, (uint64_t)i + 1); int x = order[i]; order[i] = order[j]; order[j] = x; }
  for (int i = 0; i < t->n; i++) { set(m, $I(t->k[order[i]]), $I(t->v[order[i]])); }
  return m;
}

static void tree_desc(const struct treeref* t, char* out, size_t cap) {
  size_t o = (size_t)snprintf(out, cap, "Tree{");
  for (int i = 0; i < t->n && o + 40 < cap; i++) { o += (size_t)snprintf(out + o, cap - o, "%s%" PRId64 ":%" PRId64, i ? "," : "", t->k[i], t->v[i]); }
  snprintf(out + o, cap - o, "}");
}

/* ---------- Trees whose key and value types are plain structs of any small size ---------- */

enum { MAXPT = 5 };
struct ptref { int n; size_t ks, vs; unsigned char k[MAXPT][24]; unsigned char v[MAXPT][24]; };   /* keys ascending by memcmp, distinct */

static void ptref_sort(struct ptref* t) {
  for (int i = 1; i < t->n; i++) {
    for (int j = i; j > 0 && memcmp(t->k[j - 1], t->k[j], t->ks) > 0; j--) {
      unsigned char x[24];
      memcpy(x, t->k[j], 24); memcpy(t->k[j], t->k[j - 1], 24); memcpy(t->k[j - 1], x, 24);
      memcpy(x, t->v[j], 24); memcpy(t->v[j], t->v[j - 1], 24); memcpy(t->v[j - 1], x, 24);
    }
  }
}

static void rand_ptree(vh_rng* r, struct ptref* t, const struct ptref* like, size_t ks, size_t vs) {
  if (like && vh_chance(r, 60)) {
    *t = *like;
    switch (vh_below(r, 3)) {
      case 0: if (t->n > 0) { t->n--; } break;
      case 1: if (t->n > 0) { unsigned char* q = &t->v[vh_below(r, (uint64_t)t->n)][vh_below(r, vs)]; *q = (unsigned char)(*q + 1 + vh_below(r, 2)); } break;
      default: break;
    }
    return;
  }
  memset(t, 0, sizeof *t);
  t->ks = ks; t->vs = vs;
  int want = (int)vh_below(r, MAXPT + 1);
  for (int i = 0; i < want; i++) {
    unsigned char k[24] = {0};
    for (size_t b = 0; b < ks; b++) { k[b] = (unsigned char)vh_below(r, 3); }
    bool dup = false;
    for (int j = 0; j < t->n; j++) { dup = dup || memcmp(t->k[j], k, ks) == 0; }
    if (dup) { continue; }
    memcpy(t->k[t->n], k, 24);
    for (size_t b = 0; b < vs; b++) { t->v[t->n][b] = (unsigned char)vh_below(r, 3); }
    t->n++;
  }
  ptref_sort(t);
}

static int ptree_ref_cmp(const struct ptref* a, const struct ptref* b) {
  for (int i = 0; ; i++) {
    if (i == a->n && i == b->n) { return 0; }
    if (i == a->n) { return -1; }
    if (i == b->n) { return 1; }
    int ia = tree_dir > 0 ? i : a->n - 1 - i, ib = tree_dir > 0 ? i : b->n - 1 - i;
    int c = sgn(memcmp(a->k[ia], b->k[ib], a->ks));
    if (c) { return c; }
    c = sgn(memcmp(a->v[ia], b->v[ib], a->vs));
    if (c) { return c; }
  }
}

static var ptree_build(vh_rng* r, const struct ptref* t, var kt, var vt) {
  var m = new(Tree, kt, vt);
  int order[MAXPT];
  for (int i = 0; i < t->n; i++) { order[i] = i; }
  for (int i = t->n - 1; i > 0; i--) { int j = (int)vh_below(r, (uint64_t)i + 1); int x = order[i]; order[i] = order[j]; order[j] = x; }
  for (int i = 0; i < t->n; i++) {
    _Alignas(16) char bk[sizeof(struct Header) + 32], bv[sizeof(struct Header) + 32];
    memset(bk, 0, sizeof bk); memset(bv, 0, sizeof bv);
    var k = header_init(bk, kt, AllocStack), v = header_init(bv, vt, AllocStack);
    memcpy(k, t->k[order[i]], t->ks); memcpy(v, t->v[order[i]], t->vs);
    set(m, k, v);
  }
  return m;
}

static void ptree_desc(const struct ptref* t, char* out, size_t cap) {
  size_t o = (size_t)snprintf(out, cap, "Tree<%zuB,%zuB>{", t->ks, t->vs);
  for (int i = 0; i < t->n && o + 60 < cap; i++) {
    o += (size_t)snprintf(out + o, cap - o, "%s", i ? "," : "");
    for (size_t b = 0; b < t->ks && b < 6; b++) { o += (size_t)snprintf(out + o, cap - o, "%u", t->k[i][b]); }
    o += (size_t)snprintf(out + o, cap - o, ":");
    for (size_t b = 0; b < t->vs && b < 6; b++) { o += (size_t)snprintf(out + o, cap - o, "%u", t->v[i][b]); }
  }
  snprintf(out + o, cap - o, "}");
}

/* ---------- fixed part ---------- */

static void lookup_boundary_keys(void) {
  var tree = new(Tree, Int, Int);
  var table = new(Table, Int, Int);
  for (int i = 0; i < nigrid; i++) {
    set(tree, $I(IGRID[i]), $I(i));
    set(table, $I(IGRID[i]), $I(i));
  }
  vh_evals(2);
  if (len(tree) != (size_t)nigrid) { vh_violation("C09:lookup:tree-len", "Tree holds %zu of %d distinct boundary keys", len(tree), nigrid); }
  if (len(table) != (size_t)nigrid) { vh_violation("C09:lookup:table-len", "Table holds %zu of %d distinct boundary keys", len(table), nigrid); }
  for (int i = 0; i < nigrid; i++) {
    vh_evals(2);
    bool ok = mem(tree, $I(IGRID[i])) && c_int(get(tree, $I(IGRID[i]))) == i;
    if (!ok) { vh_violation("C09:lookup:tree", "boundary key %" PRId64 " inserted in a Tree is not found with its own value", IGRID[i]); }
    ok = mem(table, $I(IGRID[i])) && c_int(get(table, $I(IGRID[i]))) == i;
    if (!ok) { vh_violation("C09:lookup:table", "boundary key %" PRId64 " inserted in a Table is not found with its own value", IGRID[i]); }
  }
  vh_count("boundary_keys_looked_up");
  del(tree); del(table);
}

static const char* PFX_NAMES[] = { "I", "In", "Interval", "Integer", "Int2", "Floa", "Floats", "Plai", "PlainX", "Plain3D", "Odd_", "O",
                                    "Tre", "Trees", "a", "ab", "aba", "abab", "b", "ba", "T", "Ty", "Types" };
#define NPFX ((int)(sizeof PFX_NAMES / sizeof PFX_NAMES[0]))
static var PFX[NPFX];

enum { NPSZ = 10 };
static const size_t PSZ_SIZE[NPSZ] = { 1, 2, 3, 4, 7, 8, 9, 16, 17, 24 };
static var PSZ[NPSZ];

static void fixed(void) {
  /* Int grid: all pairs, all triples */
  for (int i = 0; i < nigrid; i++) {
    for (int j = 0; j < nigrid; j++) {
      int_pair(IGRID[i], IGRID[j]);
      vh_count("int_grid_pairs");
    }
  }
  for (int i = 0; i < nigrid; i++) { for (int j = 0; j < nigrid; j++) { for (int k = 0; k < nigrid; k++) {
    char d[120];
    snprintf(d, sizeof d, "Int %" PRId64 ", %" PRId64 ", %" PRId64, IGRID[i], IGRID[j], IGRID[k]);
    check_triple("int", $I(IGRID[i]), $I(IGRID[j]), $I(IGRID[k]), d);
  } } }
  /* Float grid */
  for (int i = 0; i < nfgrid; i++) { for (int j = 0; j < nfgrid; j++) { float_pair(FGRID[i], FGRID[j]); vh_count("float_grid_pairs"); } }
  for (int i = 0; i < nfgrid; i++) { for (int j = 0; j < nfgrid; j++) { for (int k = 0; k < nfgrid; k++) {
    char d[120];
    snprintf(d, sizeof d, "Float %a, %a, %a", FGRID[i], FGRID[j], FGRID[k]);
    check_triple("float", $F(FGRID[i]), $F(FGRID[j]), $F(FGRID[k]), d);
  } } }
  /* String grid */
  for (int i = 0; i < NSGRID; i++) { for (int j = 0; j < NSGRID; j++) { string_pair(SGRID[i], SGRID[j], (i + j) % 3 == 0); vh_count("string_grid_pairs"); } }
  /* Type objects: name order */
  var types[80] = { Int, Float, String, Array, List, Table, Tree, Tuple, Ref, Box, Type, KeyError, IOError, Range, Slice, Zip,
                  Filter, Map, File, Mutex, Thread, Function, Exception, Cmp, Hash, Len, Iter, Plain, Odd };
  int nt = 29;
  /* run-time types whose names are proper prefixes and extensions of each other and of built-in names */
  for (int i = 0; i < NPFX; i++) { types[nt++] = PFX[i]; }
  for (int i = 0; i < nt; i++) { for (int j = 0; j < nt; j++) {
    char d[120];
    snprintf(d, sizeof d, "Type %s vs %s", c_str(types[i]), c_str(types[j]));
    check_pair("type", types[i], types[j], sgn(strcmp(c_str(types[i]), c_str(types[j]))), d);
    vh_count("type_pairs");
    size_t li = strlen(c_str(types[i])), lj = strlen(c_str(types[j]));
    if (li != lj && strncmp(c_str(types[i]), c_str(types[j]), li < lj ? li : lj) == 0) { vh_count("type_pairs_one_name_a_prefix_of_the_other"); }
  } }
  lookup_boundary_keys();
}

/* ---------- generated cases ---------- */

static void case_random(vh_rng* r, long index) {
  (void)index;
  /* ints */
  for (int n = 0; n < 40; n++) {
    int64_t x = rand_int(r), y = vh_chance(r, 15) ? x : rand_int(r), z = rand_int(r);
    int_pair(x, y);
    char d[120];
    snprintf(d, sizeof d, "Int %" PRId64 ", %" PRId64 ", %" PRId64, x, y, z);
    check_triple("int", $I(x), $I(y), $I(z), d);
    if (n == 0) { vh_op("int %" PRId64 " %" PRId64 " %" PRId64, x, y, z); }
    uint64_t diff = (uint64_t)x - (uint64_t)y;
    if ((x > y ? diff : (uint64_t)0 - diff) > (uint64_t)INT32_MAX) { vh_count("int_pairs_diff_beyond_32_bits"); vh_nontrivial(); }
    if ((x < 0) != (y < 0) && (x > y ? diff : (uint64_t)0 - diff) > (uint64_t)INT64_MAX) { vh_count("int_pairs_diff_beyond_64_bits"); }
  }
  /* floats */
  for (int n = 0; n < 30; n++) {
    double x = rand_float(r), y = vh_chance(r, 15) ? x : rand_float(r), z = rand_float(r);
    float_pair(x, y);
    char d[120];
    snprintf(d, sizeof d, "Float %a, %a, %a", x, y, z);
    check_triple("float", $F(x), $F(y), $F(z), d);
    if (n == 0) { vh_op("float %a %a %a", x, y, z); }
    if (fpclassify(x) == FP_SUBNORMAL || fpclassify(y) == FP_SUBNORMAL) { vh_count("float_pairs_with_denormal"); }
  }
  /* strings */
  for (int n = 0; n < 30; n++) {
    char x[16], y[16], z[16];
    rand_string(r, x, sizeof x);
    if (vh_chance(r, 40)) {
      /* y shares a prefix with x */
      size_t k = strlen(x) ? vh_below(r, strlen(x) + 1) : 0;
      memcpy(y, x, k); y[k] = 0;
      if (vh_chance(r, 60) && k + 2 < sizeof y) { y[k] = (char)(1 + vh_below(r, 255)); y[k+1] = 0; }
      vh_count("string_pairs_sharing_prefix");
    } else { rand_string(r, y, sizeof y); }
    rand_string(r, z, sizeof z);
    string_pair(x, y, vh_chance(r, 30));
    char d[200], ex[40], ey[40], ez[40];
    esc(x, ex, sizeof ex); esc(y, ey, sizeof ey); esc(z, ez, sizeof ez);
    snprintf(d, sizeof d, "String \"%s\", \"%s\", \"%s\"", ex, ey, ez);
    check_triple("string", $S(x), $S(y), $S(z), d);
    if (n == 0) { vh_op("str %s | %s | %s", ex, ey, ez); }
    for (char* p = x; *p; p++) { if ((unsigned char)*p >= 128) { vh_count("strings_with_high_bytes"); break; } }
  }
  /* type objects with related names, also as members of sequences (element-wise comparison reaches Type's cmp) */
  for (int n = 0; n < 6; n++) {
    var a = PFX[vh_below(r, NPFX)], b = PFX[vh_below(r, NPFX)], c = PFX[vh_below(r, NPFX)];
    char d[160];
    snprintf(d, sizeof d, "Type %s, %s, %s", c_str(a), c_str(b), c_str(c));
    check_triple("type", a, b, c, d);
    snprintf(d, sizeof d, "tuple(Int, %s) vs tuple(Int, %s)", c_str(a), c_str(b));
    check_pair("type", tuple(Int, a), tuple(Int, b), sgn(strcmp(c_str(a), c_str(b))), d);
    vh_count("type_triples_with_related_names");
  }
  /* plain structs: byte-wise */
  for (int n = 0; n < 10; n++) {
    struct Plain pa = { vh_range(r, -2, 2), rand_int(r) }, pb = { vh_chance(r, 50) ? pa.a : vh_range(r, -2, 2), vh_chance(r, 30) ? pa.b : rand_int(r) };
    char d[160];
    snprintf(d, sizeof d, "Plain{%" PRId64 ",%" PRId64 "} vs Plain{%" PRId64 ",%" PRId64 "}", pa.a, pa.b, pb.a, pb.b);
    check_pair("struct", $(Plain, pa.a, pa.b), $(Plain, pb.a, pb.b), sgn(memcmp(&pa, &pb, sizeof pa)), d);
    struct Odd oa, ob;
    for (int i = 0; i < 12; i++) { oa.bytes[i] = (char)vh_below(r, 3); ob.bytes[i] = vh_chance(r, 85) ? oa.bytes[i] : (char)vh_below(r, 256); }
    struct Odd* xa = $(Odd, {0}); struct Odd* xb = $(Odd, {0});
    memcpy(xa, &oa, sizeof oa); memcpy(xb, &ob, sizeof ob);
    snprintf(d, sizeof d, "Odd(12 bytes) memcmp sign %d", sgn(memcmp(&oa, &ob, 12)));
    check_pair("struct", xa, xb, sgn(memcmp(&oa, &ob, 12)), d);
    vh_count("struct_pairs");
  }
  /* plain types of every small size (a word, less than a word, just over a word, ...): byte-wise whatever the size */
  for (int n = 0; n < 12; n++) {
    int si = (int)vh_below(r, NPSZ); size_t sz = PSZ_SIZE[si];
    _Alignas(16) char ba[sizeof(struct Header) + 32], bb[sizeof(struct Header) + 32];
    memset(ba, 0, sizeof ba); memset(bb, 0, sizeof bb);
    var xa = header_init(ba, PSZ[si], AllocStack), xb = header_init(bb, PSZ[si], AllocStack);
    unsigned char* pa = xa; unsigned char* pb = xb;
    for (size_t i = 0; i < sz; i++) { pa[i] = (unsigned char)(vh_chance(r, 50) ? vh_below(r, 3) : vh_below(r, 256)); pb[i] = vh_chance(r, 70) ? pa[i] : (unsigned char)vh_below(r, 256); }
    char d[120];
    int ndiff = 0; for (size_t i = 0; i < sz; i++) { ndiff += pa[i] != pb[i]; }
    snprintf(d, sizeof d, "plain %zu-byte type, %d bytes differ, memcmp sign %d", sz, ndiff, sgn(memcmp(pa, pb, sz)));
    check_pair("struct", xa, xb, sgn(memcmp(pa, pb, sz)), d);
    if (ndiff >= 2) { vh_count("sized_struct_pairs_differing_in_two_or_more_bytes"); }
    if (sz == sizeof(var) && ndiff >= 2) { vh_count("word_sized_struct_pairs_differing_in_two_or_more_bytes"); }
  }
  /* sequences, all kind combinations */
  for (int n = 0; n < 8; n++) {
    struct seqref sa, sb, sc;
    rand_seq(r, &sa, NULL); rand_seq(r, &sb, &sa); rand_seq(r, &sc, &sb);
    var a = seq_build(&sa), b = seq_build(&sb), c = seq_build(&sc);
    char d[300], da[90], db[90], dc[90];
    seq_desc(&sa, da, sizeof da); seq_desc(&sb, db, sizeof db); seq_desc(&sc, dc, sizeof dc);
    snprintf(d, sizeof d, "%s vs %s", da, db);
    check_pair("seq", a, b, seq_ref_cmp(&sa, &sb), d);
    snprintf(d, sizeof d, "%s, %s, %s", da, db, dc);
    check_triple("seq", a, b, c, d);
    if (n == 0) { vh_op("seq %s", d); }
    if (sa.kind != sb.kind) { vh_count("seq_pairs_cross_kind"); }
    if (sa.n != sb.n) { vh_count("seq_pairs_different_length"); }
    vh_count("seq_pairs");
    del(a); del(b); del(c);
  }
  /* trees */
  for (int n = 0; n < 6; n++) {
    struct treeref ta, tb, tc;
    rand_tree(r, &ta, NULL); rand_tree(r, &tb, &ta); rand_tree(r, &tc, &tb);
    var a = tree_build(r, &ta), b = tree_build(r, &tb), c = tree_build(r, &tc);
    char d[400], da[120], db[120], dc[120];
    tree_desc(&ta, da, sizeof da); tree_desc(&tb, db, sizeof db); tree_desc(&tc, dc, sizeof dc);
    snprintf(d, sizeof d, "%s vs %s", da, db);
    check_pair("tree", a, b, tree_ref_cmp(&ta, &tb), d);
    snprintf(d, sizeof d, "%s, %s, %s", da, db, dc);
    check_triple("tree", a, b, c, d);
    if (n == 0) { vh_op("tree %s", d); }
    vh_count("tree_pairs");
    del(a); del(b); del(c);
  }
  /* trees keyed by (and holding) plain structs of any small size: key then value, byte-wise, in key order */
  for (int n = 0; n < 4; n++) {
    int ki = (int)vh_below(r, NPSZ), vi = (int)vh_below(r, NPSZ);
    struct ptref ta, tb, tc;
    rand_ptree(r, &ta, NULL, PSZ_SIZE[ki], PSZ_SIZE[vi]); rand_ptree(r, &tb, &ta, PSZ_SIZE[ki], PSZ_SIZE[vi]); rand_ptree(r, &tc, &tb, PSZ_SIZE[ki], PSZ_SIZE[vi]);
    var a = ptree_build(r, &ta, PSZ[ki], PSZ[vi]), b = ptree_build(r, &tb, PSZ[ki], PSZ[vi]), c = ptree_build(r, &tc, PSZ[ki], PSZ[vi]);
    char d[500], da[150], db[150], dc[150];
    ptree_desc(&ta, da, sizeof da); ptree_desc(&tb, db, sizeof db); ptree_desc(&tc, dc, sizeof dc);
    snprintf(d, sizeof d, "%s vs %s", da, db);
    check_pair("ptree", a, b, ptree_ref_cmp(&ta, &tb), d);
    snprintf(d, sizeof d, "%s, %s, %s", da, db, dc);
    check_triple("ptree", a, b, c, d);
    check_pair("ptree", a, a, 0, da);
    if (ta.n && tb.n) {
      vh_count("struct_keyed_tree_pairs");
      if (PSZ_SIZE[ki] % sizeof(var)) { vh_count("struct_keyed_tree_pairs_with_a_key_size_that_is_not_a_whole_number_of_words"); }
    }
    del(a); del(b); del(c);
  }
}

int main(int argc, char** argv) {
  Plain = new_root(Type, $S("Plain"), $I(sizeof(struct Plain)));
  Odd = new_root(Type, $S("Odd"), $I(sizeof(struct Odd)));
  for (int i = 0; i < NPSZ; i++) { char nm[16]; snprintf(nm, sizeof nm, "Plain%zu", PSZ_SIZE[i]); PSZ[i] = new_root(Type, $S(strdup(nm)), $I((int64_t)PSZ_SIZE[i])); }
  for (int i = 0; i < MAXSEQ; i++) { for (int v = 0; v < 5; v++) { SHARED[i][v] = new_root(Int, $I(v - 2)); } }
  for (int i = 0; i < NPFX; i++) { PFX[i] = new_root(Type, $S((char*)PFX_NAMES[i]), $I(8 + 8 * (i % 3))); }
  build_int_grid();
  build_float_grid();
  /* observe the Tree iteration direction once (C03 checks that it is monotone) */
  {
    var t = new(Tree, Int, Int);
    set(t, $I(1), $I(0)); set(t, $I(2), $I(0));
    var first = iter_init(t);
    tree_dir = c_int(first) == 1 ? 1 : -1;
    del(t);
  }
  return vh_run(argc, argv, "rand", fixed, case_random);
}
