/*
** C18 -- one seeded, in-contract workload whose transcript (every value read, every length, every
** formatted string) must be byte-identical in every build configuration and at every optimisation
** level.  No addresses, no error paths, nothing whose open findings are listed in KNOWN_FINDINGS.txt.
** Plain main(int, char**): compiles with and without the collector's main wrapper.
*/
#include <stdio.h>
#include <stdlib.h>
#include <string.h>
#include <inttypes.h>
#include "Cello.h"

static uint64_t rs[4];
static uint64_t rotl(uint64_t x, int k) { return (x << k) | (x >> (64 - k)); }
static uint64_t rnd(void) {
  uint64_t r = rotl(rs[1] * 5, 7) * 9, t = rs[1] << 17;
  rs[2] ^= rs[0]; rs[3] ^= rs[1]; rs[1] ^= rs[2]; rs[0] ^= rs[3]; rs[2] ^= t; rs[3] = rotl(rs[3], 45);
  return r;
}
static void seed_rng(uint64_t s) {
  for (int i = 0; i < 4; i++) { s += 0x9E3779B97F4A7C15ULL; uint64_t z = s; z = (z ^ (z >> 30)) * 0xBF58476D1CE4E5B9ULL; z = (z ^ (z >> 27)) * 0x94D049BB133111EBULL; rs[i] = z ^ (z >> 31); }
}
static int64_t below(int64_t n) { return (int64_t)(rnd() % (uint64_t)n); }

static long lineno;
#define OUT(...) do { printf("%ld ", ++lineno); printf(__VA_ARGS__); printf("\n"); } while (0)

static void out_value(const char* label, var x) {
  var s = new(String);
  print_to(s, 0, "%$", x);
  OUT("%s = %s  hash=%016" PRIx64, label, c_str(s), hash(x));
  del(s);
}

static void out_seq(const char* label, var c) {
  var s = new(String);
  int pos = 0;
  foreach (e in c) { pos = print_to(s, pos, "%$ ", e); }
  OUT("%s len=%zu [%s] hash=%016" PRIx64, label, len(c), c_str(s), hash(c));
  del(s);
}

/* views: items only (a view's own hash / len are not part of its contract) */
static void out_view(const char* label, var c) {
  var s = new(String);
  int pos = 0;
  foreach (e in c) { pos = print_to(s, pos, "%$ ", e); }
  OUT("%s [%s]", label, c_str(s));
  del(s);
}

static void out_map(const char* label, var m) {
  var s = new(String);
  int pos = 0;
  foreach (k in m) { pos = print_to(s, pos, "%$:%$ ", k, get(m, k)); }
  OUT("%s len=%zu {%s}", label, len(m), c_str(s));
  del(s);
}

static var odd_only(var x) { return (c_int(x) & 1) ? x : NULL; }
static var times_three(var x) { return new(Int, $I(c_int(x) * 3)); }
static bool descending(var a, var b) { return gt(a, b); }

static void sequences(void) {
  var a = new(Array, Int), l = new(List, Int), t = new(Tuple);
  int n = 5 + (int)below(40);
  for (int i = 0; i < n; i++) {
    int64_t v = below(200) - 50;
    push(a, $I(v)); push(l, $I(v * 2));
    push(t, new(Int, $I(v + 1000 + i * 1000)));        /* distinct objects */
    if (below(4) == 0 && len(a) > 2) { pop_at(a, $I(below((int64_t)len(a)))); }
    if (below(5) == 0 && len(l) > 1) { pop(l); }
    if (below(6) == 0) { push_at(l, $I(v), $I(0)); }
  }
  out_seq("array", a); out_seq("list", l); out_seq("tuple", t);
  sort(a); out_seq("array sorted", a);
  sort_by(a, descending); out_seq("array descending", a);
  sort(t); out_seq("tuple sorted", t);
  var c = copy(a); concat(c, l); out_seq("copy+concat", c);
  OUT("cmp(array,copy)=%d eq(list,list)=%d", cmp(a, c) < 0 ? -1 : cmp(a, c) > 0, (int)eq(l, l));
  set(a, $I(0), $I(4242)); set(l, $I(-1), $I(-4242));
  OUT("get a[0]=%" PRId64 " a[-1]=%" PRId64 " l[-1]=%" PRId64 " mem=%d %d", c_int(get(a, $I(0))), c_int(get(a, $I(-1))), c_int(get(l, $I(-1))), (int)mem(a, $I(4242)), (int)mem(l, $I(123456)));
  rem(a, $I(4242)); resize(c, 3); out_seq("after rem / resize", c);
  var fl = new(Array, Float);
  for (int i = 0; i < 6; i++) { push(fl, $F((double)(below(2000) - 1000) / 8.0)); }
  sort(fl); out_seq("floats sorted", fl);
  /* views */
  out_view("slice 1..-1 step 2", slice(a, $I(1), $I(-1), $I(2)));
  out_view("reverse", reverse(l));
  out_view("filter odd", filter(a, $(Function, odd_only)));
  out_view("map x3", map(l, $(Function, times_three)));
  out_view("range", range($I(2), $I(20), $I(3)));
  {
    var s = new(String); int pos = 0;
    foreach (p in zip(a, l)) { pos = print_to(s, pos, "(%$,%$) ", get(p, $I(0)), get(p, $I(1))); }
    OUT("zip %s", c_str(s));
    pos = 0; resize(s, 0);
    foreach (p in enumerate(l)) { pos = print_to(s, pos, "%$=%$ ", get(p, $I(0)), get(p, $I(1))); }
    OUT("enumerate %s", c_str(s));
    del(s);
  }
  del(a); del(l); del(t); del(c); del(fl);
}

static void maps(void) {
  var tb = new(Table, String, Int), tr = new(Tree, Int, String);
  int n = 5 + (int)below(60);
  char b[32];
  for (int i = 0; i < n; i++) {
    int64_t k = below(80);
    snprintf(b, sizeof b, "key%" PRId64, k);
    set(tb, $S(b), $I(i));
    set(tr, $I(k * 7 - 100), $S(b));
    if (below(3) == 0) { snprintf(b, sizeof b, "key%" PRId64, below(80)); if (mem(tb, $S(b))) { rem(tb, $S(b)); } }
    if (below(4) == 0) { int64_t q = below(80) * 7 - 100; if (mem(tr, $I(q))) { rem(tr, $I(q)); } }
  }
  out_map("table", tb); out_map("tree", tr);
  var tb2 = copy(tb), tr2 = new(Tree, String, Int);
  assign(tr2, tb);
  out_map("tree from table", tr2);
  OUT("eq(copy)=%d hash equal=%d len=%zu", (int)eq(tb2, tb), (int)(hash(tb2) == hash(tb)), len(tb2));
  resize(tb2, 0); set(tb2, $S("after-clear"), $I(1)); out_map("cleared + set", tb2);
  { var s = new(String); int pos = 0; foreach (k in reverse(tr)) { pos = print_to(s, pos, "%$ ", k); } OUT("tree keys reversed %s", c_str(s)); del(s); }
  del(tb); del(tr); del(tb2); del(tr2);
}

static void strings_and_formats(void) {
  var s = new(String, $S("start"));
  char b[64];
  for (int i = 0; i < 12; i++) {
    snprintf(b, sizeof b, "-%" PRId64, below(100000));
    if (below(2)) { append(s, $S(b)); } else { concat(s, $S(b)); }
    if (below(5) == 0 && mem(s, $S("-1"))) { rem(s, $S("-1")); }
    if (below(7) == 0) { resize(s, (size_t)below((int64_t)len(s) + 1)); }
  }
  OUT("string \"%s\" len=%zu hash=%016" PRIx64 " cmp=%d", c_str(s), len(s), hash(s), cmp(s, $S("start-5")) < 0 ? -1 : cmp(s, $S("start-5")) > 0);
  var f = new(String);
  int64_t iv = (int64_t)rnd(); double dv = (double)(below(2000000) - 1000000) / 128.0;
  int pos = print_to(f, 0, "[%i|%05d|%-8lx|%+.3f|%12.4e|%g|%s|%c|%%|%$|%$|%$]", $I(below(100000) - 50000), $I(below(1000)), $I(iv),
    $F(dv), $F(dv * 1000.0), $F(dv), $S("txt"), $I('A' + below(26)), $I(iv), $F(dv), $S("q\"uote\n"));
  OUT("format pos=%d %s", pos, c_str(f));
  pos = print_to(f, 3, "<%$>", KeyError);
  OUT("format at 3 pos=%d %s", pos, c_str(f));
  /* round trips */
  var ri = new(Int), rf = new(Float), rst = new(String);
  var text = new(String);
  int w = print_to(text, 0, "%$ ; %$ ; %$", $I(iv), $F(dv), $S("a\tb\\c"));
  int rd = scan_from(text, 0, "%$ ; %$ ; %$", ri, rf, rst);
  OUT("roundtrip w=%d r=%d int=%" PRId64 " float=%.6f str=%s", w, rd, c_int(ri), c_float(rf), c_str(rst));
  var n2 = new(Int);
  scan_from($S("-77 9"), 0, "%i", n2);
  OUT("scan %%i -> %" PRId64, c_int(n2));
  del(s); del(f); del(ri); del(rf); del(rst); del(text); del(n2);
}

static int depth_probe(int n) {
  int r = 0;
  try {
    if (n == 0) { throw(ValueError, "bottom %i", $I(n)); }
    r = depth_probe(n - 1) + 1;
  } catch (e in KeyError) { r = -100; }
  return r;
}

static void exceptions(void) {
  for (int i = 0; i < 6; i++) {
    int kind = (int)below(3);
    volatile int handled = 0, outer = 0;
    try {
      try {
        if (kind == 0) { throw(KeyError, "k %i %s", $I(i), $S("x")); }
        if (kind == 1) { throw(TypeError, "t %i", $I(i)); }
        OUT("no throw %d", i);
      } catch (e in KeyError) { handled = 1; OUT("inner caught %s", c_str(e)); }
    } catch (e) { outer = 1; OUT("outer caught %s", c_str(e)); }
    OUT("exception round %d kind=%d inner=%d outer=%d depth=%zu", i, kind, (int)handled, (int)outer, len(current(Exception)));
  }
  volatile int got = 0;
  try { (void)depth_probe(5); } catch (e in ValueError) { got = 1; }
  OUT("propagated through 6 frames: %d depth=%zu", (int)got, len(current(Exception)));
}

static void values_and_types(void) {
  var x = new(Int, $I((int64_t)rnd())), y = copy(x);
  OUT("int eq=%d cmp=%d hash=%016" PRIx64, (int)eq(x, y), cmp(x, $I(0)) < 0 ? -1 : cmp(x, $I(0)) > 0, hash(x));
  swap(x, $I(5)); OUT("after swap %" PRId64, c_int(x));
  var f = new(Float, $F(-0.0));
  OUT("float -0.0: eq(0.0)=%d hash equal=%d", (int)eq(f, $F(0.0)), (int)(hash(f) == hash($F(0.0))));
  OUT("types: %s %s %s size(Int)=%zu implements=%d%d%d", c_str(type_of(x)), c_str(type_of(f)), c_str(type_of(type_of(x))), size(Int),
    (int)implements(x, Cmp), (int)implements(x, Len), (int)type_implements(Array, Push));
  var b = new(Box, new(String, $S("boxed"))); var r = new(Ref, x);
  OUT("box -> %s ref -> %" PRId64, c_str(deref(b)), c_int(deref(r)));
  var rt = new(Type, $S("Pair"), $I(16));
  var p = new_with(rt, tuple());
  OUT("run-time type %s size=%zu type_of ok=%d", c_str(rt), size(rt), (int)(type_of(p) == rt));
  del(p); del(b); del(r); del(x); del(y); del(f);
  out_value("value Int", $I(-12)); out_value("value Float", $F(2.5)); out_value("value String", $S("sh\"ow")); out_value("value Type", IOError);
}

static void files(const char* dir_tag) {
  char path[128]; snprintf(path, sizeof path, "c18-%s.tmp", dir_tag);
  var f = new(File, $S(path), $S("w+"));
  char data[300]; int n = 20 + (int)below(250);
  for (int i = 0; i < n; i++) { data[i] = (char)('a' + below(26)); }
  swrite(f, data, (size_t)n);
  print_to(f, 0, "|%i|%s|", $I(n), $S("end"));
  int64_t at = stell(f);
  sseek(f, 0, SEEK_SET);
  char back[400]; memset(back, 0, sizeof back);
  size_t got = sread(f, back, (size_t)n);
  var num = new(Int);
  OUT("file tell=%" PRId64 " read=%zu same=%d eof=%d", at, got, (int)(memcmp(back, data, (size_t)n) == 0), (int)seof(f));
  scan_from(f, 0, "|%i|", num);
  OUT("file scanned %" PRId64, c_int(num));
  sclose(f);
  del(f); del(num);
  remove(path);
}

int main(int argc, char** argv) {
  uint64_t seed = argc > 1 ? strtoull(argv[1], NULL, 10) : 1;
  const char* tag = argc > 2 ? argv[2] : "x";
  seed_rng(seed);
  int rounds = 3 + (int)below(3);
  for (int i = 0; i < rounds; i++) {
    OUT("--- round %d", i);
    sequences(); maps(); strings_and_formats(); exceptions(); values_and_types(); files(tag);
  }
  OUT("done");
  return 0;
}
