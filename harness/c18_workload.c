/*
** C18 -- one seeded, in-contract workload whose transcript (every value read, every length, every
** formatted string) must be byte-identical in every build configuration and at every optimisation
** level.  No addresses, no error paths, nothing whose open findings are listed in KNOWN_FINDINGS.txt.
** Plain main(int, char**): compiles with and without the collector's main wrapper.
*/
#include <stdio.h>
#include <stdlib.h>
#include <string.h>
#include <inttypes.h>
#include "Cello.h"

static uint64_t rs[4];
static uint64_t rotl(uint64_t x, int k) { return (x << k) | (x >> (64 - k)); }
static uint64_t rnd(void) {
  uint64_t r = rotl(rs[1] * 5, 7) * 9, t = rs[1] << 17;
  rs[2] ^= rs[0]; rs[3] ^= rs[1]; rs[1] ^= rs[2]; rs[0] ^= rs[3]; rs[2] ^= t; rs[3] = rotl(rs[3], 45);
  return r;
}
static void seed_rng(uint64_t s) {
  for (int i = 0; i < 4; i++) { s += 0x9E3779B97F4A7C15ULL; uint64_t z = s; z = (z ^ (z >> 30)) * 0xBF58476D1CE4E5B9ULL; z = (z ^ (z >> 27)) * 0x94D049BB133111EBULL; rs[i] = z ^ (z >> 31); }
}
static int64_t below(int64_t n) { return (int64_t)(rnd() % (uint64_t)n); }

static long lineno;
#define OUT(...) do { printf("%ld ", ++lineno); printf(__VA_ARGS__); printf("\n"); } while (0)

static void out_value(const char* label, var x) {
  var s = new(String);
  print_to(s, 0, "%$", x);
  OUT("%s = %s  hash=%016" PRIx64, label, c_str(s), hash(x));
  del(s);
}

static void out_seq(const char* label, var c) {
  var s = new(String);
  int pos = 0;
  foreach (e in c) { pos = print_to(s, pos, "%$ ", e); }
  OUT("%s len=%zu [%s] hash=%016" PRIx64, label, len(c), c_str(s), hash(c));
  del(s);
}

/* views: items only (a view's own hash / len are not part of its contract) */
static void out_view(const char* label, var c) {
  var s = new(String);
  int pos = 0;
  foreach (e in c) { pos = print_to(s, pos, "%$ ", e); }
  OUT("%s [%s]", label, c_str(s));
  del(s);
}

static void out_map(const char* label, var m) {
  var s = new(String);
  int pos = 0;
  foreach (k in m) { pos = print_to(s, pos, "%$:%$ ", k, get(m, k)); }
  OUT("%s len=%zu {%s}", label, len(m), c_str(s));
  del(s);
}

static var odd_only(var x) { return (c_int(x) & 1) ? x : NULL; }
static var times_three(var x) { return new(Int, $I(c_int(x) * 3)); }
static bool descending(var a, var b) { return gt(a, b); }

static void sequences(void) {
  var a = new(Array, Int), l = new(List, Int), t = new(Tuple);
  int n = 5 + (int)below(40);
  for (int i = 0; i < n; i++) {
    int64_t v = below(200) - 50;
    push(a, $I(v)); push(l, $I(v * 2));
    push(t, new(Int, $I(v + 1000 + i * 1000)));        /* distinct objects */
    if (below(4) == 0 && len(a) > 2) { pop_at(a, $I(below((int64_t)len(a)))); }
    if (below(5) == 0 && len(l) > 1) { pop(l); }
    if (below(6) == 0) { push_at(l, $I(v), $I(0)); }
  }
  out_seq("array", a); out_seq("list", l); out_seq("tuple", t);
  sort(a); out_seq("array sorted", a);
  sort_by(a, descending); out_seq("array descending", a);
  sort(t); out_seq("tuple sorted", t);
  { var st = tuple($I(5), $I(-3), $I(12), $I(0), $I(7)); sort(st); out_seq("stack tuple sorted in place", st); sort_by(st, descending); out_seq("stack tuple descending", st); }
  var c = copy(a); concat(c, l); out_seq("copy+concat", c);
  OUT("cmp(array,copy)=%d eq(list,list)=%d", cmp(a, c) < 0 ? -1 : cmp(a, c) > 0, (int)eq(l, l));
  set(a, $I(0), $I(4242)); set(l, $I(-1), $I(-4242));
  OUT("get a[0]=%" PRId64 " a[-1]=%" PRId64 " l[-1]=%" PRId64 " mem=%d %d", c_int(get(a, $I(0))), c_int(get(a, $I(-1))), c_int(get(l, $I(-1))), (int)mem(a, $I(4242)), (int)mem(l, $I(123456)));
  rem(a, $I(4242)); resize(c, 3); out_seq("after rem / resize", c);
  /* the ends of the valid index ranges: push_at at len and at -1 (both append), get / set / pop_at at len-1 and -len,
     push_at(0) into an emptied Array and an empty List */
  {
    var e = new(Array, Int), el = new(List, Int);
    push_at(e, $I(1), $I(0)); push_at(e, $I(2), $I((int64_t)len(e))); push_at(e, $I(3), $I(-1)); push_at(e, $I(0), $I(0));
    push_at(el, $I(1), $I(0)); push_at(el, $I(2), $I((int64_t)len(el) - 1));
    out_seq("array built at its ends", e); out_seq("list built at its ends", el);
    OUT("ends: %" PRId64 " %" PRId64 " %" PRId64 " %" PRId64, c_int(get(e, $I((int64_t)len(e) - 1))), c_int(get(e, $I(-(int64_t)len(e)))), c_int(get(el, $I(-(int64_t)len(el)))), c_int(get(el, $I((int64_t)len(el) - 1))));
    set(e, $I((int64_t)len(e) - 1), $I(30)); set(e, $I(-(int64_t)len(e)), $I(-30)); pop_at(e, $I(-(int64_t)len(e))); pop_at(e, $I((int64_t)len(e) - 1));
    resize(e, 0); push_at(e, $I(9), $I(0)); push_at(a, $I(77), $I((int64_t)len(a))); push_at(a, $I(78), $I(-1));
    out_seq("array after end operations", e);
    del(e); del(el);
  }
  var fl = new(Array, Float);
  for (int i = 0; i < 6; i++) { push(fl, $F((double)(below(2000) - 1000) / 8.0)); }
  sort(fl); out_seq("floats sorted", fl);
  /* views */
  out_view("slice 1..-1 step 2", slice(a, $I(1), $I(-1), $I(2)));
  out_view("reverse", reverse(l));
  out_view("filter odd", filter(a, $(Function, odd_only)));
  out_view("map x3", map(l, $(Function, times_three)));
  out_view("range", range($I(2), $I(20), $I(3)));
  {
    var s = new(String); int pos = 0;
    foreach (p in zip(a, l)) { pos = print_to(s, pos, "(%$,%$) ", get(p, $I(0)), get(p, $I(1))); }
    OUT("zip %s", c_str(s));
    pos = 0; resize(s, 0);
    foreach (p in enumerate(l)) { pos = print_to(s, pos, "%$=%$ ", get(p, $I(0)), get(p, $I(1))); }
    OUT("enumerate %s", c_str(s));
    del(s);
  }
  del(a); del(l); del(t); del(c); del(fl);
}

static void maps(void) {
  var tb = new(Table, String, Int), tr = new(Tree, Int, String);
  int n = 5 + (int)below(60);
  char b[32];
  for (int i = 0; i < n; i++) {
    int64_t k = below(80);
    snprintf(b, sizeof b, "key%" PRId64, k);
    set(tb, $S(b), $I(i));
    set(tr, $I(k * 7 - 100), $S(b));
    if (below(3) == 0) { snprintf(b, sizeof b, "key%" PRId64, below(80)); if (mem(tb, $S(b))) { rem(tb, $S(b)); } }
    if (below(4) == 0) { int64_t q = below(80) * 7 - 100; if (mem(tr, $I(q))) { rem(tr, $I(q)); } }
  }
  out_map("table", tb); out_map("tree", tr);
  var tb2 = copy(tb), tr2 = new(Tree, String, Int);
  assign(tr2, tb);
  out_map("tree from table", tr2);
  OUT("eq(copy)=%d hash equal=%d len=%zu", (int)eq(tb2, tb), (int)(hash(tb2) == hash(tb)), len(tb2));
  resize(tb2, 0); set(tb2, $S("after-clear"), $I(1)); out_map("cleared + set", tb2);
  { var s = new(String); int pos = 0; foreach (k in reverse(tr)) { pos = print_to(s, pos, "%$ ", k); } OUT("tree keys reversed %s", c_str(s)); del(s); }
  del(tb); del(tr); del(tb2); del(tr2);
}

static void strings_and_formats(void) {
  var s = new(String, $S("start"));
  char b[64];
  for (int i = 0; i < 12; i++) {
    snprintf(b, sizeof b, "-%" PRId64, below(100000));
    if (below(2)) { append(s, $S(b)); } else { concat(s, $S(b)); }
    if (below(5) == 0 && mem(s, $S("-1"))) { rem(s, $S("-1")); }
    if (below(7) == 0) { resize(s, (size_t)below((int64_t)len(s) + 1)); }
  }
  OUT("string \"%s\" len=%zu hash=%016" PRIx64 " cmp=%d", c_str(s), len(s), hash(s), cmp(s, $S("start-5")) < 0 ? -1 : cmp(s, $S("start-5")) > 0);
  var f = new(String);
  int64_t iv = (int64_t)rnd(); double dv = (double)(below(2000000) - 1000000) / 128.0;
  int pos = print_to(f, 0, "[%i|%05d|%-8lx|%+.3f|%12.4e|%g|%s|%c|%%|%$|%$|%$]", $I(below(100000) - 50000), $I(below(1000)), $I(iv),
    $F(dv), $F(dv * 1000.0), $F(dv), $S("txt"), $I('A' + below(26)), $I(iv), $F(dv), $S("q\"uote\n"));
  OUT("format pos=%d %s", pos, c_str(f));
  pos = print_to(f, 3, "<%$>", KeyError);
  OUT("format at 3 pos=%d %s", pos, c_str(f));
  /* round trips */
  var ri = new(Int), rf = new(Float), rst = new(String);
  var text = new(String);
  int w = print_to(text, 0, "%$ ; %$ ; %$", $I(iv), $F(dv), $S("a\tb\\c"));
  int rd = scan_from(text, 0, "%$ ; %$ ; %$", ri, rf, rst);
  OUT("roundtrip w=%d r=%d int=%" PRId64 " float=%.6f str=%s", w, rd, c_int(ri), c_float(rf), c_str(rst));
  var n2 = new(Int);
  scan_from($S("-77 9"), 0, "%i", n2);
  OUT("scan %%i -> %" PRId64, c_int(n2));
  del(s); del(f); del(ri); del(rf); del(rst); del(text); del(n2);
}

static int depth_probe(int n) {
  int r = 0;
  try {
    if (n == 0) { throw(ValueError, "bottom %i", $I(n)); }
    r = depth_probe(n - 1) + 1;
  } catch (e in KeyError) { r = -100; }
  return r;
}

static void exceptions(void) {
  for (int i = 0; i < 6; i++) {
    int kind = (int)below(3);
    volatile int handled = 0, outer = 0;
    try {
      try {
        if (kind == 0) { throw(KeyError, "k %i %s", $I(i), $S("x")); }
        if (kind == 1) { throw(TypeError, "t %i", $I(i)); }
        OUT("no throw %d", i);
      } catch (e in KeyError) { handled = 1; OUT("inner caught %s", c_str(e)); }
    } catch (e) { outer = 1; OUT("outer caught %s", c_str(e)); }
    OUT("exception round %d kind=%d inner=%d outer=%d depth=%zu", i, kind, (int)handled, (int)outer, len(current(Exception)));
  }
  volatile int got = 0;
  try { (void)depth_probe(5); } catch (e in ValueError) { got = 1; }
  OUT("propagated through 6 frames: %d depth=%zu", (int)got, len(current(Exception)));
}

static void values_and_types(void) {
  var x = new(Int, $I((int64_t)rnd())), y = copy(x);
  OUT("int eq=%d cmp=%d hash=%016" PRIx64, (int)eq(x, y), cmp(x, $I(0)) < 0 ? -1 : cmp(x, $I(0)) > 0, hash(x));
  swap(x, $I(5)); OUT("after swap %" PRId64, c_int(x));
  var f = new(Float, $F(-0.0));
  OUT("float -0.0: eq(0.0)=%d hash equal=%d", (int)eq(f, $F(0.0)), (int)(hash(f) == hash($F(0.0))));
  OUT("types: %s %s %s size(Int)=%zu implements=%d%d%d", c_str(type_of(x)), c_str(type_of(f)), c_str(type_of(type_of(x))), size(Int),
    (int)implements(x, Cmp), (int)implements(x, Len), (int)type_implements(Array, Push));
  var b = new(Box, new(String, $S("boxed"))); var r = new(Ref, x);
  OUT("box -> %s ref -> %" PRId64, c_str(deref(b)), c_int(deref(r)));
  var rt = new(Type, $S("Pair"), $I(16));
  var p = new_with(rt, tuple());
  OUT("run-time type %s size=%zu type_of ok=%d", c_str(rt), size(rt), (int)(type_of(p) == rt));
  del(p); del(b); del(r); del(x); del(y); del(f);
  out_value("value Int", $I(-12)); out_value("value Float", $F(2.5)); out_value("value String", $S("sh\"ow")); out_value("value Type", IOError);
}


/* ---------- user-defined types: every cached class on one type, sparse class subsets on others.
** The method cache keys a per-type slot on the class; two classes in one slot, a stale slot or a slot filled by a
** failed lookup make the cached builds answer differently from the uncached ones.  Nothing here depends on addresses. */

struct Omni { int64_t v; double f; char s[24]; long calls[16]; };
static void Omni_New(var self, var args) { struct Omni* o = self; o->v = c_int(get(args, $I(0))); o->f = (double)o->v / 4.0; snprintf(o->s, sizeof o->s, "omni%" PRId64, o->v); }
static void Omni_Del(var self) { (void)self; }
static void Omni_Assign(var self, var obj) { struct Omni* o = self; long c = o->calls[0]; memmove(self, obj, sizeof(struct Omni)); o->calls[0] = c + 1; }
static int Omni_Cmp(var a, var b) { int64_t x = ((struct Omni*)a)->v, y = ((struct Omni*)b)->v; return x < y ? -1 : x > y; }
static uint64_t Omni_Hash(var a) { return (uint64_t)((struct Omni*)a)->v * 0x9E3779B97F4A7C15ull; }
static size_t Omni_Len(var a) { return (size_t)(((struct Omni*)a)->v & 1023); }
static var Omni_Iter_Init(var a) { ((struct Omni*)a)->calls[12]++; return Terminal; }
static var Omni_Iter_Next(var a, var c) { (void)a; (void)c; return Terminal; }
static var Omni_Iter_Type(var a) { (void)a; return Int; }
static void Omni_Push(var a, var x) { (void)x; ((struct Omni*)a)->calls[1]++; }
static void Omni_Pop(var a) { ((struct Omni*)a)->calls[2]++; }
static void Omni_Push_At(var a, var x, var i) { (void)x; (void)i; ((struct Omni*)a)->calls[3]++; }
static void Omni_Pop_At(var a, var i) { (void)i; ((struct Omni*)a)->calls[4]++; }
static void Omni_Concat(var a, var x) { (void)x; ((struct Omni*)a)->calls[5]++; }
static void Omni_Append(var a, var x) { (void)x; ((struct Omni*)a)->calls[6]++; }
static var Omni_Get(var a, var k) { (void)a; return k; }
static void Omni_Set(var a, var k, var v) { (void)k; (void)v; ((struct Omni*)a)->calls[7]++; }
static bool Omni_Mem(var a, var k) { (void)a; return (c_int(k) & 1) != 0; }
static void Omni_Rem(var a, var k) { (void)k; ((struct Omni*)a)->calls[8]++; }
static var Omni_Key_Type(var a) { (void)a; return Int; }
static var Omni_Val_Type(var a) { (void)a; return Float; }
static char* Omni_C_Str(var a) { return ((struct Omni*)a)->s; }
static int64_t Omni_C_Int(var a) { return ((struct Omni*)a)->v; }
static double Omni_C_Float(var a) { return ((struct Omni*)a)->f; }
static void Omni_Ref(var a, var x) { (void)x; ((struct Omni*)a)->calls[9]++; }
static var Omni_Deref(var a) { return a; }
static int Omni_Show(var a, var out, int pos) { return print_to(out, pos, "<Omni %i>", $I(((struct Omni*)a)->v)); }
static var Omni_Call(var a, var args) { (void)args; ((struct Omni*)a)->calls[13]++; return a; }
static void Omni_Resize(var a, size_t n) { ((struct Omni*)a)->calls[10] += (long)n; }
static void Omni_Sort_By(var a, bool(*f)(var,var)) { (void)f; ((struct Omni*)a)->calls[11]++; }

struct Sp { int64_t v; };
struct SpA { int64_t v; }; struct SpB { int64_t v; }; struct SpC { int64_t v; }; struct SpD { int64_t v; };
struct SpE { int64_t v; }; struct SpF { int64_t v; }; struct SpG { int64_t v; }; struct SpH { int64_t v; };
static int64_t Sp_C_Int(var a) { return ((struct Sp*)a)->v * 2 + 1; }
static double Sp_C_Float(var a) { return (double)((struct Sp*)a)->v + 0.5; }
static size_t Sp_Len(var a) { return (size_t)(((struct Sp*)a)->v & 255); }
static uint64_t Sp_Hash(var a) { return (uint64_t)((struct Sp*)a)->v ^ 0x5555; }
static int Sp_Cmp(var a, var b) { int64_t x = ((struct Sp*)a)->v, y = ((struct Sp*)b)->v; return x < y ? -1 : x > y; }
static char* Sp_C_Str(var a) { (void)a; return "sparse"; }
static var Sp_Deref(var a) { return a; }
static void Sp_Ref(var a, var x) { (void)a; (void)x; }

static var Omni = Cello(Omni,
    Instance(New, Omni_New, Omni_Del), Instance(Assign, Omni_Assign), Instance(Cmp, Omni_Cmp), Instance(Hash, Omni_Hash),
    Instance(Len, Omni_Len), Instance(Iter, Omni_Iter_Init, Omni_Iter_Next, Omni_Iter_Init, Omni_Iter_Next, Omni_Iter_Type),
    Instance(Push, Omni_Push, Omni_Pop, Omni_Push_At, Omni_Pop_At), Instance(Concat, Omni_Concat, Omni_Append),
    Instance(Get, Omni_Get, Omni_Set, Omni_Mem, Omni_Rem, Omni_Key_Type, Omni_Val_Type),
    Instance(C_Str, Omni_C_Str), Instance(C_Int, Omni_C_Int), Instance(C_Float, Omni_C_Float),
    Instance(Pointer, Omni_Ref, Omni_Deref), Instance(Show, Omni_Show, NULL), Instance(Call, Omni_Call),
  Instance(Resize, Omni_Resize), Instance(Sort, Omni_Sort_By));
static var SpA = Cello(SpA, Instance(C_Int, Sp_C_Int));
static var SpB = Cello(SpB, Instance(C_Float, Sp_C_Float));
static var SpC = Cello(SpC, Instance(C_Int, Sp_C_Int), Instance(C_Float, Sp_C_Float));
static var SpD = Cello(SpD, Instance(C_Float, Sp_C_Float), Instance(C_Int, Sp_C_Int));
static var SpE = Cello(SpE, Instance(Len, Sp_Len), Instance(Hash, Sp_Hash));
static var SpF = Cello(SpF, Instance(Cmp, Sp_Cmp), Instance(C_Str, Sp_C_Str));
static var SpG = Cello(SpG, Instance(Pointer, Sp_Ref, Sp_Deref), Instance(Len, Sp_Len));
static var SpH = Cello(SpH, Instance(Hash, Sp_Hash), Instance(C_Int, Sp_C_Int), Instance(C_Str, Sp_C_Str));

static var mk_sp(var T, int64_t v) { struct Sp* p = new_with(T, tuple()); p->v = v; return p; }

static void user_types(void) {
  var CL[] = { Size, Alloc, New, Assign, Cmp, Mark, Hash, Len, Iter, Push, Concat, Get, C_Str, C_Int, C_Float, Current, Cast, Pointer,
               Show, Format, Call, Sort, Resize, Copy, Swap, Stream, Start, Lock, Doc, Help };
  enum { NCL = sizeof CL / sizeof CL[0] };
  var TY[] = { Omni, SpA, SpB, SpC, SpD, SpE, SpF, SpG, SpH, Int, Float, String, Array, List, Table, Tree, Tuple, Range, File, Function, Ref, Box, Type };
  enum { NTY = sizeof TY / sizeof TY[0] };
  /* which type has which class, asked in a seeded order (the answers are printed in class order) */
  for (int pass = 0; pass < 2; pass++) {
    for (int t = 0; t < NTY; t++) {
      int order[NCL]; char bits[NCL + 1];
      for (int i = 0; i < NCL; i++) { order[i] = i; }
      for (int i = NCL - 1; i > 0; i--) { int j = (int)below(i + 1); int q = order[i]; order[i] = order[j]; order[j] = q; }
      for (int i = 0; i < NCL; i++) { bits[order[i]] = type_implements(TY[t], CL[order[i]]) ? '1' : '0'; }
      bits[NCL] = 0;
      OUT("implements %s %s", c_str(TY[t]), bits);
    }
  }
  /* both numeric conversions on types that have both, one of them, or none, in a seeded order */
  var TC[] = { SpA, SpB, SpC, SpD, SpH, Omni };
  for (int k = 0; k < 12; k++) {
    int t = (int)below(6);
    var o = TC[t] == Omni ? new(Omni, $I(below(1000))) : mk_sp(TC[t], below(1000));
    int first_int = (int)below(2);
    for (int step = 0; step < 2; step++) {
      int want_int = step == 0 ? first_int : !first_int;
      if (want_int) { if (type_implements(TC[t], C_Int)) { OUT("conv %s c_int=%" PRId64, c_str(TC[t]), c_int(o)); } }
      else { if (type_implements(TC[t], C_Float)) { OUT("conv %s c_float=%.3f", c_str(TC[t]), c_float(o)); } }
    }
    if (type_implements(TC[t], C_Int) && type_implements(TC[t], C_Float)) {
      var s = new(String);
      print_to(s, 0, "%i|%.2f|%5i|%e", o, o, o, o);
      OUT("conv formatted %s", c_str(s));
      del(s);
    }
    del(o);
  }
  /* every dispatcher of the all-classes type, in a seeded order */
  var o = new(Omni, $I(100 + below(900))), o2 = new(Omni, $I(below(50)));
  for (int k = 0; k < 60; k++) {
    switch (below(30)) {
      case 0: OUT("omni len %zu", len(o)); break;
      case 1: OUT("omni hash %016" PRIx64, hash(o)); break;
      case 2: OUT("omni cmp %d eq %d", cmp(o, o2), (int)eq(o, o)); break;
      case 3: OUT("omni c_int %" PRId64, c_int(o)); break;
      case 4: OUT("omni c_float %.2f", c_float(o)); break;
      case 5: OUT("omni c_str %s", c_str(o)); break;
      case 6: push(o, $I(1)); break;
      case 7: pop(o); break;
      case 8: push_at(o, $I(1), $I(0)); break;
      case 9: pop_at(o, $I(0)); break;
      case 10: concat(o, o2); break;
      case 11: append(o, o2); break;
      case 12: OUT("omni get %" PRId64, c_int(get(o, $I(k)))); break;
      case 13: set(o, $I(1), $I(2)); break;
      case 14: OUT("omni mem %d", (int)mem(o, $I(k))); break;
      case 15: rem(o, $I(1)); break;
      case 16: OUT("omni key/val type %s %s", c_str(key_type(o)), c_str(val_type(o))); break;
      case 17: ref(o, o2); break;
      case 18: OUT("omni deref is self %d", (int)(deref(o) == o)); break;
      case 19: { var s = new(String); print_to(s, 0, "[%$]", o); OUT("omni show %s", c_str(s)); del(s); break; }
      case 20: OUT("omni call returns self %d", (int)(call_with(o, tuple()) == o)); break;
      case 21: resize(o, (size_t)(k % 7)); break;
      case 22: sort_by(o, descending); break;
      case 23: { int n = 0; foreach (x in o) { n++; } OUT("omni foreach %d items, iter_type %s", n, c_str(iter_type(o))); break; }
      case 24: { var c = copy(o2); OUT("omni copy eq %d", (int)eq(c, o2)); del(c); break; }
      case 25: assign(o2, o2); break;
      case 26: OUT("omni size %zu type %s", size(type_of(o)), c_str(type_of(o))); break;
      case 27: OUT("omni cast ok %d", (int)(cast(o, Omni) == o)); break;
      case 28: OUT("omni implements Len %d Lock %d", (int)implements(o, Len), (int)implements(o, Lock)); break;
      default: OUT("omni lt %d ge %d", (int)lt(o2, o), (int)ge(o2, o)); break;
    }
  }
  { struct Omni* q = o; char b[200]; size_t w = 0; for (int i = 0; i < 16; i++) { w += (size_t)snprintf(b + w, sizeof b - w, "%ld,", q->calls[i]); } OUT("omni calls %s", b); }
  del(o); del(o2);
}


/* Strings held by value inside containers are ordinary Strings with their own heap buffer: every in-place operation
   that works on a heap String works on them (only freeing the element itself is the container's business). */
static void embedded_strings(void) {
  var arr = new(Array, String), lst = new(List, String), tab = new(Table, Int, String), tre = new(Tree, Int, String);
  char b[32];
  int n = 3 + (int)below(5);
  for (int i = 0; i < n; i++) {
    snprintf(b, sizeof b, "s%d-%d", i, (int)below(100));
    push(arr, $S(b)); push(lst, $S(b)); set(tab, $I(i), $S(b)); set(tre, $I(i), $S(b));
  }
  for (int k = 0; k < 12; k++) {
    int i = (int)below(n), j = (int)below(n);
    var c[4] = { get(arr, $I(i)), get(lst, $I(i)), get(tab, $I(i)), get(tre, $I(i)) };
    for (int q = 0; q < 4; q++) {
      switch (below(6)) {
        case 0: append(c[q], $S("+a")); break;
        case 1: concat(c[q], q == 0 ? get(lst, $I(j)) : get(arr, $I(j))); break;      /* never a String with itself: strcat(s, s) is undefined in C too */
        case 2: resize(c[q], (size_t)below(6)); break;
        case 3: assign(c[q], $S("assigned over the element")); break;
        case 4: print_to(c[q], (int)len(c[q]), "<%i|%s>", $I(k), $S("fmt")); break;
        default: if (mem(c[q], $S("a"))) { rem(c[q], $S("a")); } break;
      }
    }
  }
  out_seq("embedded Array<String>", arr); out_seq("embedded List<String>", lst);
  for (int i = 0; i < n; i++) { OUT("embedded Table[%d]=%s Tree[%d]=%s", i, c_str(get(tab, $I(i))), i, c_str(get(tre, $I(i)))); }
  del(arr); del(lst); del(tab); del(tre);
}


/* a value handed to a thread through the Thread object's own storage before the thread is started: the Thread
   object (live on this stack) is what keeps it; a collecting build must not lose it while garbage is produced */
static volatile int64_t thread_result;
static var read_own_storage(var args) {
  var v = get(current(Thread), $S("input"));
  thread_result = c_int(v) * 2 + (int64_t)len(args);
  return NULL;
}
static void __attribute__((noinline)) stash_input(var t, int64_t v) { set(t, $S("input"), new(Int, $I(v))); }
static void thread_storage(void) {
  var fn = $(Function, read_own_storage);
  var t = new(Thread, fn);
  int64_t v = 100 + below(900);
  stash_input(t, v);
  for (int i = 0; i < 4000; i++) { var g = new(Int, $I(i)); (void)g; }       /* garbage: collections in the collecting builds */
  var held = mem(t, $S("input")) ? get(t, $S("input")) : NULL;
  OUT("thread storage before start: %" PRId64, held ? c_int(held) : -1);
  thread_result = -1;
  call(t);
  join(t);
  OUT("thread read its input and computed %" PRId64, (int64_t)thread_result);
  del(t);
}


/* a type with its own allocator: objects come from a fixed pool, and the deallocator finds the slot again from what
   the object itself says (its type and a stored slot number) -- the object it is handed is still a whole object */
struct Pooled { int64_t slot; int64_t value; };
static char pool_mem[8][sizeof(struct Header) + sizeof(struct Pooled)];
static int pool_used[8];
static long pool_released, pool_confused;
static var Pooled_Alloc(void);
static void Pooled_Dealloc(var self);
static var Pooled = Cello(Pooled, Instance(Alloc, Pooled_Alloc, Pooled_Dealloc));
static var Pooled_Alloc(void) {
  for (int i = 0; i < 8; i++) {
    if (!pool_used[i]) {
      pool_used[i] = 1;
      memset(pool_mem[i], 0, sizeof pool_mem[i]);
      struct Pooled* p = header_init(pool_mem[i], Pooled, AllocHeap);
      p->slot = i;
      return p;
    }
  }
  return NULL;
}
static void Pooled_Dealloc(var self) {
  struct Pooled* p = self;
  if (type_of(self) != Pooled || p->slot < 0 || p->slot >= 8 || !pool_used[p->slot] || (var)(pool_mem[p->slot] + sizeof(struct Header)) != self) { pool_confused++; return; }
  pool_used[p->slot] = 0;
  pool_released++;
}
static void pooled_objects(void) {
  var held[6];
  int n = 2 + (int)below(5);
  for (int i = 0; i < n; i++) { held[i] = new(Pooled); ((struct Pooled*)held[i])->value = 10 * i + below(10); }
  int64_t sum = 0;
  for (int i = 0; i < n; i++) { sum += ((struct Pooled*)held[i])->value; }
  for (int i = 0; i < n; i++) { if (i % 2) { del(held[i]); } else { var raw = held[i]; del(raw); } }
  int in_use = 0; for (int i = 0; i < 8; i++) { in_use += pool_used[i]; }
  OUT("pooled objects: %d made, sum %" PRId64 ", released so far %ld, slots in use %d, confused %ld", n, sum, pool_released, in_use, pool_confused);
}

/* ---------- owners left to the collector: an owner and what it owns become garbage together ----------
** Box, heap Range / Slice / Zip and a user type whose destructor deletes its child (the documented convention).  With
** the collector, the sweep may finalise the owned object before its owner, whose destructor then deletes it again:
** that second deletion is a no-op.  Without the collector nothing is ever finalised.  The transcript shows the
** values read and the number of children finalised more than once (0 in every build). */
struct Kid { int64_t id; };
static long kid_fin[4096]; static long kid_twice;
static void Kid_New(var self, var args) { ((struct Kid*)self)->id = c_int(get(args, $I(0))); }
static void Kid_Del(var self) { int64_t id = ((struct Kid*)self)->id; if (id >= 0 && id < 4096 && ++kid_fin[id] > 1) { kid_twice++; } }
static var Kid = Cello(Kid, Instance(New, Kid_New, Kid_Del));
struct Keeper { var kid; var spare; };
static void Keeper_New(var self, var args) { struct Keeper* k = self; k->kid = new(Kid, get(args, $I(0))); k->spare = new(Int, get(args, $I(0))); }
static void Keeper_Del(var self) { struct Keeper* k = self; del(k->kid); del(k->spare); }
static var Keeper = Cello(Keeper, Instance(New, Keeper_New, Keeper_Del));
static int64_t kid_serial;

static void __attribute__((noinline)) drop_owners(int n, int64_t* total, int64_t* count) {
  var arr = new(Array, Int);
  for (int i = 0; i < 12; i++) { push(arr, $I(i * 3)); }
  for (int i = 0; i < n; i++) {
    var b = new(Box, new(Int, $I(i)));
    *total += c_int(deref(b));
    var k = new(Keeper, $I(kid_serial++ % 4096));
    *total += c_int(((struct Keeper*)k)->spare) & 7;
    if (i % 8 == 0) { foreach (x in new(Range, $I(5 + i % 7))) { *total += c_int(x); (*count)++; } }
    if (i % 16 == 1) { foreach (x in new(Slice, arr, $I(1), $I(9), $I(2))) { *total += c_int(x); (*count)++; } }
    if (i % 16 == 2) { foreach (p in new(Zip, arr, arr)) { *total += c_int(get(p, $I(0))); (*count)++; } }
    b = NULL; k = NULL;
  }
  /* arr is left to the collector as well: the dropped Slices and Zips still point into it (an explicit del of an
     object that garbage still refers to is outside the API's contract, DESIGN 10.3) */
  arr = NULL;
}
static void owners_left_to_the_collector(void) {
  int64_t total = 0, count = 0;
  int n = 150 + (int)below(200);
  drop_owners(n, &total, &count);
  OUT("owners dropped: %d, values read %" PRId64 " in %" PRId64 " items, children finalised twice %ld", n, total, count, kid_twice);
}

/* ---------- heap views whose inputs nothing else refers to ----------
** A helper builds the inputs and returns only the view (Zip, Slice, Filter, Map, and a Zip of views): from then on
** the inputs live through the view alone.  Garbage is produced until collections have run; the views then yield what
** they yield in a build without collector. */
static var __attribute__((noinline)) make_view(int kind, int n) {
  static char fnbuf[sizeof(struct Header) + sizeof(struct Function)];
  static var odd_fn;                  /* outlives the helper: a Filter keeps the Function object it was given */
  if (odd_fn == NULL) { odd_fn = header_init(fnbuf, Function, AllocStatic); ((struct Function*)odd_fn)->func = odd_only; }
  var a = new(Array, Int), b = new(List, Int);
  for (int i = 0; i < n; i++) { push(a, $I(i * 7 + kind)); push(b, $I(1000 - i)); }
  switch (kind) {
    case 0: return new(Zip, a, b);
    case 1: return new(Slice, a, $I(1), $I(n - 1), $I(2));
    case 2: return new(Filter, a, odd_fn);
    case 3: return new(Slice, new(Zip, b, a), $I(0), $I(n / 2));
    default: return new(Zip, a, new(Slice, b, $I(0), $I(n), $I(3)), new(Range, $I(n)));
  }
}
static void __attribute__((noinline)) scrub_stack(void) { volatile char pad[4096]; for (size_t i = 0; i < sizeof pad; i++) { pad[i] = 0; } }
static void __attribute__((noinline)) churn_garbage(int n) { for (int i = 0; i < n; i++) { var g = new(Array, Int, $I(i), $I(i + 1)); (void)g; var h = new(String, $S("garbage")); (void)h; } }
/* ---------- containers of references that hold the only reference to what they refer to ----------
** Array, List, Table and Tree of Ref and a heap Tuple: a helper fills one with references to fresh Ints and returns
** only the container.  After enough garbage for several collections the referents are read through the container. */
static var __attribute__((noinline)) make_ref_holder(int kind, int n) {
  if (kind == 5) {
    /* a heap Tuple whose one item is an Array of Ref made outside the collector (new_raw, deleted by hand later) */
    var inner = new_raw(Array, Ref);
    var holder = new(Tuple, inner);          /* from here on the Tuple is what makes the Array's contents reachable */
    for (int i = 0; i < n; i++) { push(inner, $R(new(Int, $I(5000 + i)))); }
    return holder;
  }
  var c = kind == 0 ? (var)new(Array, Ref) : kind == 1 ? (var)new(List, Ref) : kind == 2 ? (var)new(Table, Int, Ref) : kind == 3 ? (var)new(Tree, Int, Ref) : (var)new(Tuple);
  for (int i = 0; i < n; i++) {
    var x = new(Int, $I(1000 * kind + i));
    if (kind == 2 || kind == 3) { set(c, $I(i), $R(x)); } else if (kind == 4) { push(c, x); } else { push(c, $R(x)); }
  }
  return c;
}
static void containers_of_references(void) {
  static const char* NAME[6] = { "Array of Ref", "List of Ref", "Table of Ref", "Tree of Ref", "heap Tuple", "heap Tuple of an Array of Ref made outside the collector" };
  var holders[6]; int n = 8 + (int)below(40);
  for (int k = 0; k < 6; k++) { holders[k] = make_ref_holder(k, n); }
  scrub_stack();
  churn_garbage(1500 + (int)below(1500));
  for (int k = 0; k < 6; k++) {
    int64_t sum = 0, items = 0;
    if (k == 5) { var inner = get(holders[k], $I(0)); foreach (x in inner) { sum += c_int(deref(x)); items++; } pop(holders[k]); del_raw(inner); }
    else if (k == 2 || k == 3) { foreach (key in holders[k]) { sum += c_int(deref(get(holders[k], key))); items++; } }
    else if (k == 4) { foreach (x in holders[k]) { sum += c_int(x); items++; } }
    else { foreach (x in holders[k]) { sum += c_int(deref(x)); items++; } }
    OUT("%s holding the only references to %d Ints: %" PRId64 " items, sum %" PRId64, NAME[k], n, items, sum);
  }
}

static void views_over_unshared_inputs(void) {
  var views[5]; int n = 6 + (int)below(20);
  for (int k = 0; k < 5; k++) { views[k] = make_view(k, n); }
  scrub_stack();
  churn_garbage(1500 + (int)below(1500));
  for (int k = 0; k < 5; k++) {
    int64_t sum = 0, items = 0;
    foreach (x in views[k]) {
      if (type_of(x) is Int) { sum += c_int(x); } else { foreach (y in x) { sum += c_int(y); } }
      items++;
    }
    OUT("view %d over %d unshared inputs: %" PRId64 " items, sum %" PRId64, k, n, items, sum);
  }
}

/* ---------- a root object referenced from static storage only ----------
** What new_root is for: the pointer lives where no collector looks (a static variable).  While it is registered the
** registry grows and shrinks (many live objects, then a lot of garbage); the object is still there afterwards. */
static var static_root;
static void __attribute__((noinline)) make_static_root(int n) {
  static_root = new_root(Array, Int);
  for (int i = 0; i < n; i++) { push(static_root, $I(i * 10 + 7)); }
}
static void root_in_static_storage(void) {
  int n = 3 + (int)below(6);
  make_static_root(n);
  scrub_stack();
  var live[64];
  for (int i = 0; i < 64; i++) { live[i] = new(Int, $I(i)); }
  churn_garbage(400 + (int)below(400));
  int64_t s = 0; for (int i = 0; i < 64; i++) { s += c_int(live[i]); }
  churn_garbage(300);
  int64_t t = 0; foreach (x in static_root) { t += c_int(x); }
  OUT("root kept in static storage: %zu items, sum %" PRId64 ", live sum %" PRId64, len(static_root), t, s);
  del_root(static_root); static_root = NULL;
}

/* ---------- a run-time type described twice ----------
** A run-time type is made with one set of instances, used (so that every lookup has happened), and constructed again
** in place with another set: from then on every class answers with the second description -- with or without the
** lookup cache. */
struct Temp { int64_t v; };
static int64_t TempC_C_Int(var a) { return ((struct Temp*)a)->v; }
static int64_t TempK_C_Int(var a) { return ((struct Temp*)a)->v + 27315; }
static uint64_t TempC_Hash(var a) { return (uint64_t)((struct Temp*)a)->v; }
static uint64_t TempK_Hash(var a) { return (uint64_t)((struct Temp*)a)->v + 27315u; }
static size_t TempC_Len(var a) { (void)a; return 1; }
static size_t TempK_Len(var a) { (void)a; return 2; }
static double TempC_C_Float(var a) { return (double)((struct Temp*)a)->v / 100.0; }
static double TempK_C_Float(var a) { return (double)(((struct Temp*)a)->v + 27315) / 100.0; }
static char* TempC_C_Str(var a) { (void)a; return "Celsius"; }
static char* TempK_C_Str(var a) { (void)a; return "Kelvin"; }
static var temp_instance(var cls, void* f0) {
  char* blk = calloc(1, sizeof(struct Header) + 8 * sizeof(var));
  var inst = header_init(blk, cls, AllocHeap);
  ((void**)inst)[0] = f0;
  return inst;
}
static void runtime_type_described_twice(void) {
  static int serial;
  char nm[24]; snprintf(nm, sizeof nm, "Temp%d", serial++);
  char* name = strdup(nm);
  var T = new_root(Type, $S(name), $I(sizeof(struct Temp)), temp_instance(C_Int, (void*)TempC_C_Int), temp_instance(Hash, (void*)TempC_Hash), temp_instance(Len, (void*)TempC_Len),
                   temp_instance(C_Float, (void*)TempC_C_Float), temp_instance(C_Str, (void*)TempC_C_Str));
  var x = new_raw_with(T, tuple());
  ((struct Temp*)x)->v = 2100 + below(500);
  OUT("first description: %" PRId64 " %" PRIu64 " %zu %.2f %s", c_int(x), hash(x), len(x), c_float(x), c_str(x));
  construct(T, $S(name), $I(sizeof(struct Temp)), temp_instance(C_Int, (void*)TempK_C_Int), temp_instance(Hash, (void*)TempK_Hash), temp_instance(Len, (void*)TempK_Len),
            temp_instance(C_Float, (void*)TempK_C_Float), temp_instance(C_Str, (void*)TempK_C_Str));
  OUT("second description: %" PRId64 " %" PRIu64 " %zu %.2f %s", c_int(x), hash(x), len(x), c_float(x), c_str(x));
  del_raw(x);
  del_root(T);
}

static void files(const char* dir_tag) {
  char path[128]; snprintf(path, sizeof path, "c18-%s.tmp", dir_tag);
  var f = new(File, $S(path), $S("w+"));
  char data[300]; int n = 20 + (int)below(250);
  for (int i = 0; i < n; i++) { data[i] = (char)('a' + below(26)); }
  swrite(f, data, (size_t)n);
  print_to(f, 0, "|%i|%s|", $I(n), $S("end"));
  int64_t at = stell(f);
  sseek(f, 0, SEEK_SET);
  char back[400]; memset(back, 0, sizeof back);
  size_t got = sread(f, back, (size_t)n);
  var num = new(Int);
  OUT("file tell=%" PRId64 " read=%zu same=%d eof=%d", at, got, (int)(memcmp(back, data, (size_t)n) == 0), (int)seof(f));
  scan_from(f, 0, "|%i|", num);
  OUT("file scanned %" PRId64, c_int(num));
  sclose(f);
  del(f); del(num);
  remove(path);
}

int main(int argc, char** argv) {
  uint64_t seed = argc > 1 ? strtoull(argv[1], NULL, 10) : 1;
  const char* tag = argc > 2 ? argv[2] : "x";
  seed_rng(seed);
  int rounds = 3 + (int)below(3);
  for (int i = 0; i < rounds; i++) {
    OUT("--- round %d", i);
    sequences(); maps(); strings_and_formats(); exceptions(); values_and_types(); user_types(); embedded_strings(); thread_storage(); pooled_objects(); owners_left_to_the_collector(); views_over_unshared_inputs(); containers_of_references(); root_in_static_storage(); runtime_type_described_twice(); files(tag);
  }
  OUT("done");
  return 0;
}
