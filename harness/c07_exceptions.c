/*
** C07 -- try / catch / throw follow block structure.
**
** Program trees are generated as data and executed with the REAL try/catch/throw macros
** (a switch over the 8 filter sets); a small reference interpreter gives the expected trace.
** Unity-includes Exception.c only to read the per-thread exception record (message text,
** depth, active flag) -- exception_message()/exception_object() are declared but not defined.
*/
#include "vh.h"
#include <sys/mman.h>
#include "Exception.c"

enum { N_SEQ, N_EMIT, N_THROW, N_TRY, N_CALL };
enum { MAXN = 8200, MAXT = 20000 };
enum { EV_EMIT = 1, EV_THROW, EV_HANDLER, EV_AFTER, EV_END };

struct node { int kind, id, exc, filter, nchild, child[4]; };
static struct node nodes[MAXN];
static int nnodes;

/* kinds 0..2 may appear in filters, kind 3 never does */
static var KIND[4];
static const char* KNAME[4] = { "TypeError", "KeyError", "ValueError", "IOError" };

struct ev { int type, a, b, c; };
struct trace { int n; int overflow; struct ev e[MAXT]; };

static struct trace* got;     /* shared mapping so that a child's prefix survives its exit */
static struct trace expect;

static void tr_add(struct trace* t, int type, int a, int b, int c) {
  if (t->n >= MAXT) { t->overflow = 1; return; }
  t->e[t->n].type = type; t->e[t->n].a = a; t->e[t->n].b = b; t->e[t->n].c = c;
  t->n++;
}

static int new_node(int kind) {
  if (nnodes >= MAXN) { return -1; }
  struct node* nd = &nodes[nnodes];
  memset(nd, 0, sizeof *nd);
  nd->kind = kind; nd->id = nnodes;
  return nnodes++;
}

static int filter_matches(int filter, int exc) {
  if (filter == 0) { return 1; }           /* empty filter: everything */
  return exc < 3 && ((filter >> exc) & 1);
}

/* ---------- generator ---------- */

static int gen(vh_rng* r, int depth, int budget, int in_handler);

static int gen_try(vh_rng* r, int depth, int budget, int filter) {
  int n = new_node(N_TRY);
  if (n < 0) { return -1; }
  nodes[n].filter = filter;
  int b = gen(r, depth + 1, budget / 2 + 1, 0);
  int h = gen(r, depth + 1, budget / 3 + 1, 1);
  if (b < 0 || h < 0) { return -1; }
  nodes[n].nchild = 2; nodes[n].child[0] = b; nodes[n].child[1] = h;
  return n;
}

static int gen(vh_rng* r, int depth, int budget, int in_handler) {
  int roll = (int)vh_below(r, 100);
  if (depth >= 12 || budget <= 1) { roll = roll % 45; }
  if (roll < 25) {
    return new_node(N_EMIT);
  } else if (roll < 45) {
    int n = new_node(N_THROW);
    if (n >= 0) { nodes[n].exc = (int)vh_below(r, 4); }
    return n;
  } else if (roll < 70) {
    int n = new_node(N_SEQ);
    if (n < 0) { return -1; }
    int k = 2 + (int)vh_below(r, 3);
    for (int i = 0; i < k; i++) {
      int c = gen(r, depth + 1, budget / k + 1, in_handler);
      if (c < 0) { return -1; }
      nodes[n].child[nodes[n].nchild++] = c;
    }
    return n;
  } else if (roll < 92) {
    return gen_try(r, depth, budget, (int)vh_below(r, 8));
  } else {
    int n = new_node(N_CALL);
    if (n < 0) { return -1; }
    int c = gen(r, depth + 1, budget, in_handler);
    if (c < 0) { return -1; }
    nodes[n].nchild = 1; nodes[n].child[0] = c;
    return n;
  }
}

/* ---------- reference interpreter ---------- */

struct pend { int active, exc, thrower, levels; };

static int cov_inner_handled_outer_normal, cov_propagate2, cov_throw_from_handler,
  cov_handled, cov_tries, cov_throws;

/* returns the pending exception; handled_inside: an exception was handled somewhere below */
static struct pend refi(int n, int depth, int in_handler, int* handled_inside) {
  struct pend none = {0, 0, 0, 0};
  struct node* nd = &nodes[n];
  switch (nd->kind) {
    case N_EMIT:
      tr_add(&expect, EV_EMIT, nd->id, depth, 0);
      return none;
    case N_THROW: {
      tr_add(&expect, EV_THROW, nd->id, 0, 0);
      cov_throws++;
      if (in_handler) { cov_throw_from_handler++; }
      struct pend p = {1, nd->exc, nd->id, 0};
      return p;
    }
    case N_SEQ:
      for (int i = 0; i < nd->nchild; i++) {
        struct pend p = refi(nd->child[i], depth, in_handler, handled_inside);
        if (p.active) { return p; }
      }
      return none;
    case N_CALL:
      return refi(nd->child[0], depth, in_handler, handled_inside);
    case N_TRY: {
      cov_tries++;
      int inner_handled = 0;
      struct pend p = refi(nd->child[0], depth + 1, 0, &inner_handled);
      if (p.active && filter_matches(nd->filter, p.exc)) {
        tr_add(&expect, EV_HANDLER, nd->id, p.exc, p.thrower);
        cov_handled++;
        if (p.levels >= 2) { cov_propagate2++; }
        struct pend q = refi(nd->child[1], depth, 1, &inner_handled);
        if (q.active) { return q; }
        *handled_inside = 1;
        tr_add(&expect, EV_AFTER, nd->id, depth, 0);
        return none;
      }
      if (p.active) { p.levels++; return p; }
      if (inner_handled) { cov_inner_handled_outer_normal++; *handled_inside = 1; }
      tr_add(&expect, EV_AFTER, nd->id, depth, 0);
      return none;
    }
  }
  return none;
}

/* ---------- executor with the real macros ---------- */

static __thread int base_depth;

static int cur_depth(void) { return (int)len(current(Exception)) - base_depth; }

static void exec(int n);

static void __attribute__((noinline)) exec_call(int n) { exec(n); }

static void on_handler(int tryid, var e) {
  int k = -1;
  for (int i = 0; i < 4; i++) { if (e == KIND[i]) { k = i; } }
  /* message text of the record: "m<thrower>-x" */
  struct Exception* rec = current(Exception);
  const char* msg = c_str(rec->msg);
  int thrower = -1;
  char tail[8] = "";
  if (sscanf(msg, "m%d-%7s", &thrower, tail) != 2 || strcmp(tail, "x") != 0) { thrower = -2; }
  tr_add(got, EV_HANDLER, tryid, k, thrower);
}

#define EXEC_TRY(FILTER) \
  try { exec(nd->child[0]); } catch FILTER { on_handler(nd->id, e); exec(nd->child[1]); }

static void __attribute__((noinline)) exec_try(struct node* nd) {
  switch (nd->filter) {
    case 0: EXEC_TRY((e)); break;
    case 1: EXEC_TRY((e in TypeError)); break;
    case 2: EXEC_TRY((e in KeyError)); break;
    case 3: EXEC_TRY((e in TypeError, KeyError)); break;
    case 4: EXEC_TRY((e in ValueError)); break;
    case 5: EXEC_TRY((e in TypeError, ValueError)); break;
    case 6: EXEC_TRY((e in KeyError, ValueError)); break;
    case 7: EXEC_TRY((e in TypeError, KeyError, ValueError)); break;
  }
}

static void exec(int n) {
  struct node* nd = &nodes[n];
  switch (nd->kind) {
    case N_EMIT:
      tr_add(got, EV_EMIT, nd->id, cur_depth(), 0);
      break;
    case N_THROW:
      tr_add(got, EV_THROW, nd->id, 0, 0);
      throw(KIND[nd->exc], "m%i-%s", $I(nd->id), $S("x"));
      break;
    case N_SEQ:
      for (int i = 0; i < nd->nchild; i++) { exec(nd->child[i]); }
      break;
    case N_CALL:
      exec_call(nd->child[0]);
      break;
    case N_TRY:
      exec_try(nd);
      tr_add(got, EV_AFTER, nd->id, cur_depth(), 0);
      break;
  }
}

/* ---------- lexical nesting: three try blocks in ONE function, data-driven throw points ---------- */

static const int* lex_tp;
static int lex_ids[16];

static void lex_emit(int slot) { tr_add(got, EV_EMIT, lex_ids[slot], cur_depth(), 0); }
static void lex_throw(int slot) {
  int k = lex_tp[slot];
  if (k == 0) { return; }
  tr_add(got, EV_THROW, lex_ids[slot], 0, 0);
  throw(KIND[k-1], "m%i-%s", $I(lex_ids[slot]), $S("x"));
}
static void lex_after(int id) { tr_add(got, EV_AFTER, id, cur_depth(), 0); }

/* slots: emits e0..e6 ; throw points t0..t8 ; try ids y1..y3 */
#define LEX3(NAME, F1, F2, F3) static void NAME(const int* ids_emit, const int* ids_try) { \
  (void)ids_emit; \
  lex_emit(0); lex_throw(7); \
  try { lex_emit(1); lex_throw(8); \
    try { lex_emit(2); lex_throw(9); \
      try { lex_emit(3); lex_throw(10); } catch F3 { on_handler(ids_try[2], e3); lex_throw(11); } \
      lex_after(ids_try[2]); lex_emit(4); lex_throw(12); \
    } catch F2 { on_handler(ids_try[1], e2); lex_throw(13); } \
    lex_after(ids_try[1]); lex_emit(5); lex_throw(14); \
  } catch F1 { on_handler(ids_try[0], e1); lex_throw(15); } \
  lex_after(ids_try[0]); lex_emit(6); }

LEX3(lex_a, (e1), (e2 in KeyError), (e3 in TypeError))
LEX3(lex_b, (e1 in TypeError, KeyError, ValueError), (e2), (e3 in ValueError, KeyError))
LEX3(lex_c, (e1 in ValueError), (e2 in TypeError, ValueError), (e3))
LEX3(lex_d, (e1), (e2), (e3))
LEX3(lex_e, (e1 in TypeError), (e2 in TypeError), (e3 in TypeError))

struct lexdef { void (*fn)(const int*, const int*); int f1, f2, f3; };
static struct lexdef LEX[5] = {
  { lex_a, 0, 2, 1 }, { lex_b, 7, 0, 6 }, { lex_c, 4, 5, 0 }, { lex_d, 0, 0, 0 }, { lex_e, 1, 1, 1 },
};

/* the same program as a tree, for the reference; tp[slot] = 0 none, k+1 kind k */
static int mk_emit_slot(int slot) { int n = new_node(N_EMIT); lex_ids[slot] = n; return n; }
static int mk_throw_slot(int slot, const int* tp) {
  int n = new_node(N_THROW); lex_ids[slot] = n;
  nodes[n].exc = tp[slot] ? tp[slot] - 1 : 0;
  if (!tp[slot]) { nodes[n].kind = N_SEQ; nodes[n].nchild = 0; }   /* empty statement */
  return n;
}
static int mk_seq(int k, const int* c) {
  int n = -1, first = -1;
  /* chain of SEQ nodes with up to 4 children each */
  int i = 0;
  while (i < k) {
    int s = new_node(N_SEQ);
    if (first < 0) { first = s; }
    if (n >= 0) { nodes[n].child[nodes[n].nchild++] = s; }
    n = s;
    int room = (k - i > 4) ? 3 : 4;
    for (int j = 0; j < room && i < k; j++) { nodes[n].child[nodes[n].nchild++] = c[i++]; }
  }
  return first;
}
static int mk_try(int filter, int body, int handler) {
  int n = new_node(N_TRY);
  nodes[n].filter = filter; nodes[n].nchild = 2; nodes[n].child[0] = body; nodes[n].child[1] = handler;
  return n;
}

static int lex_try_ids[3];

static int build_lex_tree(const struct lexdef* d, const int* tp) {
  int e0 = mk_emit_slot(0), t7 = mk_throw_slot(7, tp);
  int e1 = mk_emit_slot(1), t8 = mk_throw_slot(8, tp);
  int e2 = mk_emit_slot(2), t9 = mk_throw_slot(9, tp);
  int e3 = mk_emit_slot(3), t10 = mk_throw_slot(10, tp);
  int t11 = mk_throw_slot(11, tp);
  int e4 = mk_emit_slot(4), t12 = mk_throw_slot(12, tp);
  int t13 = mk_throw_slot(13, tp);
  int e5 = mk_emit_slot(5), t14 = mk_throw_slot(14, tp);
  int t15 = mk_throw_slot(15, tp);
  int e6 = mk_emit_slot(6);
  int b3c[2] = { e3, t10 };
  int y3 = mk_try(d->f3, mk_seq(2, b3c), t11);
  int b2c[5] = { e2, t9, y3, e4, t12 };
  int y2 = mk_try(d->f2, mk_seq(5, b2c), t13);
  int b1c[5] = { e1, t8, y2, e5, t14 };
  int y1 = mk_try(d->f1, mk_seq(5, b1c), t15);
  int top[4] = { e0, t7, y1, e6 };
  lex_try_ids[0] = y1; lex_try_ids[1] = y2; lex_try_ids[2] = y3;
  return mk_seq(4, top);
}

/* ---------- running one program ---------- */

static void reset_record(void) {
  struct Exception* rec = current(Exception);
  rec->depth = (size_t)base_depth; rec->active = false;
}

static void describe(int n, char* buf, size_t cap, size_t* len_) {
  struct node* nd = &nodes[n];
  int w = 0;
  if (*len_ + 40 >= cap) { return; }
  switch (nd->kind) {
    case N_EMIT: w = snprintf(buf + *len_, cap - *len_, "e%d ", nd->id); *len_ += (size_t)w; break;
    case N_THROW: w = snprintf(buf + *len_, cap - *len_, "throw%d(%s) ", nd->id, KNAME[nd->exc]); *len_ += (size_t)w; break;
    case N_SEQ:
      for (int i = 0; i < nd->nchild; i++) { describe(nd->child[i], buf, cap, len_); }
      break;
    case N_CALL:
      w = snprintf(buf + *len_, cap - *len_, "call{ "); *len_ += (size_t)w;
      describe(nd->child[0], buf, cap, len_);
      if (*len_ + 4 < cap) { w = snprintf(buf + *len_, cap - *len_, "} "); *len_ += (size_t)w; }
      break;
    case N_TRY:
      w = snprintf(buf + *len_, cap - *len_, "try%d{ ", nd->id); *len_ += (size_t)w;
      describe(nd->child[0], buf, cap, len_);
      if (*len_ + 24 < cap) { w = snprintf(buf + *len_, cap - *len_, "}catch[f%d]{ ", nd->filter); *len_ += (size_t)w; }
      describe(nd->child[1], buf, cap, len_);
      if (*len_ + 4 < cap) { w = snprintf(buf + *len_, cap - *len_, "} "); *len_ += (size_t)w; }
      break;
  }
}

static const char* evname(int t) {
  switch (t) { case EV_EMIT: return "emit"; case EV_THROW: return "throw"; case EV_HANDLER: return "handler";
    case EV_AFTER: return "after"; case EV_END: return "end"; }
  return "?";
}

static void compare_traces(const char* what, int prefix_only) {
  vh_evals(expect.n + 1);
  int n = expect.n < got->n ? expect.n : got->n;
  for (int i = 0; i < n; i++) {
    struct ev *a = &expect.e[i], *b = &got->e[i];
    if (a->type != b->type || a->a != b->a || a->b != b->b || a->c != b->c) {
      const char* key = "C07:trace:mismatch";
      if (a->type == b->type && a->a == b->a && (a->type == EV_EMIT || a->type == EV_AFTER)) { key = "C07:depth:wrong-nesting-depth"; }
      else if (a->type == EV_HANDLER && b->type == EV_HANDLER && a->a == b->a && a->b != b->b) { key = "C07:handler:wrong-object-bound"; }
      else if (a->type == EV_HANDLER && b->type == EV_HANDLER && a->a == b->a && a->c != b->c) { key = "C07:handler:wrong-message"; }
      else if (b->type == EV_HANDLER && a->type != EV_HANDLER) { key = "C07:handler:ran-without-matching-exception"; }
      else if (a->type == EV_HANDLER && b->type != EV_HANDLER) { key = "C07:handler:did-not-run"; }
      vh_violation(key, "%s: event %d expected %s(%d,%d,%d) got %s(%d,%d,%d)", what, i,
        evname(a->type), a->a, a->b, a->c, evname(b->type), b->a, b->b, b->c);
      return;
    }
  }
  if (got->n < expect.n) {
    vh_violation("C07:trace:truncated", "%s: expected %d events, got %d; next expected %s(%d,%d,%d)", what,
      expect.n, got->n, evname(expect.e[got->n].type), expect.e[got->n].a, expect.e[got->n].b, expect.e[got->n].c);
  } else if (got->n > expect.n) {
    struct ev* b = &got->e[expect.n];
    const char* key = b->type == EV_HANDLER ? "C07:handler:ran-without-matching-exception" : "C07:trace:extra-events";
    vh_violation(key, "%s: expected %d events, got %d; first extra %s(%d,%d,%d)%s", what,
      expect.n, got->n, evname(b->type), b->a, b->b, b->c, prefix_only ? " (escaping program)" : "");
  }
}

typedef void (*prog_fn)(void);
static int prog_root;
static const struct lexdef* prog_lex;
static void run_tree(void) { exec(prog_root); }
static void run_lex(void) { prog_lex->fn(lex_ids, lex_try_ids); }

/* run a program expected to escape: child process, expect failure status + diagnostic */
static void run_escaping(prog_fn fn, struct pend p, const char* what) {
  int pfd[2];
  if (pipe(pfd) != 0) { vh_info("pipe failed"); return; }
  fflush(NULL);
  pid_t pid = vh_fork();
  if (pid < 0) { vh_info("fork failed"); close(pfd[0]); close(pfd[1]); return; }
  if (pid == 0) {
    close(pfd[0]);
    dup2(pfd[1], 2);
    close(pfd[1]);
    if (vh.res) { int fd = fileno(vh.res); close(fd); }
    fn();
    /* should be unreachable: the exception escapes */
    tr_add(got, EV_END, 0, 0, 0);
    _exit(0);
  }
  close(pfd[1]);
  char err[4096]; size_t el = 0;
  for (;;) {
    ssize_t k = read(pfd[0], err + el, sizeof err - 1 - el);
    if (k <= 0) { break; }
    el += (size_t)k;
    if (el >= sizeof err - 1) { char sink[512]; while (read(pfd[0], sink, sizeof sink) > 0) {} break; }
  }
  err[el] = 0;
  close(pfd[0]);
  int st = 0;
  waitpid(pid, &st, 0);
  vh_count("uncaught_child_runs");
  compare_traces(what, 1);
  vh_evals(4);
  if (VH_CHILD_HUNG(st)) { vh_violation("C07:hang:child-process", "%s: the child running the escaping program used up its CPU budget", what); return; }
  if (!WIFEXITED(st) || WEXITSTATUS(st) != EXIT_FAILURE) {
    vh_violation("C07:uncaught:wrong-exit-status", "%s: escaping %s should end the program with EXIT_FAILURE; raw status 0x%x",
      what, KNAME[p.exc], st);
    return;
  }
  char want[64];
  snprintf(want, sizeof want, "m%d-x", p.thrower);
  if (!strstr(err, "Uncaught")) { vh_violation("C07:uncaught:no-diagnostic", "%s: stderr lacks 'Uncaught': %.200s", what, err); }
  else if (!strstr(err, KNAME[p.exc])) { vh_violation("C07:uncaught:diagnostic-wrong-exception", "%s: stderr lacks %s: %.300s", what, KNAME[p.exc], err); }
  else if (!strstr(err, want)) { vh_violation("C07:uncaught:diagnostic-wrong-message", "%s: stderr lacks %s: %.300s", what, want, err); }
}

static prog_fn thread_fn; static volatile int thread_depth_after;
static var thread_runner(var args) {
  (void)args;
  base_depth = (int)len(current(Exception));
  thread_fn();
  thread_depth_after = (int)len(current(Exception)) - base_depth;
  return NULL;
}

static void run_program(prog_fn fn, int root, const char* what) {
  expect.n = 0; expect.overflow = 0;
  got->n = 0; got->overflow = 0;
  int handled_inside = 0;
  int t0 = cov_throw_from_handler, i0 = cov_inner_handled_outer_normal, p0 = cov_propagate2, h0 = cov_handled;
  int y0 = cov_tries, w0 = cov_throws;
  struct pend p = refi(root, 0, 0, &handled_inside);
  if (expect.overflow) { vh_info("trace overflow, program skipped"); return; }
  if (cov_tries > y0 && cov_throws > w0) { vh_nontrivial(); }
  if (p.active) {
    run_escaping(fn, p, what);
  } else {
    /* every third program runs in a second thread (the main thread waits in join): a thread has an exception context
       of its own, in which the constructs behave exactly as in the main thread, whatever the main thread did before */
    static long serial;
    if (serial++ % 3 == 2) {
      thread_fn = fn; thread_depth_after = -1;
      var t = new_raw(Thread, $(Function, thread_runner));
      call(t); join(t); del_raw(t);
      vh_eval();
      if (thread_depth_after != 0) { vh_violation("C07:depth:not-restored-after-program", "%s run in a second thread: depth %d after the program, 0 before", what, thread_depth_after); }
      vh_count("programs_run_in_a_second_thread");
    } else {
      fn();
    }
    compare_traces(what, 0);
    vh_eval();
    if ((int)len(current(Exception)) != base_depth) {
      vh_violation("C07:depth:not-restored-after-program", "%s: depth %d after the program, was %d before",
        what, (int)len(current(Exception)), base_depth);
      reset_record();
    }
    /* a later, unrelated try block that completes normally must not see an old exception */
    int fired = 0;
    try { (void)fired; } catch (late) { fired = 1; }
    vh_eval();
    if (fired) { vh_violation("C07:handler:stale-exception-fired-later", "%s: empty try block after the program ran its handler", what); }
  }
  vh_count_n("throw_from_handler", (uint64_t)(cov_throw_from_handler - t0));
  vh_count_n("inner_handled_outer_normal", (uint64_t)(cov_inner_handled_outer_normal - i0));
  vh_count_n("propagated_2_levels", (uint64_t)(cov_propagate2 - p0));
  vh_count_n("handled", (uint64_t)(cov_handled - h0));
  vh_count_n("try_constructs", (uint64_t)(cov_tries - y0));
  vh_count("programs");
}

/* ---------- cases ---------- */

static void case_random(vh_rng* r, long index) {
  (void)index;
  int nprog = 1 + (int)vh_below(r, 4);       /* several constructs one after another */
  for (int k = 0; k < nprog; k++) {
    nnodes = 0;
    int root;
    int budget = 6 + (int)vh_below(r, vh.thorough ? 60 : 36);
    if (vh_chance(r, 70)) {
      root = gen_try(r, 0, budget, vh_chance(r, 60) ? 0 : (int)vh_below(r, 8));
    } else {
      root = gen(r, 0, budget, 0);
    }
    if (root < 0) { continue; }
    char buf[700]; size_t bl = 0; buf[0] = 0;
    describe(root, buf, sizeof buf, &bl);
    vh_op("%s", buf);
    prog_root = root;
    run_program(run_tree, root, "tree");
  }
}

static void case_lex(vh_rng* r, long index) {
  int tp[16];
  memset(tp, 0, sizeof tp);
  const struct lexdef* d = &LEX[(index / 2) % 5];
  int nthrow = 1 + (int)vh_below(r, 3);
  for (int i = 0; i < nthrow; i++) { tp[7 + vh_below(r, 9)] = 1 + (int)vh_below(r, 4); }
  if (vh_chance(r, 75)) { tp[7] = 0; }
  nnodes = 0;
  int root = build_lex_tree(d, tp);
  lex_tp = tp;
  prog_lex = d;
  vh_op("lex%d f=%d,%d,%d tp=%d%d%d%d%d%d%d%d%d", (int)(d - LEX), d->f1, d->f2, d->f3,
    tp[7], tp[8], tp[9], tp[10], tp[11], tp[12], tp[13], tp[14], tp[15]);
  vh_count("lexical_programs");
  run_program(run_lex, root, "lexical");
}

static void case_any(vh_rng* r, long index) {
  if (index % 2 == 0) { case_lex(r, index); } else { case_random(r, index); }
}

/* deep dynamic nest: depth levels, innermost throws kind k, level `catcher` has a matching filter */
static void deep_nest(int levels, int catcher, int exc) {
  nnodes = 0;
  int inner = new_node(N_THROW);
  nodes[inner].exc = exc;
  int cur = inner;
  for (int lvl = levels - 1; lvl >= 0; lvl--) {
    int h = new_node(N_EMIT);
    /* non-catching levels filter on a kind different from exc */
    int nomatch = 1 << ((exc + 1) % 3);
    int f = (lvl == catcher) ? 0 : nomatch;
    int c = new_node(N_CALL);
    nodes[c].nchild = 1; nodes[c].child[0] = cur;
    cur = mk_try(f, c, h);
  }
  prog_root = cur;
  vh_op("deep levels=%d catcher=%d exc=%s", levels, catcher, KNAME[exc]);
  run_program(run_tree, cur, "deep");
  vh_count("deep_nests");
}


/* every ordered pair (thrown kind, filter kind) over all built-in exception kinds and four user-defined ones:
   the filtered handler runs iff the two are the same kind, otherwise the exception goes on to the enclosing handler */
static void kind_matrix(void) {
  static var UK[4];
  if (UK[0] == NULL) {
    UK[0] = new_root(Type, $S("UserError"), $I(0)); UK[1] = new_root(Type, $S("UserErrorB"), $I(0));
    UK[2] = new_root(Type, $S("KeyErr"), $I(0)); UK[3] = new_root(Type, $S("keyerror"), $I(0));
  }
  var ALL[] = { TypeError, KeyError, ValueError, IOError, ClassError, IndexOutOfBoundsError, ResourceError, FormatError, BusyError,
    OutOfMemoryError, SegmentationError, ProgramAbortedError, DivisionByZeroError, IllegalInstructionError, ProgramInterruptedError,
    ProgramTerminationError, UK[0], UK[1], UK[2], UK[3] };
  enum { NALL = sizeof ALL / sizeof ALL[0] };
  for (int k = 0; k < NALL; k++) {
    for (int f = 0; f < NALL; f++) {
      volatile int inner = 0, outer = 0, after_inner = 0;
      volatile var bound_inner = NULL, bound_outer = NULL;
      size_t d0 = len(current(Exception));
      try {
        try { throw(ALL[k], "kind %i thrown under filter %i", $I(k), $I(f)); }
        catch (e in ALL[f]) { inner++; bound_inner = e; }
        after_inner++;
      } catch (e2) { outer++; bound_outer = e2; }
      vh_evals(3);
      if (k == f) {
        if (inner != 1 || outer != 0 || after_inner != 1) { vh_violation("C07:kinds:matching-filter-did-not-handle", "throw %s under filter %s: inner %d outer %d", c_str(ALL[k]), c_str(ALL[f]), inner, outer); }
        else if (bound_inner != ALL[k]) { vh_violation("C07:kinds:bound-object-is-not-the-thrown-one", "throw %s: the handler was given %s", c_str(ALL[k]), c_str(bound_inner)); }
      } else {
        if (inner != 0) { vh_violation("C07:kinds:handler-ran-for-a-kind-its-filter-does-not-name", "throw %s (kind %d) was handled by a handler filtered on %s (kind %d)", c_str(ALL[k]), k, c_str(ALL[f]), f); }
        else if (outer != 1 || bound_outer != ALL[k]) { vh_violation("C07:kinds:non-matching-exception-did-not-reach-the-enclosing-handler", "throw %s under filter %s: outer handler ran %d times", c_str(ALL[k]), c_str(ALL[f]), outer); }
      }
      if (len(current(Exception)) != d0) { vh_violation("C07:kinds:depth-not-restored", "depth %zu before, %zu after", d0, len(current(Exception))); }
      vh_count("kind_pairs");
    }
  }
}


/* the object bound in the handler IS the one that was thrown (same object, not an equal one): stack, heap and static
   objects, thrown from the body, from a callee, through a non-matching inner filter and from a handler */
static void __attribute__((noinline)) thrower(var x) { throw(x, "thrown by a callee"); }
static int queue_at, queue_reads;
static var next_pending(void) { queue_reads++; return KIND[queue_at++ % 4]; }
static void __attribute__((noinline)) throw_next_pending(void) { throw(next_pending(), "thrown by a callee"); }
static void thrown_object_identity(void) {
  var heap_i = new_root(Int, $I(77)), heap_s = new_root(String, $S("heap text"));
  for (int kind = 0; kind < 6; kind++) {
    var x = kind == 0 ? (var)$I(42) : kind == 1 ? (var)$S("stack text") : kind == 2 ? (var)$F(2.5) : kind == 3 ? heap_i : kind == 4 ? heap_s : (var)KeyError;
    /* a filter is compared with the thrown object by eq: it has to be an object of the same type */
    var other = (kind == 0 || kind == 3) ? (var)$I(-1) : (kind == 1 || kind == 4) ? (var)$S("another text") : kind == 2 ? (var)$F(-1.0) : (var)IOError;
    /* a filter entry that compares equal to the thrown object without being it (values; a type object is its own twin) */
    var twin = kind == 0 ? (var)$I(42) : kind == 1 ? (var)$S("stack text") : kind == 2 ? (var)$F(2.5) : kind == 3 ? (var)$I(77) : kind == 4 ? (var)$S("heap text") : (var)KeyError;
    for (int route = 0; route < 5; route++) {
      volatile var bound = NULL; volatile int handled = 0;
      size_t d0 = len(current(Exception));
      switch (route) {
        case 0: try { throw(x, "from the body"); } catch (e) { bound = e; handled++; } break;
        case 1: try { thrower(x); } catch (e in x) { bound = e; handled++; } break;
        case 2: try { try { thrower(x); } catch (e in other) { handled += 100; } } catch (e) { bound = e; handled++; } break;
        case 4: try { thrower(x); } catch (e in other, twin) { bound = e; handled++; } if (twin != x) { vh_count("handlers_chosen_by_an_equal_but_distinct_filter_entry"); } break;
        default: try { try { throw(IOError, "first"); } catch (e) { throw(x, "from a handler"); } } catch (e2) { bound = e2; handled++; } break;
      }
      vh_evals(3);
      if (handled != 1) { vh_violation("C07:identity:handler-count", "thrown object kind %d, route %d: handlers ran %d times", kind, route, handled); }
      else if (bound != x) { vh_violation("C07:identity:bound-object-is-not-the-thrown-one", "thrown object kind %d (%s), route %d: the handler was given another object (%s one that compares equal)", kind, c_str(type_of(x)), route, bound && eq(bound, x) ? "" : "not even"); }
      if (len(current(Exception)) != d0) { vh_violation("C07:kinds:depth-not-restored", "depth %zu before, %zu after", d0, len(current(Exception))); }
      vh_count("thrown_object_identity_checks");
    }
  }
  del_root(heap_i); del_root(heap_s);
  /* the thrown object is written as an expression with an effect (the next pending error of a queue): it is evaluated
     once, and the object that evaluation produced is the one the handlers see -- from a body, a callee and a handler */
  for (int route = 0; route < 3; route++) {
    for (int start = 0; start < 4; start++) {
      queue_at = start; queue_reads = 0;
      var first = KIND[start % 4];
      volatile var bound = NULL; volatile int matching = 0, enclosing = 0;
      size_t d0 = len(current(Exception));
      switch (route) {
        case 0: try { try { throw(next_pending(), "from the body"); } catch (e in first) { bound = e; matching++; } } catch (e2) { enclosing++; } break;
        case 1: try { try { throw_next_pending(); } catch (e in first) { bound = e; matching++; } } catch (e2) { enclosing++; } break;
        default: try { try { throw(ResourceError, "first"); } catch (e) { throw(next_pending(), "from a handler"); } } catch (e2 in first) { bound = e2; matching++; } break;
      }
      vh_evals(3);
      if (queue_reads != 1) { vh_violation("C07:identity:thrown-expression-evaluated-more-than-once", "route %d: the expression naming the thrown object was evaluated %d times", route, queue_reads); }
      if (matching != 1 || enclosing != 0 || bound != first) { vh_violation("C07:identity:bound-object-is-not-the-thrown-one", "route %d: thrown %s (first value of the expression): matching handler ran %d times bound to %s, enclosing handler %d times", route, c_str(first), matching, bound ? c_str(bound) : "nothing", enclosing); }
      if (len(current(Exception)) != d0) { vh_violation("C07:kinds:depth-not-restored", "depth %zu before, %zu after", d0, len(current(Exception))); }
      vh_count("throws_of_an_expression_with_an_effect");
    }
  }
}

static void fixed(void) {
  /* the canonical shape: inner handles, outer completes normally */
  nnodes = 0;
  int thr = new_node(N_THROW); nodes[thr].exc = 1;
  int ih = new_node(N_EMIT);
  int inner = mk_try(2, thr, ih);
  int oh = new_node(N_EMIT);
  int after = new_node(N_EMIT);
  int bc[2] = { inner, after };
  int outer = mk_try(0, mk_seq(2, bc), oh);
  prog_root = outer;
  vh_op("try{ try{ throw KeyError }catch[KeyError]{e} e }catch[all]{e}");
  run_program(run_tree, outer, "inner-handled");
  /* all lexical templates x single throw points x kinds */
  for (int d = 0; d < 5; d++) {
    for (int slot = 7; slot < 16; slot++) {
      for (int k = 1; k <= 4; k++) {
        int tp[16]; memset(tp, 0, sizeof tp);
        tp[slot] = k;
        nnodes = 0;
        int root = build_lex_tree(&LEX[d], tp);
        lex_tp = tp; prog_lex = &LEX[d];
        vh.oplen = 0; vh.oplog[0] = 0; vh.nops = 0;
        vh_op("lex%d single throw slot=%d kind=%s", d, slot, KNAME[k-1]);
        vh_count("lexical_programs");
        run_program(run_lex, root, "lexical-grid");
      }
    }
  }
  vh.oplen = 0; vh.oplog[0] = 0; vh.nops = 0;
  deep_nest(50, 0, 0);
  deep_nest(500, 250, 1);
  deep_nest(2000, 0, 2);
  deep_nest(2000, 1999, 3);
  deep_nest(1000, -1, 0);   /* nobody catches: escapes through 1000 levels */
  vh.oplen = 0; vh.oplog[0] = 0; vh.nops = 0;
  vh_op("kind matrix: every (thrown, filter) pair over 16 built-in and 4 user-defined kinds");
  kind_matrix();
  vh.oplen = 0; vh.oplog[0] = 0; vh.nops = 0;
  vh_op("identity of the bound object: 6 kinds of thrown object x 4 routes");
  thrown_object_identity();
}

int main(int argc, char** argv) {
  KIND[0] = TypeError; KIND[1] = KeyError; KIND[2] = ValueError; KIND[3] = IOError;
  got = mmap(NULL, sizeof(struct trace), PROT_READ | PROT_WRITE, MAP_SHARED | MAP_ANONYMOUS, -1, 0);
  if (got == MAP_FAILED) { perror("mmap"); return 2; }
  base_depth = (int)len(current(Exception));
  return vh_run(argc, argv, "prog", fixed, case_any);
}
