/*
** C05 -- containers own their elements: each is finalised exactly once.
**
** Element type PElem (own constructor, Assign, destructor, owns a malloc'd cell; token ledger).
** After EVERY operation on any of 8 containers:
**   live tokens == sum of lengths (x2 for Table/Tree: keys and values) + probes the harness holds;
**   walking every container yields pairwise distinct live tokens (no element shared or duplicated);
**   every container equals its own reference model (so mutating one side never changes another).
** Box containers: what a Box element owns is finalised when the element is removed, cleared away or
** its container deleted, never before, never twice (managed probe ledger).
*/
#include "probes.h"
#include "gcprobes.h"

enum { CK_ARRAY, CK_LIST, CK_TABLE, CK_TREE };
static const char* CKNAME[4] = { "Array", "List", "Table", "Tree" };
enum { NCONT = 10, MAXSEQ = 400, MAPU = 40 };

struct cont {
  int kind;
  var c;
  int n;                       /* sequences */
  int64_t m[MAXSEQ];
  int kint, vint;              /* maps: key / value is a plain Int (8 bytes) instead of the 32-byte probe: unequal sizes */
  int present[MAPU];           /* maps: key id -> bound? */
  int64_t val[MAPU];
  int nmap;
};

static int is_map(int k) { return k >= CK_TABLE; }
static uint64_t key_hash(int k) { return (uint64_t)(k % 3) * 7; }     /* three colliding clusters */
#define KEYOBJ(k) PE_KEY((k), key_hash(k))
#define VALOBJ(v) PE_KEY((v), (uint64_t)(v))
#define MKEY(C, k) ((C)->kint ? (var)$I(k) : (var)KEYOBJ(k))
#define MVAL(C, v) ((C)->vint ? (var)$I(v) : (var)VALOBJ(v))
static int64_t obj_id(var x) { return type_of(x) == Int ? ((struct Int*)x)->val : ((struct PElem*)x)->id; }

static int64_t harness_probes;     /* standalone PElem objects the harness itself holds */
static int64_t* stamp; static int64_t stamp_cap; static int64_t epoch;

static void stamp_token(int64_t tok, const char* where, const char* after) {
  vh_eval();
  if (tok <= 0 || tok >= pe.next || pe.state[tok] != PE_LIVE) {
    vh_violation("C05:ledger:contained-element-not-live", "%s holds an element whose token %" PRId64 " is not live after %s", where, tok, after);
    return;
  }
  if (tok >= stamp_cap) {
    int64_t nc = stamp_cap ? stamp_cap : 4096; while (nc <= tok) { nc *= 2; }
    stamp = realloc(stamp, sizeof(int64_t) * (size_t)nc);
    memset(stamp + stamp_cap, 0, sizeof(int64_t) * (size_t)(nc - stamp_cap));
    stamp_cap = nc;
  }
  if (stamp[tok] == epoch) { vh_violation("C05:ledger:element-shared-or-duplicated", "token %" PRId64 " appears twice among the live containers (%s) after %s", tok, where, after); }
  stamp[tok] = epoch;
}

static void check_world(struct cont* W, int64_t live0, const char* after) {
  int64_t expect_live = harness_probes;
  epoch++;
  for (int i = 0; i < NCONT; i++) {
    struct cont* k = &W[i];
    if (k->c == NULL) { continue; }
    char where[32]; snprintf(where, sizeof where, "%s#%d", CKNAME[k->kind], i);
    if (!is_map(k->kind)) {
      expect_live += k->n;
      vh_eval();
      if (len(k->c) != (size_t)k->n) { vh_violation("C05:model:len-mismatch", "%s len=%zu reference=%d after %s", where, len(k->c), k->n, after); continue; }
      int idx = 0;
      foreach (e in k->c) {
        if (idx >= k->n) { break; }
        struct PElem* p = e;
        vh_eval();
        if (p->id != k->m[idx]) { vh_violation("C05:model:contents-differ", "%s element %d is %" PRId64 ", reference %" PRId64 " after %s", where, idx, p->id, k->m[idx], after); break; }
        stamp_token(p->token, where, after);
        idx++;
      }
    } else {
      expect_live += (2 - k->kint - k->vint) * k->nmap;
      vh_eval();
      if (len(k->c) != (size_t)k->nmap) { vh_violation("C05:model:len-mismatch", "%s len=%zu reference=%d after %s", where, len(k->c), k->nmap, after); continue; }
      int seen = 0;
      foreach (key in k->c) {
        if (seen++ > k->nmap + 1) { break; }
        var val = get(k->c, key);
        int64_t kid = obj_id(key), vid = obj_id(val);
        vh_eval();
        if (kid < 0 || kid >= MAPU || !k->present[kid] || vid != k->val[kid]) {
          vh_violation("C05:model:contents-differ", "%s binding %" PRId64 " -> %" PRId64 " disagrees with the reference after %s", where, kid, vid, after); break;
        }
        if (!k->kint) { stamp_token(((struct PElem*)key)->token, where, after); }
        if (!k->vint) { stamp_token(((struct PElem*)val)->token, where, after); }
      }
    }
  }
  vh_eval();
  if (pe.live - live0 != expect_live) {
    vh_violation(pe.live - live0 > expect_live ? "C05:ledger:more-live-elements-than-contained" : "C05:ledger:fewer-live-elements-than-contained",
      "%" PRId64 " live elements, containers hold %" PRId64 " after %s", pe.live - live0, expect_live, after);
  }
}

static void cont_new(struct cont* k, int kind, int kint, int vint) {
  memset(k, 0, sizeof *k);
  k->kind = kind; k->kint = kint; k->vint = vint;
  switch (kind) {
    case CK_ARRAY: k->c = new(Array, PElem); break;
    case CK_LIST: k->c = new(List, PElem); break;
    case CK_TABLE: k->c = new_with(Table, tuple(kint ? Int : PElem, vint ? Int : PElem)); break;
    default: k->c = new_with(Tree, tuple(kint ? Int : PElem, vint ? Int : PElem)); break;
  }
}

static bool by_gt(var a, var b) { return gt(a, b); }

#if defined(__has_feature)
#  if __has_feature(address_sanitizer)
void __lsan_disable(void); void __lsan_enable(void);
#    define LSAN_OFF() __lsan_disable()
#    define LSAN_ON() __lsan_enable()
#  endif
#endif
#ifndef LSAN_OFF
#  define LSAN_OFF() ((void)0)
#  define LSAN_ON() ((void)0)
#endif

static void seq_op(vh_rng* r, struct cont* W, int i, char* opd, size_t cap) {
  struct cont* k = &W[i];
  int roll = (int)vh_below(r, 100);
  int64_t v = vh_range(r, 0, 30);
  if (k->n >= MAXSEQ - 20 && roll < 40) { roll = 40 + roll % 30; }
  if (roll < 3) {
    /* an element the container's element type refuses (its assignment raises): the operation fails, and the sequence
       holds exactly the elements it held -- no half-made member is left to be counted, found or finalised later */
    int how = (int)vh_below(r, 4);
    if (how == 3) {
      /* a perfectly good element offered one position past the end: refused, no element comes to life */
      snprintf(opd, cap, "%s#%d.set(len, element) refused", CKNAME[k->kind], i);
      var exc3 = NULL;
      VH_CATCH(set(k->c, $I(k->n), VALOBJ(v)), exc3);
      if (exc3 == NULL) { vh_violation("C05:refused:set-one-past-the-end-accepted", "%s of %d elements accepted set at index %d", CKNAME[k->kind], k->n, k->n); }
      vh_count("refused_element_operations");
      return;
    }
    /* (a List's push allocates a node before the assignment and does not give it back when the assignment raises:
       raw memory that is no element's, lost on the tree as given -- not what C05 is about, so LeakSanitizer is told
       to disregard what is allocated inside the refused push) */
    LSAN_OFF();
    snprintf(opd, cap, "%s#%d.%s(an Int, refused)", CKNAME[k->kind], i, how == 0 ? "push" : how == 1 ? "push_at" : "set");
    var exc2 = NULL;
    if (how == 0) { VH_CATCH(push(k->c, $I(v)), exc2); }
    else if (how == 1) { VH_CATCH(push_at(k->c, $I(v), $I(0)), exc2); }
    else if (k->n > 0) { VH_CATCH(set(k->c, $I(0), $I(v)), exc2); }
    else { exc2 = ValueError; }
    LSAN_ON();
    if (exc2 == NULL) { vh_violation("C05:refused:wrong-typed-element-accepted", "%s was accepted", opd); }
    vh_count("refused_element_operations");
  }
  else if (roll < 20) { snprintf(opd, cap, "%s#%d.push(%" PRId64 ")", CKNAME[k->kind], i, v); push(k->c, VALOBJ(v)); k->m[k->n++] = v; }
  else if (roll < 32 && k->n > 0) {
    int at = (int)vh_below(r, (uint64_t)k->n);
    /* a third of the time through the equivalent negative index (an Array resolves it against the new length, a
       List against the old one; both are established by C04) */
    int idx = at;
    if (vh_chance(r, 33)) { idx = k->kind == CK_ARRAY ? at - k->n - 1 : at - k->n; vh_count("negative_index_operations"); }
    snprintf(opd, cap, "%s#%d.push_at(%" PRId64 ",%d)", CKNAME[k->kind], i, v, idx);
    push_at(k->c, VALOBJ(v), $I(idx));
    memmove(&k->m[at + 1], &k->m[at], sizeof(int64_t) * (size_t)(k->n - at)); k->m[at] = v; k->n++;
  }
  else if (roll < 42 && k->n > 0) { snprintf(opd, cap, "%s#%d.pop()", CKNAME[k->kind], i); pop(k->c); k->n--; }
  else if (roll < 52 && k->n > 0) {
    int at = (int)vh_below(r, (uint64_t)k->n);
    int idx = at;
    if (vh_chance(r, 33)) { idx = at - k->n; vh_count("negative_index_operations"); }
    snprintf(opd, cap, "%s#%d.pop_at(%d)", CKNAME[k->kind], i, idx);
    pop_at(k->c, $I(idx));
    memmove(&k->m[at], &k->m[at + 1], sizeof(int64_t) * (size_t)(k->n - at - 1)); k->n--;
  }
  else if (roll < 62 && k->n > 0) {
    int at = (int)vh_below(r, (uint64_t)k->n);
    snprintf(opd, cap, "%s#%d.set(%d,%" PRId64 ")", CKNAME[k->kind], i, at, v);
    set(k->c, $I(at), VALOBJ(v)); k->m[at] = v;
  }
  else if (roll < 70 && k->n > 0) {
    int64_t x = k->m[vh_below(r, (uint64_t)k->n)];
    int first = 0; while (k->m[first] != x) { first++; }
    snprintf(opd, cap, "%s#%d.rem(%" PRId64 ")", CKNAME[k->kind], i, x);
    rem(k->c, VALOBJ(x));
    memmove(&k->m[first], &k->m[first + 1], sizeof(int64_t) * (size_t)(k->n - first - 1)); k->n--;
  }
  else if (roll < 76 && k->kind == CK_ARRAY) {
    int desc = vh_chance(r, 50);
    snprintf(opd, cap, "Array#%d.%s", i, desc ? "sort_by(gt)" : "sort()");
    if (desc) { sort_by(k->c, by_gt); } else { sort(k->c); }
    for (int a = 1; a < k->n; a++) { int64_t x = k->m[a]; int b = a - 1; while (b >= 0 && (desc ? k->m[b] < x : k->m[b] > x)) { k->m[b + 1] = k->m[b]; b--; } k->m[b + 1] = x; }
    vh_count("sort_swap_moves");
  }
  else if (roll < 84) {
    int n = vh_chance(r, 30) ? 0 : (int)vh_below(r, (uint64_t)k->n + (k->kind == CK_ARRAY ? 10 : 1));
    snprintf(opd, cap, "%s#%d.resize(%d)", CKNAME[k->kind], i, n);
    resize(k->c, (size_t)n);
    if (n < k->n) { k->n = n; }
    if (n == 0) { vh_count("clears"); }
  }
  else if (roll < 92) {
    /* concat another sequence */
    int j = -1, start = (int)vh_below(r, NCONT);
    for (int d = 0; d < NCONT; d++) { int c = (start + d) % NCONT; if (c != i && W[c].c != NULL && !is_map(W[c].kind)) { j = c; break; } }
    if (j < 0 || k->n + W[j].n >= MAXSEQ) { snprintf(opd, cap, "skip"); return; }
    snprintf(opd, cap, "%s#%d.concat(%s#%d of %d)", CKNAME[k->kind], i, CKNAME[W[j].kind], j, W[j].n);
    concat(k->c, W[j].c);
    memcpy(&k->m[k->n], W[j].m, sizeof(int64_t) * (size_t)W[j].n); k->n += W[j].n;
    vh_count("concats");
  }
  else { snprintf(opd, cap, "%s#%d.push(%" PRId64 ")", CKNAME[k->kind], i, v); push(k->c, VALOBJ(v)); k->m[k->n++] = v; }
}

static void map_op(vh_rng* r, struct cont* W, int i, char* opd, size_t cap) {
  struct cont* k = &W[i];
  int roll = (int)vh_below(r, 100);
  int key = (int)vh_below(r, MAPU);
  int64_t v = vh_range(r, 100, 999);
  if (roll < 3) {
    /* a key or a value the map's types refuse, for a key that is new or one that is present: the operation fails and
       the map owns exactly what it owned -- no key or value comes to life in an entry that never enters the map */
    int which = (int)vh_below(r, 2);     /* 0: the value is refused, 1: the key is refused */
    var bk = which == 1 ? (var)$S("not a key") : MKEY(k, key);
    var bv = which == 0 ? (var)$S("not a value") : MVAL(k, v);
    snprintf(opd, cap, "%s#%d.set(%s, %s) refused%s", CKNAME[k->kind], i, which ? "a String" : "k", which ? "v" : "a String", which == 0 && k->present[key] ? " [key present]" : " [key new]");
    var exc4 = NULL;
    VH_CATCH(set(k->c, bk, bv), exc4);
    if (exc4 == NULL) { vh_violation("C05:refused:wrong-typed-entry-accepted", "%s was accepted", opd); }
    vh_count("refused_map_sets");
    if (which == 0 && !k->present[key]) { vh_count("refused_map_sets_of_a_new_key_with_a_refused_value"); }
    return;
  }
  if (roll < 6) {
    /* fill phase: grow through several rehashes with many live elements */
    snprintf(opd, cap, "%s#%d.set x30", CKNAME[k->kind], i);
    for (int q = 0; q < 30; q++) {
      key = (int)vh_below(r, MAPU); v = vh_range(r, 100, 999);
      set(k->c, MKEY(k, key), MVAL(k, v));
      if (!k->present[key]) { k->present[key] = 1; k->nmap++; }
      k->val[key] = v;
    }
    vh_count("map_fill_phases");
  } else if (roll < 50) {
    snprintf(opd, cap, "%s#%d.set(k%d,%" PRId64 ")%s", CKNAME[k->kind], i, key, v, k->present[key] ? " [update]" : "");
    if (k->present[key]) { vh_count(k->kind == CK_TABLE ? "table_replace_under_collision" : "tree_updates"); }
    set(k->c, MKEY(k, key), MVAL(k, v));
    if (!k->present[key]) { k->present[key] = 1; k->nmap++; }
    k->val[key] = v;
  } else if (roll < 85) {
    int start = key;
    for (int d = 0; d < MAPU; d++) { key = (start + d) % MAPU; if (k->present[key]) { break; } }
    if (!k->present[key]) { snprintf(opd, cap, "skip"); return; }
    snprintf(opd, cap, "%s#%d.rem(k%d)", CKNAME[k->kind], i, key);
    rem(k->c, MKEY(k, key));
    k->present[key] = 0; k->nmap--;
  } else if (roll < 92) {
    snprintf(opd, cap, "%s#%d.resize(0)", CKNAME[k->kind], i);
    resize(k->c, 0);
    memset(k->present, 0, sizeof k->present); k->nmap = 0;
    vh_count("clears");
  } else if (k->kind == CK_TABLE) {
    int n = k->nmap + (int)vh_below(r, 60);
    if (n == 0) { n = 3; }
    snprintf(opd, cap, "Table#%d.resize(%d)", i, n);
    resize(k->c, (size_t)n);
    vh_count("table_rehash_by_resize");
  } else { snprintf(opd, cap, "skip"); }
}

/* assign W[i] <- W[j] (same family), or replace W[i] by a copy of W[j] */
static void transfer_op(vh_rng* r, struct cont* W, char* opd, size_t cap) {
  int i = (int)vh_below(r, NCONT), j;
  do { j = (int)vh_below(r, NCONT); } while (j == i);
  if (W[i].c == NULL || W[j].c == NULL) { snprintf(opd, cap, "skip"); return; }
  if (vh_chance(r, 50)) {
    if (is_map(W[i].kind) != is_map(W[j].kind)) { snprintf(opd, cap, "skip"); return; }
    snprintf(opd, cap, "assign(%s#%d <- %s#%d)", CKNAME[W[i].kind], i, CKNAME[W[j].kind], j);
    assign(W[i].c, W[j].c);
    int kind = W[i].kind; var c = W[i].c;
    W[i] = W[j]; W[i].kind = kind; W[i].c = c;          /* the target adopts the source's key / value types */
    if (W[i].kind != W[j].kind) { vh_count("cross_kind_assigns"); } else { vh_count("same_kind_assigns"); }
  } else {
    if (is_map(W[i].kind) != is_map(W[j].kind)) { snprintf(opd, cap, "skip"); return; }
    snprintf(opd, cap, "del(%s#%d); #%d = copy(%s#%d)", CKNAME[W[i].kind], i, i, CKNAME[W[j].kind], j);
    del(W[i].c);
    W[i].c = NULL;
    var c = copy(W[j].c);
    W[i] = W[j]; W[i].c = c;
    vh_count("copies");
  }
}

static void __attribute__((noinline)) run_world(vh_rng* r, int nops, int stopped) {
  struct cont W[NCONT];
  int64_t live0 = pe.live;
  var gcobj = current(GC);
  if (stopped) { stop(gcobj); vh_count("cases_with_collector_stopped"); }
  /* 0-3: Array, List, Table<P,P>, Tree<P,P>; 4-5: Array, List; 6-7: Table<Int,P>, Tree<Int,P>; 8-9: Table<P,Int>, Tree<P,Int> */
  for (int i = 0; i < NCONT; i++) {
    int kind = i < 4 ? i : i < 6 ? i - 4 : (i % 2 == 0 ? CK_TABLE : CK_TREE);
    cont_new(&W[i], kind, i == 6 || i == 7, i == 8 || i == 9);
  }
  harness_probes = 0;
  vh_op("8 containers ops=%d collector=%s", nops, stopped ? "stopped" : "running");
  char opd[128];
  for (int op = 0; op < nops; op++) {
    int roll = (int)vh_below(r, 100);
    var exc = NULL;
    opd[0] = 0;
    if (roll < 80) {
      int i = (int)vh_below(r, NCONT);
      if (is_map(W[i].kind)) { VH_CATCH(map_op(r, W, i, opd, sizeof opd), exc); }
      else { VH_CATCH(seq_op(r, W, i, opd, sizeof opd), exc); }
    } else { VH_CATCH(transfer_op(r, W, opd, sizeof opd), exc); }
    if (strcmp(opd, "skip") == 0) { continue; }
    vh_op("%s", opd);
    if (exc) { vh_violation("C05:op:raised", "%s raised %s", opd, vh_exc_name(exc)); }
    check_world(W, live0, opd);
    /* Table growth with many live elements */
    for (int i = 0; i < NCONT; i++) { if (W[i].c && W[i].kind == CK_TABLE && W[i].nmap >= 25) { vh_count("table_states_with_25_or_more_bindings"); } }
  }
  for (int i = 0; i < NCONT; i++) { if (W[i].c) { del(W[i].c); W[i].c = NULL; W[i].n = 0; W[i].nmap = 0; } }
  vh_eval();
  if (pe.live != live0) {
    vh_violation(pe.live > live0 ? "C05:ledger:elements-left-after-deleting-every-container" : "C05:ledger:more-deaths-than-births",
      "%" PRId64 " live elements remain after every container was deleted", pe.live - live0);
  }
  if (stopped) { start(gcobj); }
  if (nops >= 20) { vh_nontrivial(); }
}

/* ---------- Box containers ---------- */

static void box_expect(int64_t id, int want_state, const char* what, const char* after) {
  vh_eval();
  if (mo_state[id] != want_state) {
    char key[96];
    snprintf(key, sizeof key, "C05:box:%s", what);
    vh_violation(key, "owned object id %" PRId64 " is in state %d after %s", id, mo_state[id], after);
  }
}

static int64_t box_next_id = 1;

static void __attribute__((noinline)) run_boxes(vh_rng* r, int nops) {
  int kind = (int)vh_below(r, 3);          /* Array<Box>, List<Box>, Table<Int,Box> */
  var c = kind == 0 ? (var)new(Array, Box) : kind == 1 ? (var)new(List, Box) : (var)new(Table, Int, Box);
  int64_t ids[64]; int n = 0;              /* sequences: owned ids in order; table: ids[key] or 0 */
  memset(ids, 0, sizeof ids);
  vh_op("%s ops=%d", kind == 0 ? "Array<Box>" : kind == 1 ? "List<Box>" : "Table<Int,Box>", nops);
  char opd[96];
  for (int op = 0; op < nops; op++) {
    int roll = (int)vh_below(r, 100);
    if (kind < 2) {
      if (roll < 45 && n < 60) {
        int64_t id = box_next_id++;
        var t = vh_chance(r, 50) ? (var)new(PNode, $I(id)) : (var)new(PMark, $I(id));
        push(c, $B(t)); ids[n++] = id;
        snprintf(opd, sizeof opd, "push(Box(id %" PRId64 "))", id);
      } else if (roll < 60 && n > 0) {
        pop(c); n--;
        snprintf(opd, sizeof opd, "pop()");
        box_expect(ids[n], MO_DESTRUCTED, "owned-object-not-finalised-when-element-removed", opd);
      } else if (roll < 75 && n > 0) {
        int at = (int)vh_below(r, (uint64_t)n);
        int64_t gone = ids[at];
        pop_at(c, $I(at));
        memmove(&ids[at], &ids[at + 1], sizeof(int64_t) * (size_t)(n - at - 1)); n--;
        snprintf(opd, sizeof opd, "pop_at(%d)", at);
        box_expect(gone, MO_DESTRUCTED, "owned-object-not-finalised-when-element-removed", opd);
      } else if (roll < 85 && n > 0) {
        int keep = (int)vh_below(r, (uint64_t)n);
        resize(c, (size_t)keep);
        snprintf(opd, sizeof opd, "resize(%d)", keep);
        for (int i = keep; i < n; i++) { box_expect(ids[i], MO_DESTRUCTED, "owned-object-not-finalised-when-cleared-away", opd); }
        n = keep;
      } else if (roll < 92) {
        /* a collection must not touch what live boxes own */
        for (int g = 0; g < 40; g++) { var junk = new(PNode, $I(box_next_id++)); junk = NULL; }
        snprintf(opd, sizeof opd, "garbage+collections");
      } else if (n > 0) {
        /* a slot is given what it already holds (the element read back and stored again, or a Box around the same
           object): nothing is finalised, the slot still owns its object */
        int at = (int)vh_below(r, (uint64_t)n);
        if (vh_chance(r, 50)) { set(c, $I(at), get(c, $I(at))); snprintf(opd, sizeof opd, "set(%d, get(%d))", at, at); }
        else { var held = deref(get(c, $I(at))); set(c, $I(at), $B(held)); snprintf(opd, sizeof opd, "set(%d, Box(the object slot %d holds))", at, at); }
        vh_eval();
        if (deref(get(c, $I(at))) == NULL) { vh_violation("C05:box:slot-emptied-by-storing-what-it-already-held", "%s left the slot without an object", opd); }
        vh_count("box_slots_given_what_they_hold");
      } else { continue; }
      vh_op("%s", opd);
      for (int i = 0; i < n; i++) { box_expect(ids[i], MO_CONSTRUCTED, "owned-object-finalised-while-still-contained", opd); }
    } else {
      int key = (int)vh_below(r, 40);
      if (roll < 55 && !ids[key]) {
        int64_t id = box_next_id++;
        var t = new(PNode, $I(id));
        set(c, $I((int64_t)key * 5 * 11 * 23), $B(t)); ids[key] = id;
        snprintf(opd, sizeof opd, "set(k%d, Box(id %" PRId64 "))", key, id);
      } else if (roll < 90 && ids[key]) {
        int64_t gone = ids[key];
        rem(c, $I((int64_t)key * 5 * 11 * 23)); ids[key] = 0;
        snprintf(opd, sizeof opd, "rem(k%d)", key);
        box_expect(gone, MO_DESTRUCTED, "owned-object-not-finalised-when-element-removed", opd);
      } else if (roll < 95) {
        for (int g = 0; g < 40; g++) { var junk = new(PNode, $I(box_next_id++)); junk = NULL; }
        snprintf(opd, sizeof opd, "garbage+collections");
      } else { continue; }
      vh_op("%s", opd);
      for (int i = 0; i < 40; i++) { if (ids[i]) { box_expect(ids[i], MO_CONSTRUCTED, "owned-object-finalised-while-still-contained", opd); } }
    }
    vh_count("box_container_operations");
  }
  if (vh_chance(r, 33)) {
    /* not deleted by hand: dropped, and reclaimed by the collector together with the boxes' objects (whichever the
       sweep takes first).  Nothing may be finalised twice -- the ledger of the owned objects reports that -- and
       whatever has been finalised by the end of the pressure phase has been finalised once. */
    c = NULL;
    int64_t junk0 = box_next_id;
    for (int g = 0; g < 3000; g++) { var junk = new(PNode, $I(box_next_id++)); junk = NULL; }
    (void)junk0;
    vh_evals(n);
    for (int i = 0; i < (kind < 2 ? n : 40); i++) {
      if (ids[i] && mo_state[ids[i]] != MO_CONSTRUCTED && mo_state[ids[i]] != MO_DESTRUCTED && mo_state[ids[i]] != MO_RELEASED) {
        vh_violation("C05:box:owned-object-in-an-impossible-state-after-collection", "owned object id %" PRId64 " is in state %d", ids[i], mo_state[ids[i]]);
      }
    }
    vh_count("box_containers_left_to_the_collector");
    vh_nontrivial();
    return;
  }
  del(c);
  if (kind < 2) { for (int i = 0; i < n; i++) { box_expect(ids[i], MO_DESTRUCTED, "owned-object-not-finalised-when-container-deleted", "del(container)"); } }
  else { for (int i = 0; i < 40; i++) { if (ids[i]) { box_expect(ids[i], MO_DESTRUCTED, "owned-object-not-finalised-when-container-deleted", "del(container)"); } } }
  vh_count("box_containers_deleted");
  vh_nontrivial();
}

/* ---------- assignment that re-types a sequence: the old elements are found with the OLD element size ----------
** A sequence of 88-byte probe elements assigned from a sequence of 8-byte Ints (and back) changes its element type and
** size.  Every old element is finalised exactly once on the way, the new ones are the target's own (deep). */
static void retyping_assigns(vh_rng* r) {
  for (int round = 0; round < 4; round++) {
    int tk = (int)vh_below(r, 2), sk = (int)vh_below(r, 2), pk = (int)vh_below(r, 2);
    int n1 = (int)vh_below(r, 7), n2 = (int)vh_below(r, 7), n3 = (int)vh_below(r, 7);
    if (round == 0 && n1 < 2) { n1 = 2 + (int)vh_below(r, 5); }
    var a = tk ? (var)new(List, PElem) : (var)new(Array, PElem);
    var b = sk ? (var)new(List, Int) : (var)new(Array, Int);
    var c = pk ? (var)new(List, PElem) : (var)new(Array, PElem);
    int64_t live0 = pe.live;
    for (int i = 0; i < n1; i++) { push(a, PE_KEY(100 + i, 0)); }
    for (int i = 0; i < n2; i++) { push(b, $I(200 + i)); }
    for (int i = 0; i < n3; i++) { push(c, PE_KEY(300 + i, 0)); }
    vh_op("%s<PElem>[%d] <- %s<Int>[%d] <- %s<PElem>[%d]", tk ? "List" : "Array", n1, sk ? "List" : "Array", n2, pk ? "List" : "Array", n3);
    vh_evals(6);
    if (pe.live != live0 + n1 + n3) { vh_violation("C05:retyping-assign:live-count", "after filling: %" PRId64 " live elements, expected %" PRId64, pe.live, live0 + n1 + n3); }
    var exc = NULL;
    VH_CATCH(assign(a, b), exc);
    if (exc) { vh_violation("C05:retyping-assign:raised", "assign(%s of %d probe elements, %s of %d Ints) raised %s", tk ? "List" : "Array", n1, sk ? "List" : "Array", n2, vh_exc_name(exc)); return; }
    if (pe.live != live0 + n3) {
      vh_violation("C05:retyping-assign:old-elements-not-finalised-exactly-once", "assign over %d probe elements from %d Ints: %" PRId64 " live elements, expected %" PRId64 " (the %d old ones finalised once each)", n1, n2, pe.live, live0 + n3, n1);
    }
    int ok = len(a) == (size_t)n2;
    for (int i = 0; ok && i < n2; i++) { var x = get(a, $I(i)); if (type_of(x) != Int || c_int(x) != 200 + i) { ok = 0; } }
    if (!ok) { vh_violation("C05:retyping-assign:wrong-contents", "the target does not hold the %d Ints of the source", n2); }
    /* and back: Ints replaced by probe elements, which are the target's own copies */
    VH_CATCH(assign(a, c), exc);
    if (exc) { vh_violation("C05:retyping-assign:raised", "assign(sequence of %d Ints, sequence of %d probe elements) raised %s", n2, n3, vh_exc_name(exc)); return; }
    if (pe.live != live0 + 2 * n3) { vh_violation("C05:retyping-assign:copies-not-deep", "assign of %d probe elements over %d Ints: %" PRId64 " live elements, expected %" PRId64, n3, n2, pe.live, live0 + 2 * n3); }
    ok = len(a) == (size_t)n3;
    for (int i = 0; ok && i < n3; i++) { struct PElem* x = get(a, $I(i)); struct PElem* y = get(c, $I(i)); if (type_of(x) != PElem || x->id != 300 + i || !pe_is_live(x) || x->token == y->token) { ok = 0; } }
    if (!ok) { vh_violation("C05:retyping-assign:wrong-contents", "the target does not hold its own live copies of the %d probe elements", n3); }
    del(c);
    if (pe.live != live0 + n3) { vh_violation("C05:retyping-assign:copies-not-deep", "deleting the source changed the live count to %" PRId64 ", expected %" PRId64, pe.live, live0 + n3); }
    ok = len(a) == (size_t)n3;
    for (int i = 0; ok && i < n3; i++) { struct PElem* x = get(a, $I(i)); if (x->id != 300 + i || !pe_is_live(x)) { ok = 0; } }
    if (!ok) { vh_violation("C05:retyping-assign:copies-not-deep", "deleting the source damaged the target's elements"); }
    del(a); del(b);
    if (pe.live != live0) { vh_violation("C05:retyping-assign:live-count", "after deleting everything: %" PRId64 " live elements, expected %" PRId64, pe.live, live0); }
    vh_count("retyping_assigns");
    if (n1 >= 2) { vh_count("retyping_assigns_over_two_or_more_elements"); }
  }
}

static void case_random(vh_rng* r, long index) {
  retyping_assigns(r);
  if (index % 4 == 3) { run_boxes(r, 40 + (int)vh_below(r, 120)); return; }
  int nops = 40 + (int)vh_below(r, vh.thorough ? 500 : 160);
  run_world(r, nops, index % 4 == 1);
}

static void fixed(void) {
  vh_rng r; vh_rng_seed(&r, 31337);
  run_world(&r, 400, 0);
  vh.oplen = 0; vh.oplog[0] = 0; vh.nops = 0;
  run_world(&r, 400, 1);
  vh.oplen = 0; vh.oplog[0] = 0; vh.nops = 0;
  run_boxes(&r, 200);
  vh.oplen = 0; vh.oplog[0] = 0; vh.nops = 0;
  for (int i = 0; i < 20; i++) { retyping_assigns(&r); }
}

int main(int argc, char** argv) {
  probes_init();
  pe_prop = "C05";
  mo_prop = "C05";
  return vh_run(argc, argv, "world", fixed, case_random);
}
