/*
** C20 -- File streams round-trip data and refuse use when closed.
** Reference: byte array (the file's contents) + position + open flag + mode.  fopen / fclose are
** interposed at link time: every successful open must be closed exactly once, never NULL, never stale.
** stell / seof are also compared with ftell / feof on the very same FILE*.
*/
#include "vh.h"

enum { MAXDATA = 1 << 18, MAXOPEN = 64 };

/* ---------- interposed fopen / fclose ---------- */

FILE* __real_fopen(const char* path, const char* mode);
int __real_fclose(FILE* f);

static FILE* open_handles[MAXOPEN];
static long opens, closes, bad_closes;
static int track = 0;

FILE* __wrap_fopen(const char* path, const char* mode) {
  FILE* f = __real_fopen(path, mode);
  if (track && f) {
    opens++;
    for (int i = 0; i < MAXOPEN; i++) { if (!open_handles[i]) { open_handles[i] = f; break; } }
  }
  return f;
}

int __wrap_fclose(FILE* f) {
  if (track) {
    if (f == NULL) { bad_closes++; vh_violation("C20:handle:fclose-of-NULL", "the library called fclose(NULL)"); return EOF; }
    int found = 0;
    for (int i = 0; i < MAXOPEN; i++) { if (open_handles[i] == f) { open_handles[i] = NULL; found = 1; break; } }
    if (!found) { bad_closes++; vh_violation("C20:handle:fclose-of-stale-or-foreign-handle", "the library closed a handle that is not open (closed twice?)"); return EOF; }
    closes++;
  }
  return __real_fclose(f);
}

static int handles_open(void) { int n = 0; for (int i = 0; i < MAXOPEN; i++) { n += open_handles[i] != NULL; } return n; }

/* ---------- reference ---------- */

static unsigned char data[MAXDATA];    /* contents of the file on disk */
static size_t dlen;
static int exists;
static struct { int open; int readable, writable, append; size_t pos; int pos_known; int eof; int last_was_read, last_was_write; } R;
static char path[64];

static void ref_open(const char* mode) {
  R.open = 1; R.eof = 0; R.last_was_read = R.last_was_write = 0;
  R.readable = mode[0] == 'r' || strchr(mode, '+') != NULL;
  R.writable = mode[0] != 'r' || strchr(mode, '+') != NULL;
  R.append = mode[0] == 'a';
  if (mode[0] == 'w') { dlen = 0; exists = 1; }
  if (mode[0] == 'a') { exists = 1; }
  R.pos = 0;
  R.pos_known = !R.append;     /* where an append stream stands before the first seek is the C library's business */
}

static void ref_write(const unsigned char* b, size_t n) {
  if (n == 0) { return; }
  if (R.append) { R.pos = dlen; R.pos_known = 1; }
  if (R.pos + n > MAXDATA) { return; }
  if (R.pos > dlen) { memset(data + dlen, 0, R.pos - dlen); }
  memcpy(data + R.pos, b, n);
  R.pos += n;
  if (R.pos > dlen) { dlen = R.pos; }
}

static void check_disk(const char* after) {
  /* independent read of the file with plain C */
  static unsigned char back[MAXDATA];
  track = 0;
  FILE* fp = fopen(path, "rb");
  size_t n = fp ? fread(back, 1, MAXDATA, fp) : 0;
  if (fp) { fclose(fp); }
  track = 1;
  vh_evals(2);
  if (n != dlen) { vh_violation("C20:roundtrip:file-length-differs", "file has %zu bytes, reference %zu after %s", n, dlen, after); return; }
  if (memcmp(back, data, dlen) != 0) {
    size_t d = 0; while (d < dlen && back[d] == data[d]) { d++; }
    vh_violation("C20:roundtrip:file-contents-differ", "byte %zu is 0x%02x, reference 0x%02x after %s", d, back[d], data[d], after);
  }
}

static void check_position(var f, const char* after) {
  struct File* fo = f;
  if (!R.open) { return; }
  var exc = NULL; int64_t t = -1;
  VH_CATCH(t = stell(f), exc);
  vh_evals(3);
  if (exc) { vh_violation("C20:position:stell-raised-on-open-file", "stell raised %s after %s", vh_exc_name(exc), after); return; }
  if (t != (int64_t)ftell(fo->file)) { vh_violation("C20:position:stell-differs-from-ftell", "stell=%" PRId64 " ftell=%ld after %s", t, ftell(fo->file), after); }
  if (R.pos_known && (!R.append || !R.last_was_write)) {
    if (t != (int64_t)R.pos) { vh_violation("C20:position:stell-differs-from-reference", "stell=%" PRId64 " reference=%zu after %s", t, R.pos, after); }
  }
  bool e = false;
  VH_CATCH(e = seof(f), exc);
  if (exc) { vh_violation("C20:position:seof-raised-on-open-file", "seof raised %s after %s", vh_exc_name(exc), after); return; }
  if ((e != 0) != (feof(fo->file) != 0)) { vh_violation("C20:position:seof-differs-from-feof", "seof=%d feof=%d after %s", (int)e, feof(fo->file), after); }
  if ((e != 0) != (R.eof != 0)) { vh_violation("C20:position:seof-differs-from-reference", "seof=%d reference=%d after %s", (int)e, R.eof, after); }
}

/* every operation on a closed File must raise IOError */
static void closed_file_ops(var f, const char* after) {
  var exc; char b[8];
  char key[96];
  #define CLOSED(NAME, STMT) do { VH_CATCH(STMT, exc); vh_eval(); \
    if (exc != IOError) { snprintf(key, sizeof key, "C20:closed:%s-did-not-raise-ioerror", NAME); \
      vh_violation(key, "%s on a File that is not open gave %s (%s)", NAME, vh_exc_name(exc), after); } } while (0)
  CLOSED("swrite", swrite(f, "x", 1));
  CLOSED("sread", sread(f, b, 1));
  /* ... whatever the length: nothing to write or read is still an operation on a File that is not open */
  CLOSED("swrite-of-no-bytes", swrite(f, "x", 0));
  CLOSED("sread-of-no-bytes", sread(f, b, 0));
  CLOSED("sseek", sseek(f, 0, SEEK_SET));
  CLOSED("stell", stell(f));
  CLOSED("sflush", sflush(f));
  CLOSED("seof", seof(f));
  CLOSED("print_to", print_to(f, 0, "x%i", $I(1)));
  CLOSED("scan_from", scan_from(f, 0, "%i", $I(0)));
  CLOSED("sclose", sclose(f));
  #undef CLOSED
  vh_count("closed_file_probes");
}

static const char* MODES[] = { "w", "wb", "w+", "w+b", "r", "rb", "r+", "a", "ab", "a+",
                               "wb+", "rb+", "ab+", "r+b", "a+b" };     /* both spellings of the binary update modes */
enum { NMODES = sizeof MODES / sizeof MODES[0] };

static void case_random(vh_rng* r, long index) {
  (void)index;
  snprintf(path, sizeof path, "c20-%d.bin", vh.shard);
  remove(path);
  dlen = 0; exists = 0; memset(&R, 0, sizeof R);
  track = 1;
  long opens0 = opens, closes0 = closes;
  int stack_file = vh_chance(r, 30);
  var f = stack_file ? (var)$(File, NULL) : (var)new(File);
  int nops = 20 + (int)vh_below(r, vh.thorough ? 120 : 60);
  char opd[160];
  vh_op("File (%s) ops=%d", stack_file ? "stack" : "heap", nops);
  closed_file_ops(f, "construction");
  for (int op = 0; op < nops; op++) {
    var exc = NULL;
    int roll = (int)vh_below(r, 100);
    opd[0] = 0;
    if (!R.open) {
      if (roll < 85) {
        const char* mode = MODES[vh_below(r, NMODES)];
        if (mode[0] == 'r' && !exists) { mode = "w+"; }
        snprintf(opd, sizeof opd, "sopen(\"%s\")", mode);
        vh_op("%s", opd);
        VH_CATCH(sopen(f, $S(path), $S((char*)mode)), exc);
        if (exc) { vh_violation("C20:open:sopen-raised", "%s raised %s", opd, vh_exc_name(exc)); break; }
        ref_open(mode);
        if (strchr(mode, 'a')) { vh_count("append_opens"); }
        if (strlen(mode) == 3 && mode[2] == '+') { vh_count("opens_in_a_binary_update_mode_spelled_with_the_plus_last"); }
      } else {
        snprintf(opd, sizeof opd, "closed-file probes");
        closed_file_ops(f, "while closed");
      }
    } else if ((roll < 6 && !R.writable) || (roll >= 40 && roll < 46 && !R.readable)) {
      /* an operation the stream's mode does not allow, on an OPEN File: it raises IOError, transfers nothing, and leaves
         the stream's error indicator set -- from then on seof must still say what feof says (not "error or end"),
         stell what ftell says, and everything still there stays readable */
      static unsigned char rb[64];
      int is_write = !R.writable && roll < 6;
      size_t n = 1 + vh_below(r, 40);
      snprintf(opd, sizeof opd, "%s(%zu bytes) on a stream opened %s", is_write ? "swrite" : "sread", n, is_write ? "read-only" : "write-only");
      vh_op("%s", opd);
      if (is_write) { if (R.last_was_read) { sseek(f, (int64_t)R.pos, SEEK_SET); R.last_was_read = 0; R.eof = 0; } VH_CATCH(swrite(f, rb, n), exc); }
      else { if (R.last_was_write) { sflush(f); if (R.append) { R.pos = dlen; } R.last_was_write = 0; } VH_CATCH(sread(f, rb, n), exc); }
      vh_eval();
      if (exc != IOError) { vh_violation("C20:refused:operation-the-mode-forbids-did-not-raise-ioerror", "%s gave %s", opd, vh_exc_name(exc)); break; }
      vh_count(is_write ? "writes_refused_by_the_mode" : "reads_refused_by_the_mode");
      if (ferror(((struct File*)f)->file)) { vh_count("operations_checked_with_the_error_indicator_set"); }
    } else if (roll < 30 && R.writable) {
      /* swrite in random chunkings, zero bytes included */
      if (R.last_was_read) { sseek(f, (int64_t)R.pos, SEEK_SET); R.last_was_read = 0; R.eof = 0; }
      size_t n = vh_chance(r, 8) ? 0 : vh_chance(r, 10) ? 4096 + vh_below(r, 20000) : vh_below(r, 300);
      if (dlen + n + 16 > MAXDATA) { n = 0; }
      static unsigned char buf[32768];
      for (size_t i = 0; i < n; i++) { buf[i] = vh_chance(r, 20) ? 0 : (unsigned char)vh_below(r, 256); }
      snprintf(opd, sizeof opd, "swrite(%zu bytes)", n);
      vh_op("%s", opd);
      size_t ret = 99;
      VH_CATCH(ret = swrite(f, buf, n), exc);
      vh_eval();
      if (exc) { vh_violation("C20:write:swrite-raised", "%s raised %s", opd, vh_exc_name(exc)); break; }
      if (ret != (n ? 1u : 0u)) { vh_violation("C20:write:swrite-return", "%s returned %zu", opd, ret); }
      ref_write(buf, n);
      if (n > 0) { R.last_was_write = 1; }
      if (n == 0) { vh_count("zero_byte_writes"); }
      if (n >= 4096) { vh_count("writes_larger_than_a_stdio_buffer"); }
    } else if (roll < 40 && R.writable) {
      if (R.last_was_read) { sseek(f, (int64_t)R.pos, SEEK_SET); R.last_was_read = 0; R.eof = 0; }
      int64_t v = vh_range(r, -99999, 99999);
      /* the text field of a record is often empty, a conversion that writes no character at all */
      char word[24]; size_t wl = vh_chance(r, 30) ? 0 : vh_below(r, 20);
      for (size_t i = 0; i < wl; i++) { word[i] = (char)('a' + vh_below(r, 26)); }
      word[wl] = 0;
      if (wl == 0) { vh_count("formatted_writes_with_an_empty_text_field"); }
      /* several record layouts, some with literal percent signs followed by ordinary words */
      static const char* CFMT[] = { "<%i|%s>", "%i%% of %s;", "[%i%% done, %s spoiled]\n", "%i%%%s|", "100%% sure: %i/%s\n" };
      static const char* LFMT[] = { "<%" PRId64 "|%s>", "%" PRId64 "%% of %s;", "[%" PRId64 "%% done, %s spoiled]\n", "%" PRId64 "%%%s|", "100%% sure: %" PRId64 "/%s\n" };
      int fk = (int)vh_below(r, 5);
      if (fk > 0) { vh_count("formatted_writes_with_a_literal_percent"); }
      char txt[128]; int tl = snprintf(txt, sizeof txt, LFMT[fk], v, word);
      snprintf(opd, sizeof opd, "print_to(layout %d, %" PRId64 ", \"%s\")", fk, v, word);
      vh_op("%s", opd);
      int ret = -1;
      VH_CATCH(ret = print_to(f, 0, CFMT[fk], $I(v), $S(word)), exc);
      vh_eval();
      if (exc) { vh_violation("C20:write:print_to-raised", "%s raised %s", opd, vh_exc_name(exc)); break; }
      if (ret != tl) { vh_violation("C20:write:print_to-return", "print_to returned %d for %d characters", ret, tl); }
      ref_write((unsigned char*)txt, (size_t)tl);
      R.last_was_write = 1;
      vh_count("formatted_writes");
    } else if (roll < 60 && R.readable) {
      if (R.last_was_write || !R.pos_known) { if (!R.pos_known) { R.pos = 0; } sseek(f, (int64_t)R.pos, SEEK_SET); R.last_was_write = 0; R.pos_known = 1; R.eof = 0; }
      size_t n = vh_chance(r, 8) ? 0 : vh_chance(r, 10) ? 4096 + vh_below(r, 20000) : vh_below(r, 300);
      static unsigned char buf[32768];
      memset(buf, 0xEE, n < sizeof buf ? n : sizeof buf);
      snprintf(opd, sizeof opd, "sread(%zu bytes at %zu of %zu)", n, R.pos, dlen);
      vh_op("%s", opd);
      size_t ret = 99;
      VH_CATCH(ret = sread(f, buf, n), exc);
      vh_evals(2);
      if (exc) { vh_violation("C20:read:sread-raised", "%s raised %s", opd, vh_exc_name(exc)); break; }
      size_t avail = dlen > R.pos ? dlen - R.pos : 0;
      size_t got = n <= avail ? n : avail;
      size_t want_ret = (n > 0 && n <= avail) ? 1 : 0;          /* sread reports items, not bytes */
      if (ret != want_ret) { vh_violation("C20:read:sread-return", "%s returned %zu, expected %zu", opd, ret, want_ret); }
      if (memcmp(buf, data + R.pos, got) != 0) {
        size_t d = 0; while (d < got && buf[d] == data[R.pos + d]) { d++; }
        vh_violation("C20:roundtrip:bytes-read-differ-from-bytes-written", "%s: byte %zu is 0x%02x, written 0x%02x", opd, d, buf[d], data[R.pos + d]);
      }
      if (n > avail) { R.eof = 1; vh_count("reads_past_the_end"); }
      R.pos += got;
      R.last_was_read = 1;
      vh_count("reads");
    } else if (roll < 75) {
      int origin = (int)vh_below(r, 3);
      size_t target = vh_below(r, dlen + 1);
      if (!R.pos_known && origin == 1) { origin = 0; }
      int64_t off = origin == 0 ? (int64_t)target : origin == 1 ? (int64_t)target - (int64_t)R.pos : (int64_t)target - (int64_t)dlen;
      if (R.append && R.last_was_write) { sflush(f); R.pos = dlen; off = origin == 1 ? (int64_t)target - (int64_t)R.pos : off; }
      snprintf(opd, sizeof opd, "sseek(%" PRId64 ",%s)", off, origin == 0 ? "SEEK_SET" : origin == 1 ? "SEEK_CUR" : "SEEK_END");
      vh_op("%s", opd);
      /* SEEK_END needs the C library to know the length: flush pending writes first as C requires nothing else */
      VH_CATCH(sseek(f, off, origin == 0 ? SEEK_SET : origin == 1 ? SEEK_CUR : SEEK_END), exc);
      vh_eval();
      if (exc) { vh_violation("C20:position:sseek-raised", "%s raised %s", opd, vh_exc_name(exc)); break; }
      R.pos = target; R.pos_known = 1; R.eof = 0; R.last_was_read = R.last_was_write = 0;
      static const char* SN[] = { "seeks_from_start", "seeks_from_current", "seeks_from_end" };
      vh_count(SN[origin]);
    } else if (roll < 82) {
      snprintf(opd, sizeof opd, "sflush");
      vh_op("%s", opd);
      VH_CATCH(sflush(f), exc);
      if (exc) { vh_violation("C20:write:sflush-raised", "sflush raised %s", vh_exc_name(exc)); break; }
      if (R.append && R.last_was_write) { R.pos = dlen; }
      R.last_was_write = 0;
      check_disk("sflush");
    } else if (roll < 92) {
      snprintf(opd, sizeof opd, "sclose");
      vh_op("%s", opd);
      VH_CATCH(sclose(f), exc);
      vh_eval();
      if (exc) { vh_violation("C20:close:sclose-raised-on-open-file", "sclose raised %s", vh_exc_name(exc)); break; }
      R.open = 0;
      check_disk("sclose");
      if (handles_open() != 0) { vh_violation("C20:handle:stream-left-open-after-sclose", "%d handle(s) still open after sclose", handles_open()); }
      closed_file_ops(f, "after sclose");
      vh_count("closes");
    } else if (roll >= 98) {
      /* an open that cannot succeed (no such directory) on a File that is open: IOError, the old stream has been
         closed exactly once, what it had buffered is on disk, and the File is closed -- it keeps no handle at all */
      int by_construct = vh_chance(r, 30);
      snprintf(opd, sizeof opd, "%s(\"no-such-directory/x\") while open", by_construct ? "construct" : "sopen");
      vh_op("%s", opd);
      if (by_construct) { VH_CATCH(construct(f, $S("no-such-directory-c20/x.bin"), $S("r")), exc); }
      else { VH_CATCH(sopen(f, $S("no-such-directory-c20/x.bin"), $S("r")), exc); }
      vh_eval();
      if (exc != IOError) { vh_violation("C20:open:unopenable-path-did-not-raise-ioerror", "%s gave %s", opd, vh_exc_name(exc)); break; }
      R.open = 0;
      check_disk("failed reopen");
      if (handles_open() != 0) { vh_violation("C20:handle:stream-left-open-after-a-failed-reopen", "%d handle(s) open after %s", handles_open(), opd); }
      closed_file_ops(f, "after a failed reopen");
      vh_count("failed_reopens_of_an_open_file");
      continue;
    } else {
      /* reopen on the same object while it is open: the old stream must be closed exactly once */
      const char* mode = MODES[vh_below(r, NMODES)];
      if (mode[0] == 'r' && !exists) { mode = "w+"; }
      /* half of the time through the constructor: construct(f, path, mode) on a File that is open is a reopen as well */
      int by_construct = vh_chance(r, 50);
      snprintf(opd, sizeof opd, "%s(\"%s\") while open", by_construct ? "construct" : "sopen", mode);
      vh_op("%s", opd);
      if (by_construct) { VH_CATCH(construct(f, $S(path), $S((char*)mode)), exc); vh_count("reopens_through_the_constructor"); }
      else { VH_CATCH(sopen(f, $S(path), $S((char*)mode)), exc); }
      vh_eval();
      if (exc) { vh_violation("C20:open:sopen-raised", "%s raised %s", opd, vh_exc_name(exc)); break; }
      ref_open(mode);
      if (handles_open() != 1) { vh_violation("C20:handle:reopen-did-not-close-the-old-stream", "%d handles open after reopening", handles_open()); }
      check_disk("reopen");
      vh_count("reopens_while_open");
    }
    check_position(f, opd);
  }
  /* end: del (heap) or sclose (stack) closes exactly once */
  if (!stack_file) { del(f); vh_count("dels"); if (R.open) { vh_count("dels_of_open_files"); } }
  else if (R.open) { sclose(f); }
  if (R.open) { R.open = 0; check_disk("final close"); }
  vh_evals(2);
  if (handles_open() != 0) { vh_violation("C20:handle:stream-left-open-at-the-end", "%d handle(s) still open after the File was deleted/closed", handles_open()); memset(open_handles, 0, sizeof open_handles); }
  if (opens - opens0 != closes - closes0) { vh_violation("C20:handle:opens-and-closes-differ", "%ld opens, %ld closes", opens - opens0, closes - closes0); }
  track = 0;
  if (nops >= 20) { vh_nontrivial(); }
}

/* positions beyond 2 GiB: a sparse file (one seek past 2^31, one byte written) costs no disk space; stell agrees with
   the C library there exactly as it does at small offsets, and sseek from the end and from the current position land
   where they should */
static void far_positions(void) {
  char fp[64]; snprintf(fp, sizeof fp, "c20-far-%d.bin", vh.shard);
  var f = new(File, $S(fp), $S("w+b"));
  var exc = NULL;
  static const int64_t FAR[] = { ((int64_t)1 << 31) - 1, (int64_t)1 << 31, ((int64_t)1 << 31) + 12345, ((int64_t)1 << 32) - 1, ((int64_t)1 << 32) + 7, ((int64_t)3 << 32) + 99 };
  for (size_t k = 0; k < sizeof FAR / sizeof FAR[0]; k++) {
    vh.oplen = 0; vh.oplog[0] = 0; vh.nops = 0;
    vh_op("sseek(%" PRId64 ", SEEK_SET); stell; swrite(1 byte); stell; sseek(-1, SEEK_CUR); sread", FAR[k]);
    int64_t t0 = -7, t1 = -7; char b = 0;
    VH_CATCH(sseek(f, FAR[k], SEEK_SET), exc);
    if (!exc) { VH_CATCH(t0 = stell(f), exc); }
    if (!exc) { VH_CATCH(swrite(f, "Z", 1), exc); }
    if (!exc) { VH_CATCH(t1 = stell(f), exc); }
    vh_evals(3);
    if (exc) { vh_violation("C20:position:far-offset-raised", "an operation at offset %" PRId64 " raised %s", FAR[k], vh_exc_name(exc)); break; }
    int64_t c1 = (int64_t)ftello(((struct File*)f)->file);
    if (t0 != FAR[k] || t1 != FAR[k] + 1 || t1 != c1) { vh_violation("C20:position:stell-differs-from-ftell", "beyond 2 GiB: stell gave %" PRId64 " after the seek and %" PRId64 " after one byte; the C library says %" PRId64 " (sought %" PRId64 ")", t0, t1, c1, FAR[k]); break; }
    VH_CATCH(sseek(f, -1, SEEK_CUR), exc);
    if (!exc) { VH_CATCH(sread(f, &b, 1), exc); }
    if (exc || b != 'Z' || stell(f) != FAR[k] + 1) { vh_violation("C20:roundtrip:bytes-read-differ-from-bytes-written", "the byte written at offset %" PRId64 " was not read back (%s)", FAR[k], vh_exc_name(exc)); break; }
    VH_CATCH(sseek(f, 0, SEEK_END), exc);
    if (exc || stell(f) != (int64_t)ftello(((struct File*)f)->file)) { vh_violation("C20:position:stell-differs-from-ftell", "after sseek(0, SEEK_END) in a file of more than 2 GiB stell and the C library disagree"); break; }
    vh_count("positions_beyond_2_gib_checked");
  }
  sclose(f); del(f); remove(fp);
}

static void fixed(void) {
  snprintf(path, sizeof path, "c20-fixed-%d.bin", vh.shard);
  track = 1;
  far_positions();
  /* with-block closes exactly once */
  {
    long o0 = opens, c0 = closes;
    vh_op("with (f in new(File, path, \"w\")) { swrite }");
    with (f in new(File, $S(path), $S("w"))) {
      swrite(f, "hello", 5);
    }
    vh_evals(2);
    if (opens - o0 != 1 || closes - c0 != 1) { vh_violation("C20:handle:with-block-opens-and-closes-differ", "%ld opens, %ld closes", opens - o0, closes - c0); }
    if (handles_open() != 0) { vh_violation("C20:handle:stream-left-open-after-with-block", "handle open after the with block"); }
    vh_count("with_blocks");
  }
  /* a File object on the stack, built and finalised in place: the destructor closes exactly once, the object then
     refuses every operation like any File that is not open, may be constructed again, and a second destruct closes
     nothing */
  for (int round = 0; round < 3; round++) {
    long o0 = opens, c0 = closes;
    var f = $(File, NULL);
    var exc = NULL;
    vh.oplen = 0; vh.oplog[0] = 0; vh.nops = 0;
    vh_op("f = $(File); construct(f, path, w); swrite; destruct(f); operations; construct(f, path, r); sread; destruct; destruct");
    VH_CATCH(construct(f, $S(path), $S("w")), exc);
    if (exc) { vh_violation("C20:stack-file:construct-raised", "construct raised %s", vh_exc_name(exc)); break; }
    swrite(f, "stack file", 10);
    VH_CATCH(destruct(f), exc);
    vh_evals(3);
    if (exc) { vh_violation("C20:stack-file:destruct-raised", "destruct of an open File raised %s", vh_exc_name(exc)); }
    if (opens - o0 != 1 || closes - c0 != 1) { vh_violation("C20:handle:destructor-did-not-close-exactly-once", "%ld opens, %ld closes after destruct of an open File", opens - o0, closes - c0); }
    closed_file_ops(f, "after destruct");
    if (round == 1) { VH_CATCH(destruct(f), exc); if (exc) { vh_violation("C20:stack-file:destruct-raised", "second destruct raised %s", vh_exc_name(exc)); } }
    VH_CATCH(construct(f, $S(path), $S("r")), exc);
    if (exc) { vh_violation("C20:stack-file:construct-raised", "construct after destruct raised %s", vh_exc_name(exc)); break; }
    char back[16]; memset(back, 0, sizeof back);
    size_t got = sread(f, back, 10);
    vh_eval();
    if (got == 0 || memcmp(back, "stack file", 10) != 0) { vh_violation("C20:roundtrip:file-contents-differ", "a File constructed again after destruct read back \"%.10s\"", back); }
    destruct(f);
    VH_CATCH(destruct(f), exc);
    vh_evals(2);
    if (exc) { vh_violation("C20:stack-file:destruct-raised", "destruct of a File that is not open raised %s", vh_exc_name(exc)); }
    if (opens - o0 != 2 || closes - c0 != 2) { vh_violation("C20:handle:opens-and-closes-differ", "%ld opens, %ld closes over two construct/destruct rounds", opens - o0, closes - c0); }
    if (handles_open() != 0) { vh_violation("C20:handle:stream-left-open-at-the-end", "handle open after destruct"); memset(open_handles, 0, sizeof open_handles); }
    vh_count("stack_file_lifecycles");
  }
  /* the end of a with block (and stop) is a close like any other: on a File that is not open any more it raises
     IOError -- the body closed it, it was never opened, or it had been closed before */
  for (int variant = 0; variant < 4; variant++) {
    var f = variant == 1 ? (var)new(File) : (var)new(File, $S(path), $S("r"));
    var exc = NULL;
    vh.oplen = 0; vh.oplog[0] = 0; vh.nops = 0;
    vh_op("with / stop on a File that is not open, variant %d", variant);
    switch (variant) {
      case 0: VH_CATCH(({ with (g in f) { sclose(g); } }), exc); break;           /* the body closes it */
      case 1: VH_CATCH(({ with (g in f) { (void)g; } }), exc); break;             /* never opened */
      case 2: sclose(f); VH_CATCH(({ with (g in f) { (void)g; } }), exc); break;  /* closed before */
      default: sclose(f); VH_CATCH(stop(f), exc); break;
    }
    vh_evals(2);
    if (exc != IOError) { vh_violation("C20:closed:end-of-with-block-did-not-raise-ioerror", "variant %d: leaving a with block / stop on a File that is not open gave %s", variant, vh_exc_name(exc)); }
    closed_file_ops(f, "after a with block on a closed File");
    if (handles_open() != 0) { vh_violation("C20:handle:stream-left-open-at-the-end", "handle open after the with block"); memset(open_handles, 0, sizeof open_handles); }
    del(f);
    vh_count("with_blocks_on_files_that_are_not_open");
  }
  /* sclose twice, del after sclose */
  {
    var f = new(File, $S(path), $S("r"));
    var exc;
    vh.oplen = 0; vh.oplog[0] = 0; vh.nops = 0;
    vh_op("sclose; sclose; del");
    sclose(f);
    VH_CATCH(sclose(f), exc);
    vh_eval();
    if (exc != IOError) { vh_violation("C20:closed:sclose-did-not-raise-ioerror", "second sclose gave %s", vh_exc_name(exc)); }
    closed_file_ops(f, "after sclose");
    del(f);
    vh_eval();
    if (handles_open() != 0) { vh_violation("C20:handle:stream-left-open-at-the-end", "handle open after sclose+del"); }
  }
  /* text round trip through print_to / scan_from after reopening and after seeking back */
  {
    var f = new(File, $S(path), $S("w+"));
    var a = new(Int, $I(0)), b = new(Int, $I(0)), s = new(String, $S("junk"));
    vh.oplen = 0; vh.oplog[0] = 0; vh.nops = 0;
    vh_op("print_to(\"%%i;%%$;%%li\"); seek back; scan_from");
    int w = print_to(f, 0, "%i;%$;%li", $I(-77), $S("a \"q\" b"), $I(1234567890123LL));
    sseek(f, 0, SEEK_SET);
    int rd = scan_from(f, 0, "%i;%$;%li", a, s, b);
    vh_evals(2);
    if (c_int(a) != -77 || c_int(b) != 1234567890123LL || strcmp(c_str(s), "a \"q\" b") != 0) {
      vh_violation("C20:roundtrip:text-read-back-differs", "read back %" PRId64 " \"%s\" %" PRId64, c_int(a), c_str(s), c_int(b));
    }
    if (rd != w) { vh_violation("C20:roundtrip:text-positions-differ", "wrote %d read %d", w, rd); }
    sclose(f);
    sopen(f, $S(path), $S("r"));
    assign(a, $I(0));
    scan_from(f, 0, "%i", a);
    vh_eval();
    if (c_int(a) != -77) { vh_violation("C20:roundtrip:text-read-back-differs", "after reopening read %" PRId64, c_int(a)); }
    del(f);
    vh_count("text_roundtrips");
  }
  /* records separated by ';' (none after the last one), read back one scan per record with "%li;" -- every chunking
     of the reads gives the same data; at the last record the separator of the format meets the end of the file */
  for (int n = 1; n <= 6; n++) {
    var f = new(File, $S(path), $S("w"));
    int64_t v[6];
    vh.oplen = 0; vh.oplog[0] = 0; vh.nops = 0;
    vh_op("%d records written with ';' between them, read back with %d calls of scan_from(\"%%li;\")", n, n);
    int pos = 0;
    for (int i = 0; i < n; i++) { v[i] = (int64_t)(i + 1) * 1000003 - 7 * n; pos = i ? print_to(f, pos, ";%li", $I(v[i])) : print_to(f, pos, "%li", $I(v[i])); }
    sclose(f);
    sopen(f, $S(path), $S("r"));
    pos = 0;
    for (int i = 0; i < n; i++) {
      var x = new(Int, $I(-1)); var exc = NULL;
      VH_CATCH(pos = scan_from(f, pos, "%li;", x), exc);
      vh_evals(2);
      if (exc) { vh_violation("C20:roundtrip:record-read-raised", "record %d of %d raised %s", i + 1, n, vh_exc_name(exc)); break; }
      if (c_int(x) != v[i]) { vh_violation("C20:roundtrip:text-read-back-differs", "record %d of %d: wrote %" PRId64 ", read %" PRId64, i + 1, n, v[i], c_int(x)); break; }
    }
    vh_eval();
    if (!seof(f)) { char c; if (sread(f, &c, 1) != 0) { vh_violation("C20:roundtrip:text-positions-differ", "%d records read, the file is not at its end", n); } }
    sclose(f);
    del(f);
    vh_count("record_wise_reads");
  }
  track = 0;
}

int main(int argc, char** argv) {
  return vh_run(argc, argv, "file", fixed, case_random);
}
