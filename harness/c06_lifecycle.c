/*
** C06 -- every managed object is finalised exactly once and all memory is returned by teardown.
**
** Ledger: allocated/constructed -> destructed -> released for three probe types (default allocator with
** a link-time wrapped free(), and an own Alloc instance).  Oracles:
**   * always: no second finalisation, no release without finalisation, no second release;
**   * right after del / del_root / del_raw: the object (and what a deleted Box owned) is finalised and released;
**   * at teardown of a worker thread (after join) and of a whole process (forked child, checked from a
**     destructor function that runs after the library's atexit handlers): every object is released.
** Unity-includes GC.c to predict the sweep order of owner/owned pairs (coverage only).
*/
#include "gcprobes.h"
#include "GC.c"

/* ---------- wrapped free(): observes the release of default-allocator probes ---------- */

enum { BLK_CAP = 1 << 21 };
static size_t blk_fill;
static struct { void* blk; int64_t id; } BLK[BLK_CAP];
static volatile int blk_lock;

static size_t blk_slot(void* p) {
  size_t i = ((uintptr_t)p >> 4) * 0x9E3779B97F4A7C15ULL   >> 43;
  while (BLK[i].blk != NULL && BLK[i].blk != p) { i = (i + 1) & (BLK_CAP - 1); }
  return i;
}
static void blk_record(var self, int64_t id) {
  void* b = (char*)self - sizeof(struct Header);
  size_t i = blk_slot(b);
  if (BLK[i].blk == NULL && ++blk_fill > BLK_CAP / 2) { fprintf(stderr, "block table full\n"); exit(2); }
  BLK[i].blk = b; BLK[i].id = id;
}

void __real_free(void* p);
void __wrap_free(void* p) {
  if (p != NULL) {
    size_t i = blk_slot(p);
    if (BLK[i].blk == p && BLK[i].id > 0) {
      int64_t id = BLK[i].id;
      BLK[i].id = 0;      /* tombstone keeps the probe chain intact */
      if (mo_state[id] != MO_DESTRUCTED) {
        vh_violation("C06:ledger:released-without-finalisation", "memory of object id %" PRId64 " freed in state %d", id, mo_state[id]);
      }
      mo_state[id] = MO_RELEASED;
      __sync_fetch_and_add(&mo_released, 1);
    }
  }
  __real_free(p);
}

/* ---------- objects the mutator holds ---------- */

enum { HOLD = 24 };
enum { HK_NONE, HK_MANAGED, HK_ROOT, HK_RAW, HK_UNREGISTERED };   /* how it must be deleted */

struct held { var p; int how; int64_t id; int64_t owned_id; int is_box; };

struct world {
  struct held h[HOLD];
  int64_t first_id, last_id;     /* ids created by this world: [first_id, last_id) */
  int stopped;
};

static volatile int64_t id_counter = 1;
static int64_t fresh_id(void) { return __sync_fetch_and_add(&id_counter, 1); }

enum { HIDDEN_MAX = 24 };
#define HIDE_MASK ((uintptr_t)0x5A5A5A5A5A5A5A5AULL)
static __thread struct { uintptr_t masked; int64_t id; } *hidden;      /* malloc'd: the collector does not look there */
static __thread int hidden_n;

static var new_probe(vh_rng* r, int how, int64_t* idp) {
  int64_t id = fresh_id();
  *idp = id;
  int kind = (int)vh_below(r, 3);
  if (kind == 2) { int freec = 0; for (int i = 0; i < PA_SLOTS; i++) { freec += !pa_used[i]; } if (freec < 8) { kind = 0; } }
  var p;
  var type = kind == 0 ? PNode : kind == 1 ? PMark : PAddr;
  if (how == HK_ROOT) { p = new_root_with(type, tuple($I(id))); }
  else if (how == HK_RAW) { p = new_raw_with(type, tuple($I(id))); }
  else { p = new_with(type, tuple($I(id))); }
  if (kind != 2) { blk_record(p, id); }
  return p;
}

static void expect_released(int64_t id, const char* how) {
  vh_eval();
  if (id > 0 && mo_state[id] != MO_RELEASED) {
    char key[96];
    snprintf(key, sizeof key, "C06:del:%s:object-not-%s", how, mo_state[id] == MO_DESTRUCTED ? "released" : "finalised");
    vh_violation(key, "object id %" PRId64 " is in state %d right after %s", id, mo_state[id], how);
  }
}

static void delete_held(struct held* h, const char* ctx) {
  char how[96];
  if (h->p == NULL) { return; }
  switch (h->how) {
    case HK_ROOT: snprintf(how, sizeof how, "del_root%s", ctx); del_root(h->p); vh_count("del_root"); break;
    case HK_RAW: snprintf(how, sizeof how, "del_raw%s", ctx); del_raw(h->p); vh_count("del_raw"); break;
    case HK_UNREGISTERED: snprintf(how, sizeof how, "del-of-object-allocated-while-stopped%s", ctx); del(h->p); vh_count("del_of_unregistered"); break;
    default: snprintf(how, sizeof how, "del%s", ctx); del(h->p); vh_count("del_managed"); break;
  }
  vh_op("%s(id %" PRId64 ")", how, h->id);
  if (h->is_box) { expect_released(h->owned_id, how); vh_count("del_of_box"); }
  else { expect_released(h->id, how); }
  h->p = NULL; h->how = HK_NONE;
}

/* white-box: which of two registered objects will the sweep put on its list first? (coverage only) */
static int sweep_order(var a, var b) {
  struct GC* gc = current(GC);
  long ia = -1, ib = -1;
  for (size_t i = 0; i < gc->nslots; i++) {
    if (gc->entries[i].hash == 0) { continue; }
    if (gc->entries[i].ptr == a) { ia = (long)i; }
    if (gc->entries[i].ptr == b) { ib = (long)i; }
  }
  if (ia < 0 || ib < 0) { return 0; }
  return ia < ib ? -1 : 1;
}

static void collect_now(void) {
  struct GC* gc = current(GC);
  GC_Mark(gc);
  GC_Sweep(gc);
  vh_count("forced_collections");
}

/* ---------- an owner whose Assign makes a deep copy ----------
** The documented convention for a type that owns sub-objects: Assign builds its own copies of them, the destructor
** deletes them.  copy(owner) therefore allocates managed objects while the copy is being built, and a threshold
** collection may land in the middle: the children the half-built copy already holds are finalised by nobody but
** their owner -- once. */
enum { FAM_MAX = 12 };
struct PFam { int64_t n; int64_t ids[FAM_MAX]; var kids[FAM_MAX]; };
static __thread vh_rng* fam_rng;
static void PFam_Assign(var self, var obj) {
  struct PFam* p = self; struct PFam* o = obj;
  for (int64_t i = 0; i < p->n; i++) { del(p->kids[i]); }
  p->n = 0;
  for (int64_t i = 0; i < o->n; i++) {
    int64_t id = fresh_id();
    var k = new(PNode, $I(id));
    blk_record(k, id);
    p->ids[i] = id; p->kids[i] = k; p->n = i + 1;
    int junk = (int)vh_below(fam_rng, 30);
    for (int j = 0; j < junk; j++) { var g = new(Int, $I(j)); (void)g; }
  }
}
static void PFam_Del(var self) {
  struct PFam* p = self;
  for (int64_t i = 0; i < p->n; i++) { del(p->kids[i]); }
  p->n = 0;
}
static var PFam = Cello(PFam, Instance(Assign, PFam_Assign), Instance(New, NULL, PFam_Del));

static void family_case(vh_rng* r, const char* who) {
  fam_rng = r;
  struct PFam tmpl; memset(&tmpl, 0, sizeof tmpl);
  tmpl.n = 2 + (int64_t)vh_below(r, FAM_MAX - 1);
  volatile var src = new(PFam);
  assign(src, &tmpl);                         /* builds the source's own children (the template has none to look at) */
  struct PFam* s0 = src;
  volatile var c = copy(src);
  struct PFam* p = c;
  vh_op("%s copy of an owner of %" PRId64 " deep-copied children", who, s0->n);
  vh_evals(3);
  int ok = p->n == s0->n;
  for (int64_t i = 0; ok && i < s0->n; i++) {
    if (mo_state[s0->ids[i]] != MO_CONSTRUCTED || mo_state[p->ids[i]] != MO_CONSTRUCTED) {
      vh_violation("C06:copy:child-of-a-deep-copy-finalised-while-owned", "child %" PRId64 " of %s (id %" PRId64 ") is in state %d right after copy()", i,
                   mo_state[s0->ids[i]] != MO_CONSTRUCTED ? "the source" : "the copy", mo_state[s0->ids[i]] != MO_CONSTRUCTED ? s0->ids[i] : p->ids[i],
                   mo_state[s0->ids[i]] != MO_CONSTRUCTED ? mo_state[s0->ids[i]] : mo_state[p->ids[i]]);
      ok = 0;
    }
  }
  if (ok) {
    int how = (int)vh_below(r, 3);
    int64_t ids[FAM_MAX]; int64_t n = p->n;
    memcpy(ids, p->ids, sizeof ids);
    if (how == 0) { del(c); for (int64_t i = 0; i < n; i++) { expect_released(ids[i], "del-of-a-deep-copy"); } vh_count("deep_copies_deleted_by_hand"); }
    else if (how == 1) { collect_now(); for (int64_t i = 0; i < n; i++) { vh_eval(); if (mo_state[ids[i]] != MO_CONSTRUCTED) { vh_violation("C06:copy:child-of-a-deep-copy-finalised-while-owned", "child id %" PRId64 " of a held copy is in state %d after a collection", ids[i], mo_state[ids[i]]); break; } } }
    /* otherwise: both owners become garbage; the collector finalises owner and children, each once (ledger) */
  }
  vh_count("deep_copies_of_owners");
  c = NULL; src = NULL;
}

/* ---------- owners that own each other ----------
** A ring of objects whose destructors each delete the next one, all garbage in the same collection: the sweep
** finalises whichever it reaches first, that destructor deletes the next, ... and the last one deletes the first,
** which is being finalised at that moment.  Every member is finalised once and released once. */
struct PRing { int64_t id; var next; int64_t canary; };
static void PRing_New(var self, var args) { struct PRing* p = self; p->id = c_int(get(args, $I(0))); p->next = NULL; p->canary = MO_CANARY; mo_construct(p->id); }
static void PRing_Del(var self) {
  struct PRing* p = self;
  if (!mo_destruct(p->id, p->canary)) { return; }
  p->canary = 0;
  if (p->next) { del(p->next); }
}
static var PRing = Cello(PRing, Instance(New, PRing_New, PRing_Del));

static void __attribute__((noinline)) make_ring(int n, int64_t* ids) {
  var first = NULL, prev = NULL;
  for (int i = 0; i < n; i++) {
    ids[i] = fresh_id();
    var x = new(PRing, $I(ids[i]));
    blk_record(x, ids[i]);
    if (prev) { ((struct PRing*)prev)->next = x; } else { first = x; }
    prev = x;
  }
  ((struct PRing*)prev)->next = first;
}
static void __attribute__((noinline)) ring_scrub(void) { volatile char pad[4096]; for (size_t i = 0; i < sizeof pad; i++) { pad[i] = 0; } }
static void ring_case(vh_rng* r, const char* who) {
  int64_t ids[4]; int n = 2 + (int)vh_below(r, 3);
  make_ring(n, ids);
  ring_scrub();
  vh_op("%s ring of %d owners that delete each other, dropped", who, n);
  collect_now();
  int gone = 0;
  for (int i = 0; i < n; i++) { vh_eval(); if (mo_state[ids[i]] == MO_RELEASED) { gone++; } else if (mo_state[ids[i]] != MO_CONSTRUCTED) { vh_violation("C06:ring:member-finalised-but-not-released", "ring member id %" PRId64 " is in state %d after the collection", ids[i], mo_state[ids[i]]); } }
  if (gone == n) { vh_count("rings_of_mutual_owners_collected"); }
  else if (gone != 0) { vh_violation("C06:ring:collected-in-part", "%d of the %d members of a dropped ring were finalised by one collection", gone, n); }
  vh_count("rings_of_mutual_owners");
}

/* ---------- objects whose destructors allocate ----------
** A destructor may build things (a message, a log record, a successor): PSpawn's allocates one to three managed probe
** objects and drops them.  When the sweep finalises a PSpawn, these allocations land in the middle of the sweep; at
** teardown they land in the middle of the last sweep.  Every PSpawn and every object its destructor made is still
** finalised and released exactly once.  The ids of the children are reserved when the PSpawn is made. */
/* whether THIS HARNESS has stopped the collector of the running thread (the destructor goes by what its program did,
   not by what it could find out from the collector: a runtime that stops collectors on its own must not be excused) */
static __thread int harness_stopped;
#define STOP_GC(G) do { stop(G); harness_stopped = 1; } while (0)
#define START_GC(G) do { start(G); harness_stopped = 0; } while (0)
struct PSpawn { int64_t id; int64_t nkids; int64_t canary; };
static void PSpawn_New(var self, var args) { struct PSpawn* p = self; p->id = c_int(get(args, $I(0))); p->nkids = c_int(get(args, $I(1))); p->canary = MO_CANARY; mo_construct(p->id); }
static void PSpawn_Del(var self) {
  struct PSpawn* p = self;
  if (!mo_destruct(p->id, p->canary)) { return; }
  p->canary = 0;
  /* (what is allocated while the collector is stopped is nobody's but its maker's: it is deleted by hand at once) */
  int stopped = harness_stopped;
  for (int64_t k = 0; k < p->nkids; k++) { var x = new(PNode, $I(p->id + 1 + k)); blk_record(x, p->id + 1 + k); if (stopped) { del(x); } x = NULL; }
}
static var PSpawn = Cello(PSpawn, Instance(New, PSpawn_New, PSpawn_Del));
static unsigned char spawn_role[MO_MAX];          /* 1: a PSpawn, 2..4: the first, second, third object its destructor makes */
static var new_spawner(vh_rng* r) {
  int64_t k = 1 + (int64_t)vh_below(r, 3);
  int64_t id = __sync_fetch_and_add(&id_counter, 1 + k);
  if (id + k < MO_MAX) { spawn_role[id] = 1; for (int64_t j = 1; j <= k; j++) { spawn_role[id + j] = (unsigned char)(1 + j); } }
  var p = new(PSpawn, $I(id), $I(k));
  blk_record(p, id);
  return p;
}

/* ---------- a root that other roots or thread-local storage refer to ----------
** A root Box owns a managed probe that nothing else refers to; the Box itself is parked in the thread's storage, and a
** second root Box refers to the first.  Collections find the roots through those references before they come to their
** own entries -- the probes they own are alive all the same, until del_root releases each exactly once. */
static void __attribute__((noinline)) make_linked_roots(vh_rng* r, var* boxes, int64_t* ids) {
  for (int i = 0; i < 2; i++) { var t = new_probe(r, HK_MANAGED, &ids[i]); boxes[i] = new_root(Box, t); t = NULL; }
}
static void linked_roots_case(vh_rng* r, const char* who) {
  var boxes[2]; int64_t ids[2];
  make_linked_roots(r, boxes, ids);
  var holder = new_root(Tuple, boxes[0], boxes[1]);            /* a root that refers to both */
  set(current(Thread), $S("c06-linked-root"), boxes[1]);         /* and thread-local storage refers to the second */
  uintptr_t masked[3] = { (uintptr_t)boxes[0] ^ HIDE_MASK, (uintptr_t)boxes[1] ^ HIDE_MASK, (uintptr_t)holder ^ HIDE_MASK };
  boxes[0] = boxes[1] = holder = NULL;
  ring_scrub();
  vh_op("%s two root Boxes referenced by a root Tuple and by thread-local storage; collect twice", who);
  collect_now();
  for (int i = 0; i < 40; i++) { int64_t id; var g = new_probe(r, HK_MANAGED, &id); g = NULL; }
  collect_now();
  for (int i = 0; i < 2; i++) {
    vh_eval();
    if (mo_state[ids[i]] != MO_CONSTRUCTED) { vh_violation("C06:root:object-owned-by-a-root-finalised-while-the-root-is-alive", "the probe owned by root Box %d (the Box is referenced by another root%s) is in state %d after two collections", i, i ? " and by thread-local storage" : "", mo_state[ids[i]]); }
  }
  rem(current(Thread), $S("c06-linked-root"));
  del_root((var)(masked[2] ^ HIDE_MASK));
  for (int i = 0; i < 2; i++) {
    if (mo_state[ids[i]] == MO_CONSTRUCTED) { del_root((var)(masked[i] ^ HIDE_MASK)); expect_released(ids[i], "del_root-of-a-root-Box"); }
  }
  vh_count("roots_referenced_by_other_roots_and_thread_local_storage");
}

/* Plain managed objects (not roots) that only thread-local storage refers to: reachable, so no collection finalises
** them; once taken out of the storage they are deleted by hand -- finalised exactly once. */
enum { NTLS = 3 };
static void __attribute__((noinline)) make_tls_only(vh_rng* r, uintptr_t* masked, int64_t* ids) {
  static const char* KEYS[NTLS] = { "c06-tls-only-0", "c06-tls-only-1", "c06-tls-only-2" };
  for (int i = 0; i < NTLS; i++) {
    var t = new_probe(r, HK_MANAGED, &ids[i]);
    set(current(Thread), $S((char*)KEYS[i]), t);
    masked[i] = (uintptr_t)t ^ HIDE_MASK;
    t = NULL;
  }
}
static void tls_only_case(vh_rng* r, const char* who) {
  static const char* KEYS[NTLS] = { "c06-tls-only-0", "c06-tls-only-1", "c06-tls-only-2" };
  uintptr_t masked[NTLS]; int64_t ids[NTLS];
  make_tls_only(r, masked, ids);
  ring_scrub();
  vh_op("%s three managed objects referenced by thread-local storage only; collect twice", who);
  collect_now();
  for (int i = 0; i < 40; i++) { int64_t id; var g = new_probe(r, HK_MANAGED, &id); g = NULL; }
  collect_now();
  for (int i = 0; i < NTLS; i++) {
    vh_eval();
    if (mo_state[ids[i]] != MO_CONSTRUCTED) { vh_violation("C06:tls:object-referenced-by-thread-local-storage-finalised", "managed object id %" PRId64 " that thread-local storage refers to is in state %d after two collections", ids[i], mo_state[ids[i]]); }
  }
  for (int i = 0; i < NTLS; i++) {
    rem(current(Thread), $S((char*)KEYS[i]));
    if (mo_state[ids[i]] == MO_CONSTRUCTED) { del((var)(masked[i] ^ HIDE_MASK)); expect_released(ids[i], "del-of-an-object-taken-out-of-thread-local-storage"); }
  }
  vh_count("managed_objects_referenced_by_thread_local_storage_only");
}

/* Plain managed objects that only a root Tuple refers to (its Mark instance hands each item to the collector): alive
** through collections, the most recently made -- often the highest address the registry has seen -- included; taken
** out and deleted by hand afterwards, finalised exactly once. */
enum { NHELD = 6 };
static var __attribute__((noinline)) make_root_tuple_holder(vh_rng* r, uintptr_t* masked, int64_t* ids) {
  var holder = new_root(Tuple);
  for (int i = 0; i < NHELD; i++) { var t = new_probe(r, HK_MANAGED, &ids[i]); push(holder, t); masked[i] = (uintptr_t)t ^ HIDE_MASK; t = NULL; }
  return holder;
}
static void root_tuple_case(vh_rng* r, const char* who) {
  uintptr_t masked[NHELD]; int64_t ids[NHELD];
  var holder = make_root_tuple_holder(r, masked, ids);
  uintptr_t mh = (uintptr_t)holder ^ HIDE_MASK; holder = NULL;
  ring_scrub();
  vh_op("%s six managed objects referenced by a root Tuple only; collect twice", who);
  collect_now();
  for (int i = 0; i < 10; i++) { int64_t id; var g = new_probe(r, HK_MANAGED, &id); g = NULL; }
  collect_now();
  for (int i = 0; i < NHELD; i++) {
    vh_eval();
    if (mo_state[ids[i]] != MO_CONSTRUCTED) { vh_violation("C06:root:object-referenced-by-a-root-tuple-finalised", "managed object id %" PRId64 " (item %d of a root Tuple) is in state %d after two collections", ids[i], i, mo_state[ids[i]]); }
  }
  holder = (var)(mh ^ HIDE_MASK);
  while (len(holder) > 0) { pop(holder); }
  for (int i = 0; i < NHELD; i++) {
    if (mo_state[ids[i]] == MO_CONSTRUCTED) { del((var)(masked[i] ^ HIDE_MASK)); expect_released(ids[i], "del-of-an-object-taken-out-of-a-root-tuple"); }
  }
  del_root(holder);
  vh_count("managed_objects_referenced_by_a_root_tuple_only");
}

/* ---------- the mutator ---------- */

static void run_ops(vh_rng* r, struct world* w, int nops, const char* who) {
  struct GC* gc = current(GC);
  if (hidden == NULL) { hidden = calloc(HIDDEN_MAX, sizeof *hidden); }
  for (int op = 0; op < nops; op++) {
    int roll = (int)vh_below(r, 100);
    int slot = (int)vh_below(r, HOLD);
    struct held* h = &w->h[slot];
    if (roll < 22) {
      /* managed object, held or dropped at once */
      /* one in five held objects (outside stop windows) has a destructor that allocates: deleted by hand later, what
         it allocates then is registered like any other allocation and finalised by a collection or at teardown */
      int64_t id; var p;
      if (!w->stopped && vh_chance(r, 20)) { p = new_spawner(r); id = ((struct PSpawn*)p)->id; vh_count("held_objects_whose_destructors_allocate"); }
      else { p = new_probe(r, HK_MANAGED, &id); }
      if (vh_chance(r, 50)) {
        if (h->p) { delete_held(h, w->stopped ? "-inside-stop-window" : ""); }
        h->p = p; h->how = w->stopped ? HK_UNREGISTERED : HK_MANAGED; h->id = id; h->is_box = 0;
      } else if (w->stopped) {
        /* not registered: nobody else will ever free it */
        struct held t = { p, HK_UNREGISTERED, id, 0, 0 };
        delete_held(&t, "-inside-stop-window");
      }
      if (w->stopped) { vh_count("allocations_inside_stop_window"); }
      vh_op("%s new(id %" PRId64 ")%s", who, id, w->stopped ? " [stopped]" : "");
    } else if (roll < 30) {
      int64_t id; var p = new_probe(r, HK_ROOT, &id);
      if (h->p) { delete_held(h, w->stopped ? "-inside-stop-window" : ""); }
      h->p = p; h->how = w->stopped ? HK_UNREGISTERED : HK_ROOT; h->id = id; h->is_box = 0;
      vh_op("%s new_root(id %" PRId64 ")", who, id);
    } else if (roll < 33 && !w->stopped) {
      /* a root that nothing on the stack refers to: its address is parked, disguised, in malloc'd memory (what roots are
         for: pointers kept in static data or plain C structures).  Only its root flag keeps it alive through the
         collections and registry rehashes that follow; del_root later finalises it -- exactly once. */
      if (hidden_n < HIDDEN_MAX) {
        int64_t id; var p = new_probe(r, HK_ROOT, &id);
        hidden[hidden_n].masked = (uintptr_t)p ^ HIDE_MASK; hidden[hidden_n].id = id; hidden_n++;
        p = NULL;
        vh_op("%s new_root(id %" PRId64 ") parked off the stack", who, id);
        vh_count("roots_parked_off_the_stack");
      } else {
        int k = (int)vh_below(r, (uint64_t)hidden_n);
        int64_t id = hidden[k].id;
        vh_eval();
        if (mo_state[id] != MO_CONSTRUCTED) {
          vh_violation("C06:root:finalised-before-del_root", "root object id %" PRId64 " is in state %d although del_root was never called on it", id, mo_state[id]);
        } else {
          del_root((var)(hidden[k].masked ^ HIDE_MASK));
          expect_released(id, "del_root-of-a-root-kept-off-the-stack");
        }
        hidden[k] = hidden[--hidden_n];
        vh_op("%s del_root(id %" PRId64 ") of a parked root", who, id);
      }
    } else if (roll < 38) {
      int64_t id; var p = new_probe(r, HK_RAW, &id);
      if (h->p) { delete_held(h, w->stopped ? "-inside-stop-window" : ""); }
      h->p = p; h->how = HK_RAW; h->id = id; h->is_box = 0;
      vh_op("%s new_raw(id %" PRId64 ")", who, id);
    } else if (roll < 52 && w->stopped) {
      /* inside a stop window nothing is registered: a Box made here, and what it owns, exist for their owner only.
         Deleting the Box (here, or after the collector runs again) must still finalise the owned object. */
      if (vh_chance(r, 60)) {
        int64_t id; var t = new_probe(r, HK_MANAGED, &id);
        var b = new(Box, t);
        if (h->p) { delete_held(h, "-inside-stop-window"); }
        h->p = b; h->how = HK_UNREGISTERED; h->id = 0; h->owned_id = id; h->is_box = 1;
        vh_op("%s held Box(id %" PRId64 ") [stopped]", who, id);
        vh_count("boxes_made_inside_stop_window");
      } else {
        var c = vh_chance(r, 50) ? (var)new(Array, Box) : (var)new(List, Box);
        int n = 1 + (int)vh_below(r, 5); int64_t ids[8];
        for (int i = 0; i < n; i++) { var t = new_probe(r, HK_MANAGED, &ids[i]); push(c, $B(t)); }
        if (vh_chance(r, 40)) { pop(c); n--; expect_released(ids[n], "pop-of-a-Box-element-inside-stop-window"); }
        del(c);
        for (int i = 0; i < n; i++) { expect_released(ids[i], "del-of-a-container-of-boxes-inside-stop-window"); }
        vh_op("%s container of %d boxes made and deleted [stopped]", who, n);
        vh_count("containers_of_boxes_inside_stop_window");
      }
    } else if (roll < 52 && !w->stopped) {
      /* Box owning a managed probe (or, one time in four, a raw one the collector does not know); both garbage, or
         the box is held and deleted by hand later */
      int raw_owned = vh_chance(r, 25);
      int64_t id; var t = new_probe(r, raw_owned ? HK_RAW : HK_MANAGED, &id);
      var b = new(Box, t);
      if (raw_owned) { vh_count("boxes_owning_a_raw_object"); }
      if (vh_chance(r, 35)) {
        if (h->p) { delete_held(h, ""); }
        h->p = b; h->how = HK_MANAGED; h->id = 0; h->owned_id = id; h->is_box = 1;
        vh_op("%s held Box(id %" PRId64 ")", who, id);
      } else {
        int o = sweep_order(b, t);
        if (o < 0) { vh_count("garbage_pairs_owner_swept_before_owned"); }
        if (o > 0) { vh_count("garbage_pairs_owned_swept_before_owner"); }
        vh_op("%s garbage Box(id %" PRId64 ")", who, id);
        b = NULL;
      }
      t = NULL;
    } else if (roll < 60 && !w->stopped) {
      /* container of boxes: Array<Box> or List<Box>, garbage */
      var c = vh_chance(r, 50) ? (var)new(Array, Box) : (var)new(List, Box);
      int n = 1 + (int)vh_below(r, 6);
      for (int i = 0; i < n; i++) { int64_t id; var t = new_probe(r, HK_MANAGED, &id); push(c, $B(t)); }
      if (vh_chance(r, 30)) { while (len(c) > 1) { pop(c); } }     /* removing a Box element deletes what it owns */
      vh_op("%s garbage container of %d boxes", who, n);
      vh_count("containers_of_boxes");
      c = NULL;
    } else if (roll < 62 && !w->stopped) {
      family_case(r, who);
    } else if (roll < 64 && !w->stopped) {
      int pick = (int)vh_below(r, 4);
      if (pick == 0) { ring_case(r, who); } else if (pick == 1) { linked_roots_case(r, who); } else if (pick == 2) { tls_only_case(r, who); } else { root_tuple_case(r, who); }
    } else if (roll < 72) {
      if (h->p) { delete_held(h, w->stopped ? "-inside-stop-window" : ""); if (w->stopped) { vh_count("deletions_inside_stop_window"); } }
    } else if (roll < 80) {
      /* a collection may also be forced inside a stop window: it traces and sweeps what was registered while the
         collector ran (what is held stays, what was dropped goes); objects made inside the window are not its business */
      vh_op("%s collect%s", who, w->stopped ? " [stopped]" : "");
      if (w->stopped) { vh_count("forced_collections_inside_stop_window"); }
      collect_now();
    } else if (roll < 86) {
      /* garbage burst: threshold collections */
      if (!w->stopped) {
        int n = 20 + (int)vh_below(r, 60), spawners = 0;
        int with_spawners = vh_chance(r, 50);
        for (int i = 0; i < n; i++) {
          if (with_spawners && vh_chance(r, 60)) { var g = new_spawner(r); g = NULL; spawners++; }
          else { int64_t id; var g = new_probe(r, HK_MANAGED, &id); g = NULL; }
        }
        if (spawners) { vh_count_n("garbage_objects_whose_destructors_allocate", (uint64_t)spawners); }
        vh_op("%s garbage x%d (%d with allocating destructors)", who, n, spawners);
      }
    } else if (roll < 93) {
      if (!w->stopped) { STOP_GC(gc); w->stopped = 1; vh_op("%s stop", who); vh_count("stop_windows"); }
      else { START_GC(gc); w->stopped = 0; vh_op("%s start", who); }
    } else {
      /* drop a held managed object: it becomes garbage */
      if (h->p && h->how == HK_MANAGED) { h->p = NULL; h->how = HK_NONE; vh_op("%s drop", who); }
    }
  }
  if (w->stopped) { START_GC(gc); w->stopped = 0; }
}

/* end of a world: delete by hand what the API says must be deleted by hand; managed objects are left to teardown */
static void finish_world(struct world* w) {
  while (hidden_n > 0) {
    hidden_n--;
    int64_t id = hidden[hidden_n].id;
    vh_eval();
    if (mo_state[id] != MO_CONSTRUCTED) { vh_violation("C06:root:finalised-before-del_root", "root object id %" PRId64 " is in state %d although del_root was never called on it", id, mo_state[id]); continue; }
    del_root((var)(hidden[hidden_n].masked ^ HIDE_MASK));
    expect_released(id, "del_root-of-a-root-kept-off-the-stack");
  }
  for (int i = 0; i < HOLD; i++) {
    struct held* h = &w->h[i];
    if (h->p && (h->how == HK_ROOT || h->how == HK_RAW || h->how == HK_UNREGISTERED)) { delete_held(h, ""); }
    else { h->p = NULL; }
  }
}

static long check_all_released(int64_t from, int64_t to, const char* where) {
  long bad = 0;
  for (int64_t id = from; id < to; id++) {
    vh_eval();
    if (mo_state[id] != MO_RELEASED && mo_state[id] != MO_NONE) {
      bad++;
      char key[96];
      snprintf(key, sizeof key, "C06:teardown:%s:object-%s", where, mo_state[id] == MO_DESTRUCTED ? "finalised-but-not-released" : "never-finalised");
      vh_violation(key, "object id %" PRId64 " (%s) is in state %d after the collector of its thread was torn down", id,
                   spawn_role[id] == 0 ? "ordinary probe" : spawn_role[id] == 1 ? "an object whose destructor allocates" : "allocated by a destructor", mo_state[id]);
    }
  }
  return bad;
}

/* ---------- worker-thread teardown ---------- */

struct job { uint64_t seed; int nops; int64_t first_id, last_id; int garbage_left; int ended_stopped; };
static struct job JOB;

static var worker_fn(var args) {
  (void)args;
  mo_thread_index = 1;
  vh_rng r; vh_rng_seed(&r, JOB.seed);
  struct world w; memset(&w, 0, sizeof w);
  JOB.first_id = id_counter;
  run_ops(&r, &w, JOB.nops, "worker");
  /* leave live garbage and held managed objects behind on purpose */
  for (int i = 0; i < 10; i++) { int64_t id; var g = new_probe(&r, HK_MANAGED, &id); g = NULL; JOB.garbage_left++; }
  finish_world(&w);
  /* every third worker ends with its collector stopped: teardown still finalises what is registered */
  if (JOB.seed % 3 == 0) { STOP_GC(current(GC)); JOB.ended_stopped = 1; }
  JOB.last_id = id_counter;
  return NULL;
}

static void case_worker(vh_rng* r, int nops) {
  JOB.seed = vh_next(r); JOB.nops = nops; JOB.garbage_left = 0; JOB.ended_stopped = 0;
  var f = $(Function, worker_fn);
  var t = new(Thread, f);
  vh_op("worker thread ops=%d", nops);
  call(t);
  join(t);
  check_all_released(JOB.first_id, JOB.last_id, JOB.ended_stopped ? "worker-thread-that-ended-with-its-collector-stopped" : "worker-thread");
  vh_count("worker_teardowns_with_live_garbage");
  if (JOB.ended_stopped) { vh_count("teardowns_with_the_collector_stopped"); }
  del(t);
}

/* ---------- whole-process teardown in a forked child ---------- */

static int is_child;
static int64_t child_first;

static void __attribute__((destructor)) at_process_end(void) {
  if (!is_child) { return; }
  /* runs after the library's atexit handlers (Cello_Exit) */
  long bad = 0;
  for (int64_t id = child_first; id < id_counter; id++) {
    if (mo_state[id] != MO_RELEASED && mo_state[id] != MO_NONE) { bad++; }
  }
  _exit(bad == 0 ? 0 : (bad > 100 ? 109 : 9 + (int)(bad > 50)));
}

static void case_process(vh_rng* r, int nops) {
  fflush(NULL);
  vh_op("child process ops=%d", nops);
  pid_t pid = vh_fork();
  if (pid < 0) { vh_info("fork failed"); return; }
  if (pid == 0) {
    is_child = 1;
    if (vh.res) { int fd = fileno(vh.res); close(fd); vh.res = NULL; }
    child_first = id_counter;
    struct world w; memset(&w, 0, sizeof w);
    run_ops(r, &w, nops, "child");
    for (int i = 0; i < 10; i++) { int64_t id; var g = new_probe(r, HK_MANAGED, &id); g = NULL; }
    finish_world(&w);
    if (vh_chance(r, 35)) { STOP_GC(current(GC)); }      /* the program may end with its collector stopped */
    exit(vh.violations ? 8 : 0);     /* normal exit: atexit(Cello_Exit) tears the collector down */
  }
  int st = 0;
  waitpid(pid, &st, 0);
  vh_eval();
  if (WIFEXITED(st) && WEXITSTATUS(st) == 0) { vh_count("process_teardowns_with_live_garbage"); return; }
  if (WIFEXITED(st) && WEXITSTATUS(st) == 8) { vh_violation("C06:child:ledger-violation-in-child", "the child's mutator phase recorded a ledger violation (run the case with --case to see it)"); return; }
  if (WIFEXITED(st) && WEXITSTATUS(st) >= 9 && WEXITSTATUS(st) <= 110) {
    vh_violation("C06:teardown:main-thread:objects-left-behind", "objects were not finalised and released when the program exited (child status %d)", WEXITSTATUS(st));
    return;
  }
  if (VH_CHILD_HUNG(st)) { vh_violation("C06:hang:child-process", "the child process (mutator phase and program-exit teardown) used up its CPU budget without finishing"); return; }
  vh_violation("C06:teardown:main-thread:teardown-crashed", "child ended with raw status 0x%x", st);
}

/* ---------- cases ---------- */

static void __attribute__((noinline)) case_main_thread(vh_rng* r, int nops) {
  struct world w; memset(&w, 0, sizeof w);
  vh_op("main thread ops=%d", nops);
  run_ops(r, &w, nops, "main");
  finish_world(&w);
}

static void case_random(vh_rng* r, long index) {
  int nops = 30 + (int)vh_below(r, vh.thorough ? 300 : 120);
  switch (index % 3) {
    case 0: case_main_thread(r, nops); break;
    case 1: case_worker(r, nops); break;
    default: case_process(r, nops); break;
  }
  if (nops >= 20) { vh_nontrivial(); }
}

static void fixed(void) {
  /* the documented idiom: stop; new; del; start */
  struct GC* gc = current(GC);
  vh_rng r; vh_rng_seed(&r, 5);
  int64_t id;
  vh_op("stop; x = new; del(x); start");
  stop(gc);
  var x = new_probe(&r, HK_MANAGED, &id);
  del(x);
  start(gc);
  expect_released(id, "del-of-object-allocated-while-stopped-inside-stop-window");
  /* del of a registered object while the collector is stopped */
  vh.oplen = 0; vh.oplog[0] = 0; vh.nops = 0;
  vh_op("x = new; stop; del(x); start");
  x = new_probe(&r, HK_MANAGED, &id);
  stop(gc);
  del(x);
  start(gc);
  expect_released(id, "del-inside-stop-window");
  /* owner and owned both garbage, in both sweep orders */
  vh.oplen = 0; vh.oplog[0] = 0; vh.nops = 0;
  vh_op("200 garbage Box pairs; collect");
  int64_t first = id_counter;
  for (int i = 0; i < 200; i++) {
    var t = new_probe(&r, HK_MANAGED, &id);
    var b = new(Box, t);
    int o = sweep_order(b, t);
    if (o < 0) { vh_count("garbage_pairs_owner_swept_before_owned"); }
    if (o > 0) { vh_count("garbage_pairs_owned_swept_before_owner"); }
    t = NULL; b = NULL;
  }
  case_worker(&r, 60);
  vh.oplen = 0; vh.oplog[0] = 0; vh.nops = 0;
  case_process(&r, 60);
  (void)first;
}

int main(int argc, char** argv) {
  mo_prop = "C06";
  return vh_run(argc, argv, "lifecycle", fixed, case_random);
}
