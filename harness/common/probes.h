/*
** probes.h -- probe value types whose whole life cycle is observed by a ledger.
**
** PElem: container element type with its own constructor, Assign, destructor, Cmp and Hash.
**   birth  = construction, or first assignment into zeroed memory (how containers create elements)
**   death  = destructor
** Token ids are never reused; state is kept in a ledger indexed by token, so a second finalisation
** of the same element, a finalisation of memory that never held an element, and the number of live
** elements at any moment are all observable.  Size is a multiple of 8.
*/
#ifndef PROBES_H
#define PROBES_H

#include "vh.h"

struct PElem {
  int64_t id;        /* value identity (what Cmp compares) */
  uint64_t h;        /* what Hash returns (harness-chosen) */
  int64_t token;     /* ledger token, 0 = not a tracked element (stack keys) */
  void* cell;        /* heap memory owned by the element (LSan/ASan see leaks / double frees) */
  char pad[40];      /* the element is larger than any block a "clever" move might use (64 bytes) ... */
  int64_t tail;      /* ... and ends in a copy of its token and a second owned block: an internal move that */
  void* cell2;       /* transfers only part of an element leaves head and tail belonging to different elements */
};

enum { PE_UNBORN = 0, PE_LIVE = 1, PE_DEAD = 2 };

static const char* pe_prop = "C05";     /* property prefix of ledger violation keys */
static char pe_keybuf[96];
static const char* pe_key(const char* what) { snprintf(pe_keybuf, sizeof pe_keybuf, "%s:ledger:%s", pe_prop, what); return pe_keybuf; }

static struct {
  unsigned char* state;
  int64_t cap;
  int64_t next;          /* next token */
  int64_t live;
  int64_t births, deaths;
  int64_t double_final, dead_read, unborn_final;
} pe;

static void pe_grow(int64_t need) {
  if (need < pe.cap) { return; }
  int64_t ncap = pe.cap ? pe.cap * 2 : 4096;
  while (ncap <= need) { ncap *= 2; }
  pe.state = realloc(pe.state, (size_t)ncap);
  memset(pe.state + pe.cap, 0, (size_t)(ncap - pe.cap));
  pe.cap = ncap;
}

static void pe_birth(struct PElem* p) {
  if (pe.next == 0) { pe.next = 1; }
  pe_grow(pe.next + 1);
  p->token = pe.next++;
  p->cell = malloc(8);
  memcpy(p->cell, &p->token, 8);
  p->tail = p->token;
  p->cell2 = malloc(8);
  memcpy(p->cell2, &p->token, 8);
  pe.state[p->token] = PE_LIVE;
  pe.live++; pe.births++;
}

static bool pe_is_whole(const struct PElem* p) {
  return p->tail == p->token && p->cell2 != NULL && memcmp(p->cell2, &p->token, 8) == 0;
}

static bool pe_is_live(const struct PElem* p) {
  return p->token > 0 && p->token < pe.next && pe.state[p->token] == PE_LIVE && pe_is_whole(p);
}

static var PElem;

static void PElem_New(var self, var args) {
  struct PElem* p = self;
  p->id = len(args) > 0 ? c_int(get(args, $I(0))) : 0;
  p->h = len(args) > 1 ? (uint64_t)c_int(get(args, $I(1))) : (uint64_t)p->id;
  pe_birth(p);
}

static void PElem_Del(var self) {
  struct PElem* p = self;
  if (p->token <= 0 || p->token >= pe.next) {
    pe.unborn_final++;
    vh_violation(pe_key("finalised-memory-that-holds-no-element"), "destructor on token %" PRId64 " (id %" PRId64 ")", p->token, p->id);
    return;
  }
  if (pe.state[p->token] != PE_LIVE) {
    pe.double_final++;
    vh_violation(pe_key("element-finalised-twice"), "destructor on dead token %" PRId64 " (id %" PRId64 ")", p->token, p->id);
    return;
  }
  pe.state[p->token] = PE_DEAD;
  pe.live--; pe.deaths++;
  if (p->tail != p->token) {
    vh_violation(pe_key("element-torn-by-an-internal-move"), "the element with token %" PRId64 " ends in the tail of token %" PRId64 ": a move transferred only part of it", p->token, p->tail);
    free(p->cell); p->cell = NULL;
    return;            /* the second block belongs to whoever owns that tail */
  }
  free(p->cell);
  p->cell = NULL;
  free(p->cell2);
  p->cell2 = NULL;
}

static void PElem_Assign(var self, var obj) {
  struct PElem* p = self;
  struct PElem* o = cast(obj, PElem);
  if (p->token == 0 && p->cell == NULL) {
    pe_birth(p);                 /* first assignment into zeroed memory */
  } else if (p->token > 0 && p->token < pe.next && pe.state[p->token] == PE_LIVE && !pe_is_whole(p)) {
    vh_violation(pe_key("element-torn-by-an-internal-move"), "assign onto token %" PRId64 " whose tail belongs to token %" PRId64, p->token, p->tail);
  } else if (!pe_is_live(p)) {
    pe.dead_read++;
    vh_violation(pe_key("assignment-into-dead-element"), "assign onto token %" PRId64 " which is not live", p->token);
  }
  p->id = o->id;
  p->h = o->h;
}

static int PElem_Cmp(var self, var obj) {
  struct PElem* p = self;
  struct PElem* o = cast(obj, PElem);
  return (p->id > o->id) - (p->id < o->id);
}

static uint64_t PElem_Hash(var self) {
  struct PElem* p = self;
  return p->h;
}

static int64_t PElem_C_Int(var self) {
  struct PElem* p = self;
  return p->id;
}

static var PElem = Cello(PElem,
  Instance(New, PElem_New, PElem_Del),
  Instance(Assign, PElem_Assign),
  Instance(Cmp, PElem_Cmp),
  Instance(Hash, PElem_Hash),
  Instance(C_Int, PElem_C_Int));

static void probes_init(void) { }

/* a stack probe usable as lookup key / assignment source (never born, never finalised) */
#define PE_KEY(ID, H) $(PElem, (ID), (H), 0, NULL)

#endif
