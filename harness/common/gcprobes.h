/*
** gcprobes.h -- managed probe object types whose construction, finalisation and (for the variant
** with its own Alloc instance) allocation and release are recorded in a ledger.
**
**   PNode  plain struct, no Mark instance: its body is scanned conservatively
**   PMark  struct with its own Mark instance: pointers live in a malloc'd side array
**   PAddr  like PNode, but with its own Alloc instance: the harness chooses the address
**
** Life cycle: (allocated ->) constructed -> destructed (-> released).  Any repeated or backward
** transition is recorded as a violation.  In threaded harnesses each thread uses a disjoint id range.
*/
#ifndef GCPROBES_H
#define GCPROBES_H

#include "vh.h"
#include <sys/mman.h>
#include <pthread.h>

enum { MO_NONE = 0, MO_ALLOCATED = 1, MO_CONSTRUCTED = 2, MO_DESTRUCTED = 3, MO_RELEASED = 4 };
enum { MO_MAX = 1 << 24, PN_FIELDS = 4 };
#define MO_CANARY 0x5AFEC0DE5AFEC0DELL

struct PNode { int64_t id; var f[PN_FIELDS]; int64_t canary; };
struct PMark { int64_t id; var* slots; int64_t canary; };
struct PAddr { int64_t id; var f[PN_FIELDS]; int64_t canary; };

static unsigned char mo_state[MO_MAX];
static unsigned char mo_owner[MO_MAX];          /* creating thread index (threaded harnesses) */
static volatile int64_t mo_constructed, mo_destructed, mo_released, mo_allocated;
static const char* mo_prop = "C06";             /* property prefix of ledger violations */
static void (*mo_on_destruct)(var obj, int64_t id);   /* hook: runs inside the destructor */
static __thread int mo_thread_index;            /* which thread is running (0 = main) */
static volatile int64_t mo_foreign_finalisations;

static void mo_key(char* buf, size_t cap, const char* what) { snprintf(buf, cap, "%s:ledger:%s", mo_prop, what); }

static void mo_construct(int64_t id) {
  char k[96];
  if (id <= 0 || id >= MO_MAX) { return; }
  if (mo_state[id] != MO_NONE && mo_state[id] != MO_ALLOCATED) {
    mo_key(k, sizeof k, "constructed-twice"); vh_violation(k, "object id %" PRId64 " constructed in state %d", id, mo_state[id]);
  }
  mo_state[id] = MO_CONSTRUCTED;
  mo_owner[id] = (unsigned char)mo_thread_index;
  __sync_fetch_and_add(&mo_constructed, 1);
}

static int mo_destruct(int64_t id, int64_t canary) {
  char k[96];
  if (id <= 0 || id >= MO_MAX || canary != MO_CANARY) {
    mo_key(k, sizeof k, "finalised-memory-that-is-not-a-live-object");
    vh_violation(k, "destructor ran on id %" PRId64 " canary %" PRIx64, id, (uint64_t)canary);
    return 0;
  }
  if (mo_state[id] == MO_DESTRUCTED || mo_state[id] == MO_RELEASED) {
    mo_key(k, sizeof k, "finalised-twice"); vh_violation(k, "object id %" PRId64 " finalised again (state %d)", id, mo_state[id]);
    return 0;
  }
  if (mo_state[id] != MO_CONSTRUCTED) {
    mo_key(k, sizeof k, "finalised-without-construction"); vh_violation(k, "object id %" PRId64 " finalised in state %d", id, mo_state[id]);
    return 0;
  }
  if (mo_owner[id] != (unsigned char)mo_thread_index) {
    __sync_fetch_and_add(&mo_foreign_finalisations, 1);
    mo_key(k, sizeof k, "finalised-by-another-thread");
    vh_violation(k, "object id %" PRId64 " created by thread %d finalised on thread %d", id, mo_owner[id], mo_thread_index);
  }
  mo_state[id] = MO_DESTRUCTED;
  __sync_fetch_and_add(&mo_destructed, 1);
  return 1;
}

/* ---------- PNode ---------- */

static var PNode;
static void PNode_New(var self, var args) {
  struct PNode* p = self;
  p->id = c_int(get(args, $I(0)));
  p->canary = MO_CANARY;
  mo_construct(p->id);
}
static void PNode_Del(var self) {
  struct PNode* p = self;
  if (mo_on_destruct) { mo_on_destruct(self, p->id); }
  mo_destruct(p->id, p->canary);
  p->canary = 0;
}
static var PNode = Cello(PNode, Instance(New, PNode_New, PNode_Del));

/* ---------- PMark ---------- */

static var PMark;
static void PMark_New(var self, var args) {
  struct PMark* p = self;
  p->id = c_int(get(args, $I(0)));
  p->slots = calloc(PN_FIELDS, sizeof(var));
  p->canary = MO_CANARY;
  mo_construct(p->id);
}
static void PMark_Del(var self) {
  struct PMark* p = self;
  if (mo_on_destruct) { mo_on_destruct(self, p->id); }
  if (mo_destruct(p->id, p->canary)) { free(p->slots); p->slots = NULL; }
  p->canary = 0;
}
static volatile int64_t pmark_mark_calls;
static void PMark_Mark(var self, var gc, void(*f)(var, void*)) {
  struct PMark* p = self;
  pmark_mark_calls++;
  if (p->slots == NULL) { return; }
  for (int i = 0; i < PN_FIELDS; i++) { if (p->slots[i]) { f(gc, p->slots[i]); } }
}
static var PMark = Cello(PMark, Instance(New, PMark_New, PMark_Del), Instance(Mark, PMark_Mark));

/* ---------- PAddr: own Alloc instance, harness-chosen addresses ---------- */

enum { PA_SLOTS = 96 };
/* stride: 8 * (5*11*23*53*101): (address >> 3) is a multiple of every registry size up to 101 */
#define PA_STRIDE ((size_t)8 * 5 * 11 * 23 * 53 * 101)
static char* pa_arena;
static unsigned char pa_used[PA_SLOTS];
static int pa_next_slot = -1;          /* slot the next alloc must use (-1: first free) */
static int pa_last_slot;
static int pa_offset_mode;             /* 0: hash lands on slot 0 of the registry, 1: on the last slot (probe wrap-around) */
static volatile int64_t pa_allocs, pa_releases;

static void pa_init(void) {
  if (pa_arena) { return; }
  size_t bytes = PA_STRIDE * (PA_SLOTS + 2);
  char* m = mmap(NULL, bytes, PROT_READ | PROT_WRITE, MAP_PRIVATE | MAP_ANONYMOUS | MAP_NORESERVE, -1, 0);
  if (m == MAP_FAILED) { perror("mmap arena"); exit(2); }
  /* align so that (self >> 3) % p == 0 for every p dividing the stride / 8 */
  uintptr_t a = ((uintptr_t)m + PA_STRIDE - 1) / PA_STRIDE * PA_STRIDE;
  pa_arena = (char*)a;
}

static var PAddr;
static var PAddr_Alloc(void) {
  pa_init();
  int s = pa_next_slot;
  if (s < 0) { for (s = 0; s < PA_SLOTS && pa_used[s]; s++) {} }
  if (s >= PA_SLOTS || pa_used[s]) { fprintf(stderr, "PAddr arena exhausted\n"); exit(2); }
  pa_used[s] = 1; pa_last_slot = s; pa_next_slot = -1;
  /* self at a multiple of the stride (mode 0) or 8 bytes below one (mode 1: hash = -1 mod p = last slot) */
  char* self = pa_arena + PA_STRIDE * (size_t)(s + 1) - (pa_offset_mode ? 8 : 0);
  struct Header* head = (struct Header*)(self - sizeof(struct Header));
  memset(head, 0, sizeof(struct Header) + sizeof(struct PAddr));
  __sync_fetch_and_add(&pa_allocs, 1);
  return header_init(head, PAddr, AllocHeap);
}
static void PAddr_Dealloc(var self) {
  char k[96];
  size_t off = (size_t)((char*)self - pa_arena);
  int s = (int)((off + 8) / PA_STRIDE) - 1;
  struct PAddr* p = self;
  if (s < 0 || s >= PA_SLOTS || !pa_used[s]) {
    mo_key(k, sizeof k, "released-twice-or-never-allocated"); vh_violation(k, "dealloc of arena slot %d which is not in use", s);
    return;
  }
  int64_t id = p->id;
  if (id > 0 && id < MO_MAX) {
    if (mo_state[id] != MO_DESTRUCTED) { mo_key(k, sizeof k, "released-without-finalisation"); vh_violation(k, "object id %" PRId64 " released in state %d", id, mo_state[id]); }
    mo_state[id] = MO_RELEASED;
  }
  pa_used[s] = 0;
  __sync_fetch_and_add(&pa_releases, 1);
  __sync_fetch_and_add(&mo_released, 1);
  memset((char*)self - sizeof(struct Header), 0xDD, sizeof(struct Header) + sizeof(struct PAddr));
}
static void PAddr_New(var self, var args) {
  struct PAddr* p = self;
  p->id = c_int(get(args, $I(0)));
  p->canary = MO_CANARY;
  mo_construct(p->id);
}
static void PAddr_Del(var self) {
  struct PAddr* p = self;
  if (mo_on_destruct) { mo_on_destruct(self, p->id); }
  mo_destruct(p->id, p->canary);
}
static var PAddr = Cello(PAddr, Instance(Alloc, PAddr_Alloc, PAddr_Dealloc), Instance(New, PAddr_New, PAddr_Del));

/* embedded element holding a pointer (no constructor, no Mark: scanned as part of its container) */
/* the reference is NOT in the first word, and the first word is zero for every other element: a scan of an embedded
   element must cover all of it, whatever its first word looks like */
struct PEmb { int64_t tag; var p; int64_t tail; };
static var PEmb = Cello(PEmb);

#endif
