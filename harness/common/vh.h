/*
** vh.h -- shared runtime-monitor scaffolding for every Cello harness.
**
** One harness = one translation unit that includes this file once.
**
** Output protocol (one record per line, written to <out>/shard-<i>.res):
**   V <key> <case> <detail...>     an oracle failed (violation key, no seeds/addresses in key)
**   C <name> <n>                   reached-event counter (summed by the driver)
**   H <hex64> <0|1>                hash of a case's operation sequence, non-trivial flag
**   S <text>                       sample case written out
**   E <n>                          oracle evaluations performed
**   I <text>                       informational
**   DONE                           shard finished normally
** Progress (<out>/shard-<i>.prog): "case <k> <seed> <label>" rewritten before each case so that
** a crash / sanitizer abort / CPU budget exit can be attributed.
*/
#ifndef VH_H
#define VH_H

#include <unistd.h>
#include <fcntl.h>
#include <sys/time.h>
#include <sys/wait.h>
#include <inttypes.h>
#include <sched.h>
#include <pthread.h>
#include "Cello.h"

/* ---------- PRNG: splitmix64 -> xoshiro256** ---------- */

typedef struct { uint64_t s[4]; } vh_rng;

static uint64_t vh_splitmix(uint64_t* x) {
  uint64_t z = (*x += 0x9E3779B97F4A7C15ULL);
  z = (z ^ (z >> 30)) * 0xBF58476D1CE4E5B9ULL;
  z = (z ^ (z >> 27)) * 0x94D049BB133111EBULL;
  return z ^ (z >> 31);
}

static void vh_rng_seed(vh_rng* r, uint64_t seed) {
  uint64_t x = seed;
  for (int i = 0; i < 4; i++) { r->s[i] = vh_splitmix(&x); }
}

static uint64_t vh_rotl(uint64_t x, int k) { return (x << k) | (x >> (64 - k)); }

static uint64_t vh_next(vh_rng* r) {
  uint64_t* s = r->s;
  uint64_t result = vh_rotl(s[1] * 5, 7) * 9;
  uint64_t t = s[1] << 17;
  s[2] ^= s[0]; s[3] ^= s[1]; s[1] ^= s[2]; s[0] ^= s[3];
  s[2] ^= t; s[3] = vh_rotl(s[3], 45);
  return result;
}

/* uniform in [0, n) ; n > 0 */
static uint64_t vh_below(vh_rng* r, uint64_t n) { return vh_next(r) % n; }
/* uniform in [lo, hi] */
static int64_t vh_range(vh_rng* r, int64_t lo, int64_t hi) {
  return lo + (int64_t)vh_below(r, (uint64_t)(hi - lo) + 1);
}
static int vh_chance(vh_rng* r, int percent) { return (int)vh_below(r, 100) < percent; }

static uint64_t vh_mix3(uint64_t a, uint64_t b, uint64_t c) {
  uint64_t x = a * 0x9E3779B97F4A7C15ULL + 0x1234567;
  x ^= vh_splitmix(&x) + b * 0xC2B2AE3D27D4EB4FULL;
  x ^= vh_splitmix(&x) + c * 0x165667B19E3779F9ULL;
  return vh_splitmix(&x);
}

/* ---------- global run state ---------- */

enum { VH_MAX_COUNTERS = 256, VH_OPLOG = 1400, VH_MAX_V_PER_KEY = 5, VH_MAX_KEYS = 64 };

struct vh_counter { const char* name; uint64_t n; };

static struct {
  uint64_t seed;
  int shard, nshards;
  long cases;
  int thorough;
  int replay_case;         /* >=0: run only this case index */
  long from_case;          /* skip cases below this index (restart after a crash) */
  int replay_fixed;        /* 1: run only the fixed part */
  const char* outdir;
  FILE* res;
  int progfd;
  /* per case */
  long case_index;
  uint64_t case_seed;
  const char* case_label;
  uint64_t case_hash;
  int case_nontrivial;
  char oplog[VH_OPLOG];
  size_t oplen;
  long nops;
  /* totals */
  uint64_t evals;
  long violations;
  struct vh_counter counters[VH_MAX_COUNTERS];
  int ncounters;
  struct { char key[160]; int n; } vkeys[VH_MAX_KEYS];
  int nvkeys;
  int samples_left;
  long cpu_budget_s;
} vh;

static void vh_count_n(const char* name, uint64_t n) {
  for (int i = 0; i < vh.ncounters; i++) {
    if (vh.counters[i].name == name || strcmp(vh.counters[i].name, name) == 0) {
      vh.counters[i].n += n; return;
    }
  }
  if (vh.ncounters < VH_MAX_COUNTERS) {
    vh.counters[vh.ncounters].name = name;
    vh.counters[vh.ncounters].n = n;
    vh.ncounters++;
  }
}
#define vh_count(name) vh_count_n(name, 1)
#define vh_eval() (vh.evals++)
#define vh_evals(n) (vh.evals += (uint64_t)(n))

/* record one operation of the current case: hashed (distinctness) and kept (samples) */
static void vh_op(const char* fmt, ...) __attribute__((format(printf, 1, 2)));
static void vh_op(const char* fmt, ...) {
  char buf[256];
  va_list va; va_start(va, fmt);
  int n = vsnprintf(buf, sizeof buf, fmt, va);
  va_end(va);
  if (n < 0) { return; }
  if (n >= (int)sizeof buf) { n = (int)sizeof buf - 1; }
  for (int i = 0; i < n; i++) {
    vh.case_hash = (vh.case_hash ^ (unsigned char)buf[i]) * 0x100000001B3ULL;
  }
  vh.case_hash = (vh.case_hash ^ 0xFF) * 0x100000001B3ULL;
  vh.nops++;
  if (vh.oplen + (size_t)n + 2 < VH_OPLOG) {
    if (vh.oplen) { vh.oplog[vh.oplen++] = ';'; vh.oplog[vh.oplen++] = ' '; }
    memcpy(vh.oplog + vh.oplen, buf, (size_t)n);
    vh.oplen += (size_t)n;
    vh.oplog[vh.oplen] = 0;
  }
}

static void vh_nontrivial(void) { vh.case_nontrivial = 1; }

static void vh_sanitize_line(char* s) {
  for (; *s; s++) { if (*s == '\n' || *s == '\r') { *s = ' '; } }
}

/* report an oracle failure; key has no seeds or addresses (safe to call from worker threads) */
static pthread_mutex_t vh_mu = PTHREAD_MUTEX_INITIALIZER;
static void vh_violation_locked(const char* key, const char* buf);
static void vh_violation(const char* key, const char* fmt, ...) __attribute__((format(printf, 2, 3)));
static void vh_violation(const char* key, const char* fmt, ...) {
  char buf[900];
  va_list va; va_start(va, fmt);
  vsnprintf(buf, sizeof buf, fmt, va);
  va_end(va);
  pthread_mutex_lock(&vh_mu);
  vh_violation_locked(key, buf);
  pthread_mutex_unlock(&vh_mu);
}
static void vh_violation_locked(const char* key, const char* msg) {
  char buf[900];
  snprintf(buf, sizeof buf, "%s", msg);
  vh.violations++;
  int k;
  for (k = 0; k < vh.nvkeys; k++) { if (strcmp(vh.vkeys[k].key, key) == 0) { break; } }
  if (k == vh.nvkeys) {
    if (vh.nvkeys == VH_MAX_KEYS) { return; }
    snprintf(vh.vkeys[k].key, sizeof vh.vkeys[k].key, "%s", key);
    vh.vkeys[k].n = 0; vh.nvkeys++;
  }
  if (vh.vkeys[k].n++ >= VH_MAX_V_PER_KEY) { return; }
  vh_sanitize_line(buf);
  if (vh.res) {
    fprintf(vh.res, "V %s %s:%ld:%" PRIu64 " %s | ops(%ld): %s\n", key,
      vh.case_label ? vh.case_label : "-", vh.case_index, vh.case_seed, buf, vh.nops, vh.oplog);
    fflush(vh.res);
  }
}

#define VH_CHECK(cond, key, ...) do { vh.evals++; if (!(cond)) { vh_violation(key, __VA_ARGS__); } } while (0)

static void vh_info(const char* fmt, ...) __attribute__((format(printf, 1, 2)));
static void vh_info(const char* fmt, ...) {
  char buf[900];
  va_list va; va_start(va, fmt);
  vsnprintf(buf, sizeof buf, fmt, va);
  va_end(va);
  vh_sanitize_line(buf);
  if (vh.res) { fprintf(vh.res, "I %s\n", buf); fflush(vh.res); }
}

/* free-form sample line (used by harnesses whose cases are not op lists) */
static void vh_sample(const char* fmt, ...) __attribute__((format(printf, 1, 2)));
static void vh_sample(const char* fmt, ...) {
  if (vh.samples_left <= 0 || !vh.res) { return; }
  vh.samples_left--;
  char buf[1500];
  va_list va; va_start(va, fmt);
  vsnprintf(buf, sizeof buf, fmt, va);
  va_end(va);
  vh_sanitize_line(buf);
  fprintf(vh.res, "S %s\n", buf); fflush(vh.res);
}

/* ---------- CPU-time budget ---------- */

static void vh_budget_handler(int sig) {
  (void)sig;
  static const char msg[] = "\nBUDGET\n";
  if (vh.progfd >= 0) { ssize_t r = write(vh.progfd, msg, sizeof msg - 1); (void)r; }
  _exit(3);
}

static void vh_budget_arm(long seconds) {
  struct itimerval it;
  memset(&it, 0, sizeof it);
  it.it_value.tv_sec = seconds;
  signal(SIGVTALRM, vh_budget_handler);
  setitimer(ITIMER_VIRTUAL, &it, NULL);
}

/* fork for harnesses: interval timers are not inherited, so the child gets a CPU budget of its own (the per-case budget);
   a child that spins for ever ends with exit status 3, which the parent reports as a hang of that child */
static pid_t vh_fork(void) {
  pid_t pid = fork();
  if (pid == 0) { vh.progfd = -1; vh_budget_arm(vh.cpu_budget_s > 0 ? vh.cpu_budget_s : 60); }
  return pid;
}
#define VH_CHILD_HUNG(st) (WIFEXITED(st) && WEXITSTATUS(st) == 3)

/* ---------- case bookkeeping ---------- */

static void vh_progress(const char* what) {
  if (vh.progfd < 0) { return; }
  char buf[256];
  int n = snprintf(buf, sizeof buf, "case %ld %" PRIu64 " %s %s\n",
    vh.case_index, vh.case_seed, vh.case_label ? vh.case_label : "-", what);
  if (lseek(vh.progfd, 0, SEEK_SET) == 0) {
    if (ftruncate(vh.progfd, 0) == 0) { ssize_t r = write(vh.progfd, buf, (size_t)n); (void)r; }
  }
}

static void vh_case_begin(const char* label, long index, uint64_t seed) {
  vh.case_label = label; vh.case_index = index; vh.case_seed = seed;
  vh.case_hash = 0xCBF29CE484222325ULL; vh.case_nontrivial = 0;
  vh.oplen = 0; vh.oplog[0] = 0; vh.nops = 0;
  vh_progress("begin");
  vh_budget_arm(vh.cpu_budget_s);
}

static void vh_case_end(void) {
  if (vh.res) {
    fprintf(vh.res, "H %016" PRIx64 " %d\n", vh.case_hash, vh.case_nontrivial);
    if (vh.samples_left > 0 && vh.shard == 0 && vh.oplen > 0) {
      vh.samples_left--;
      fprintf(vh.res, "S %s#%ld: %s%s\n", vh.case_label, vh.case_index, vh.oplog,
        vh.nops > 0 && vh.oplen + 300 > VH_OPLOG ? " ...(truncated)" : "");
    }
  }
  if (vh.res) { fflush(vh.res); }
  vh_progress("end");
}

static void vh_finish(void) {
  if (!vh.res) { return; }
  for (int i = 0; i < vh.ncounters; i++) {
    fprintf(vh.res, "C %s %" PRIu64 "\n", vh.counters[i].name, vh.counters[i].n);
  }
  fprintf(vh.res, "E %" PRIu64 "\n", vh.evals);
  fprintf(vh.res, "DONE\n");
  fflush(vh.res);
}

static void vh_usage(void) {
  fprintf(stderr, "usage: harness --out DIR [--seed S] [--shard i/n] [--cases N] [--thorough] "
                  "[--case K] [--fixed-only]\n");
  exit(2);
}

static void vh_init(int argc, char** argv) {
  vh.seed = 1; vh.shard = 0; vh.nshards = 1; vh.cases = 10; vh.thorough = 0;
  vh.replay_case = -1; vh.from_case = -1; vh.replay_fixed = 0; vh.outdir = NULL; vh.progfd = -1;
  vh.samples_left = 3; vh.cpu_budget_s = 60;
  for (int i = 1; i < argc; i++) {
    if (!strcmp(argv[i], "--seed") && i+1 < argc) { vh.seed = strtoull(argv[++i], NULL, 10); }
    else if (!strcmp(argv[i], "--shard") && i+1 < argc) {
      if (sscanf(argv[++i], "%d/%d", &vh.shard, &vh.nshards) != 2) { vh_usage(); }
    }
    else if (!strcmp(argv[i], "--cases") && i+1 < argc) { vh.cases = atol(argv[++i]); }
    else if (!strcmp(argv[i], "--thorough")) { vh.thorough = 1; }
    else if (!strcmp(argv[i], "--case") && i+1 < argc) { vh.replay_case = atoi(argv[++i]); }
    else if (!strcmp(argv[i], "--fixed-only")) { vh.replay_fixed = 1; }
    else if (!strcmp(argv[i], "--from") && i+1 < argc) { vh.from_case = atol(argv[++i]); }
    else if (!strcmp(argv[i], "--out") && i+1 < argc) { vh.outdir = argv[++i]; }
    else if (!strcmp(argv[i], "--budget") && i+1 < argc) { vh.cpu_budget_s = atol(argv[++i]); }
    else { vh_usage(); }
  }
  if (!vh.outdir) { vh_usage(); }
  char path[512];
  snprintf(path, sizeof path, "%s/shard-%d.res", vh.outdir, vh.shard);
  vh.res = fopen(path, vh.from_case >= 0 ? "a" : "w");
  if (!vh.res) { perror(path); exit(2); }
  snprintf(path, sizeof path, "%s/shard-%d.prog", vh.outdir, vh.shard);
  vh.progfd = open(path, O_CREAT | O_TRUNC | O_WRONLY, 0644);
  if (vh.progfd < 0) { perror(path); exit(2); }
  setvbuf(stdout, NULL, _IONBF, 0);
}

/*
** Standard driver: fixed part (shard 0 only: deterministic grids, dedicated reproducers of open
** findings) then `cases` generated cases.  Case k of shard i derives its PRNG state from
** (seed, i, k) only, so a single case can be replayed alone.
*/
typedef void (*vh_case_fn)(vh_rng* r, long index);
typedef void (*vh_fixed_fn)(void);

static int vh_run(int argc, char** argv, const char* label, vh_fixed_fn fixed, vh_case_fn run) {
  vh_init(argc, argv);
  if (fixed && vh.shard == 0 && vh.replay_case < 0 && vh.from_case < 0) {
    vh_case_begin("fixed", -1, 0);
    fixed();
    vh_progress("end");
  }
  if (run && !vh.replay_fixed) {
    for (long k = 0; k < vh.cases; k++) {
      if (vh.replay_case >= 0 && k != vh.replay_case) { continue; }
      if (k < vh.from_case) { continue; }
      uint64_t cs = vh_mix3(vh.seed, (uint64_t)vh.shard, (uint64_t)k);
      vh_rng r; vh_rng_seed(&r, cs);
      vh_case_begin(label, k, cs);
      run(&r, k);
      vh_case_end();
    }
  }
  vh_finish();
  return 0;
}

/* ---------- exception capture ---------- */

/*
** VH_CATCH(stmt, excvar): run stmt in a try block; excvar receives the thrown object or NULL.
** Harnesses never nest these, so they stay correct independently of C07.
*/
#define VH_CATCH(stmt, excvar) do { \
    (excvar) = NULL; \
    size_t vh__d0 = len(current(Exception)); \
    try { stmt; } catch (vh__e) { (excvar) = vh__e; } \
    size_t vh__d1 = len(current(Exception)); \
    if (vh__d0 != vh__d1) { vh_violation("exception:depth-changed", "depth %zu -> %zu", vh__d0, vh__d1); } \
  } while (0)

static const char* vh_exc_name(var e) {
  if (e == NULL) { return "none"; }
  return c_str(e);
}

/* expect no exception from stmt */
#define VH_NOTHROW(stmt, key) do { \
    var vh__x; VH_CATCH(stmt, vh__x); vh.evals++; \
    if (vh__x != NULL) { vh_violation(key, "unexpected %s from %s", vh_exc_name(vh__x), #stmt); } \
  } while (0)

/* expect exception E from stmt */
#define VH_THROWS(stmt, E, key) do { \
    var vh__x; VH_CATCH(stmt, vh__x); vh.evals++; \
    if (vh__x != (E)) { vh_violation(key, "expected %s got %s from %s", vh_exc_name(E), vh_exc_name(vh__x), #stmt); } \
  } while (0)

#endif
