/*
** gcsim.c -- mutator with a shadow heap, shared by C01 (reachable objects are never reclaimed)
** and C17 (the registry is exactly the set of live managed objects).   --prop selects the oracles.
**
** The shadow graph records every edge the mutator creates through the API (holder -> target).
** After every operation the set R of objects the shadow graph reaches from the shadow roots is
** recomputed and every member must be alive: ledger state, mem(gc, p), canary and contents read back.
** The oracle is one-directional: retaining garbage is never reported.  Nodes that become unreachable
** are forgotten at once (the next allocation may collect them legitimately) and never touched again.
**
** Unity-includes GC.c for struct GC (white-box registry walker; derived quantities recomputed here).
*/
#include "gcprobes.h"
#include "GC.c"

enum { NK_PNODE, NK_PMARK, NK_PADDR, NK_REF, NK_BOX, NK_ARR_REF, NK_LIST_REF, NK_ARR_EMB, NK_TAB_INT_REF,
       NK_TAB_REF_REF, NK_TREE_INT_REF, NK_TREE_REF_REF, NK_TUPLE, NK_THREAD, NK_COUNT };
static const char* NKNAME[NK_COUNT] = { "struct", "struct+Mark", "struct@addr", "Ref", "Box", "Array<Ref>", "List<Ref>",
  "Array<struct>", "Table<Int,Ref>", "Table<Ref,Ref>", "Tree<Int,Ref>", "Tree<Ref,Ref>", "Tuple", "Thread-not-started" };

enum { MAXNODES = 1500000, NROOTS = 8, NTLS = 4, MAXITEMS = 1200 };

struct snode {
  int kind;
  var ptr;
  int64_t id;            /* ledger id for probe kinds, 0 otherwise */
  int alive;             /* 1: tracked and reachable in the shadow graph; 0: forgotten */
  int boxed;             /* owned by a Box: exactly one incoming edge, never linked from elsewhere */
  int is_root;           /* allocated with new_root */
  int f[PN_FIELDS];      /* struct kinds / Ref / Box (f[0]) : target node or -1 */
  int n;                 /* container kinds: number of entries */
  int* items;            /* target node per entry */
  int64_t* keys;         /* map kinds: Int key value, or key node index for Ref-keyed maps */
  int wide;              /* Tree<Int,...> only: values are Pair2 {target, target} (wider than the key) instead of Ref */
  int seen;              /* BFS mark */
  int nin;               /* object slots that point at this node, including slots of forgotten (garbage) holders */
};

static struct snode* N;
static int nn;
static var* ROOTS;                   /* points at an array in a live stack frame */
static int root_node[NROOTS];        /* shadow of the stack slots */
static int tls_node[NTLS];
static const char* TLSKEY[NTLS] = { "vh-r0", "vh-r1", "vh-r2", "vh-r3" };
static int64_t next_id = 1;
static const char* PROP = "C01";
static int check_c01 = 1, check_c17 = 0;
static struct GC* gc;
static int in_collection;

static char keybuf[128];
static const char* K(const char* what) { snprintf(keybuf, sizeof keybuf, "%s:%s", PROP, what); return keybuf; }

/* NK_THREAD: a Thread object that was created and not started; what set(t, key, x) puts into its storage is held by
   the Thread object (its Mark instance hands the storage to the collector).  Four keys = four slots. */
static int is_struct_kind(int k) { return k == NK_PNODE || k == NK_PMARK || k == NK_PADDR || k == NK_THREAD; }
static const char* THKEY[PN_FIELDS] = { "slot-a", "slot-b", "slot-c", "slot-d" };
static var noop_fn;
static var thread_template;
static var thread_noop(var args) { (void)args; return NULL; }
static int is_seq_kind(int k) { return k == NK_ARR_REF || k == NK_LIST_REF || k == NK_ARR_EMB || k == NK_TUPLE; }
static int is_map_kind(int k) { return k >= NK_TAB_INT_REF && k <= NK_TREE_REF_REF; }
static int is_refkey_map(int k) { return k == NK_TAB_REF_REF || k == NK_TREE_REF_REF; }

/* ---------- registered-object shadow set (C17) ---------- */

enum { RS_CAP = 1 << 18 };
struct rs_entry { var ptr; int root; int state; int probe_id; };   /* state 1: allocated and not known dead; 2: known dead */
static struct rs_entry* RS;
static int64_t rs_live;    /* entries with state 1 */
static size_t* rs_used; static size_t rs_nused;

static size_t rs_slot(var p) {
  size_t i = ((uintptr_t)p >> 3) * 0x9E3779B97F4A7C15ULL >> 46;
  while (RS[i].ptr != NULL && RS[i].ptr != p) { i = (i + 1) & (RS_CAP - 1); }
  return i;
}
static void rs_add(var p, int root, int probe_id) {
  if (!check_c17) { return; }
  size_t i = rs_slot(p);
  if (RS[i].ptr == NULL) { if (rs_nused >= RS_CAP / 2) { fprintf(stderr, "registered-object shadow set full\n"); exit(2); } rs_used[rs_nused++] = i; }
  if (RS[i].ptr == NULL || RS[i].state == 2) { rs_live++; }
  RS[i].ptr = p; RS[i].root = root; RS[i].state = 1; RS[i].probe_id = probe_id;
}
static void rs_dead(var p) {
  if (!check_c17) { return; }
  size_t i = rs_slot(p);
  if (RS[i].ptr == p && RS[i].state == 1) { RS[i].state = 2; rs_live--; }
}
static struct rs_entry* rs_find(var p) { size_t i = rs_slot(p); return RS[i].ptr == p ? &RS[i] : NULL; }
/* between cases: keep the harness's own record of every object that survived (garbage the conservative
   collector retained), forget everything else */
static void rs_reset(void) {
  if (!check_c17) { return; }
  static struct rs_entry* keep; static size_t nkeep, capkeep;
  nkeep = 0;
  for (size_t k = 0; k < rs_nused; k++) {
    struct rs_entry* r = &RS[rs_used[k]];
    if (r->ptr != NULL && r->state == 1 && mem(current(GC), r->ptr)) {
      if (nkeep == capkeep) { capkeep = capkeep ? capkeep * 2 : 256; keep = realloc(keep, capkeep * sizeof *keep); }
      keep[nkeep++] = *r;
    }
  }
  for (size_t k = 0; k < rs_nused; k++) { memset(&RS[rs_used[k]], 0, sizeof(struct rs_entry)); }
  rs_nused = 0; rs_live = 0;
  for (size_t k = 0; k < nkeep; k++) { rs_add(keep[k].ptr, keep[k].root, keep[k].probe_id); }
}

/* ---------- white-box registry walker (reads only) ---------- */

static int wb_walks, wb_in_sweep_walks;

static void registry_walk(const char* when) {
  if (!check_c17) { return; }
  wb_walks++;
  vh_evals(4);
  size_t occupied = 0;
  if (gc->nslots == 0) {
    if (gc->nitems != 0) { vh_violation(K("registry:count"), "nitems=%zu with no slots (%s)", gc->nitems, when); }
    return;
  }
  for (size_t i = 0; i < gc->nslots; i++) {
    struct GCEntry* e = &gc->entries[i];
    if (e->hash == 0) { continue; }
    occupied++;
    uint64_t home = ((uintptr_t)e->ptr >> 3) % gc->nslots;
    if (e->hash - 1 != home) { vh_violation(K("registry:stored-home-wrong"), "slot %zu stores home %" PRIu64 ", address gives %" PRIu64 " (%s)", i, e->hash - 1, home, when); continue; }
    uint64_t d = (i + gc->nslots - home) % gc->nslots;
    if (i < home) { vh_count("registry_wrapped_entries"); }
    if (d > 0) {
      size_t prev = (i + gc->nslots - 1) % gc->nslots;
      struct GCEntry* pe_ = &gc->entries[prev];
      if (pe_->hash == 0) { vh_violation(K("registry:gap-before-displaced-entry"), "slot %zu at distance %" PRIu64 " after an empty slot (%s)", i, d, when); }
      else {
        uint64_t pd = (prev + gc->nslots - (pe_->hash - 1)) % gc->nslots;
        if (pd + 1 < d) { vh_violation(K("registry:probe-order"), "slot %zu at distance %" PRIu64 " follows distance %" PRIu64 " (%s)", i, d, pd, when); }
      }
      if (d >= 2) { vh_count("registry_entries_displaced_2_or_more"); }
    }
    if ((uintptr_t)e->ptr < gc->minptr || (uintptr_t)e->ptr > gc->maxptr) {
      vh_violation(K("registry:pointer-outside-min-max"), "entry %p outside [%p,%p] (%s)", e->ptr, (void*)gc->minptr, (void*)gc->maxptr, when);
    }
    if (e->marked && !in_collection) { vh_violation(K("registry:mark-bit-left-set"), "entry %p still marked outside a collection (%s)", e->ptr, when); }
    struct rs_entry* r = rs_find(e->ptr);
    if (r == NULL) { vh_violation(K("registry:unknown-pointer"), "registry holds %p which the harness never allocated (%s)", e->ptr, when); }
    else {
      if (r->state == 2) { vh_violation(K("registry:holds-deleted-or-reclaimed-object"), "registry still holds %p (probe id %d) which was deleted or reclaimed (%s)", e->ptr, r->probe_id, when); }
      if ((r->root != 0) != (e->root != 0)) { vh_violation(K("registry:root-flag"), "%p allocated with root=%d recorded with root=%d (%s)", e->ptr, r->root, (int)e->root, when); }
    }
    /* duplicates: an equal pointer further along the same cluster */
    for (size_t j = (i + 1) % gc->nslots, steps = 0; gc->entries[j].hash != 0 && steps < 64; j = (j + 1) % gc->nslots, steps++) {
      if (gc->entries[j].ptr == e->ptr) { vh_violation(K("registry:duplicate-entry"), "%p recorded twice (%s)", e->ptr, when); break; }
    }
  }
  if (occupied != gc->nitems) { vh_violation(K("registry:count"), "%zu occupied slots, nitems=%zu (%s)", occupied, gc->nitems, when); }
  if (gc->nitems >= gc->nslots) { vh_violation(K("registry:no-empty-slot"), "nitems=%zu nslots=%zu (%s)", gc->nitems, gc->nslots, when); }
}

/* every probe that is constructed and not finalised must be registered; every finalised / deleted one must not */
static void registry_vs_ledger(const char* when) {
  if (!check_c17) { return; }
  for (size_t k = 0; k < rs_nused; k++) {
    struct rs_entry* r = &RS[rs_used[k]];
    if (r->ptr == NULL) { continue; }
    vh_eval();
    if (r->state == 2) {
      if (mem(gc, r->ptr)) { vh_violation(K("registry:mem-true-for-deleted-object"), "mem(gc,%p) holds for a deleted or reclaimed object (%s)", r->ptr, when); }
    } else if (r->probe_id > 0 && mo_state[r->probe_id] == MO_CONSTRUCTED) {
      if (!mem(gc, r->ptr)) { vh_violation(K("registry:live-probe-not-registered"), "probe id %d is constructed and not finalised but mem(gc,%p) is false (%s)", r->probe_id, r->ptr, when); }
    }
  }
}

/* in a third of the cases the probe destructors allocate: one object that is dropped and one that is deleted by
   hand at once -- insertions (growth) and removals in the registry while a sweep is finalising its list */
static int destructors_allocate;
static int harness_stopped;          /* the harness's own stop window (the destructor goes by what the program did, not by what the collector says) */
static void on_destruct(var obj, int64_t id) {
  (void)id;
  rs_dead(obj);
  if (destructors_allocate && !harness_stopped && (struct GC*)current(GC) == gc) {          /* (not while a worker's collector is torn down: gc is the main thread's again by then) */
    /* (during a forced or threshold collection, and during an explicit del alike) */
    var kept = new(Int, $I(id)); rs_add(kept, 0, 0);
    if (check_c17) { vh_eval(); if (!mem(gc, kept)) { vh_violation(K("registry:object-allocated-by-a-destructor-not-registered"), "an object allocated by a destructor (%s) is not in the registry", in_collection ? "during a forced collection" : "during an explicit deletion or a threshold collection"); } }
    kept = NULL;
    var temp = new(Int, $I(-id)); rs_add(temp, 0, 0); rs_dead(temp); del(temp);
    vh_count(in_collection ? "allocations_made_by_destructors_during_a_sweep" : "allocations_made_by_destructors_outside_forced_collections");
  }
  if (check_c17 && in_collection) {
    /* removals while a sweep is in progress: the registry must be consistent right now */
    wb_in_sweep_walks++;
    vh_count("registry_walks_inside_sweep");
    registry_walk("inside a destructor during a sweep");
    vh_eval();
    if (mem(gc, obj)) { vh_violation(K("registry:object-being-finalised-still-registered"), "%p is being finalised by the sweep and is still registered", obj); }
    /* what mem answers for the other objects this sweep has set aside (white-box: its pending list) is what the
       registry table says about them -- they left the table before the first destructor ran */
    static unsigned tick;
    if ((tick++ & 3) == 0 && gc->freelist != NULL && gc->freenum > 0) {
      for (int k = 0; k < 2; k++) {
        var p = (var)((uintptr_t)gc->freelist[(tick * 7u + (unsigned)k * 13u) % gc->freenum] & ~(uintptr_t)1);
        if (p == NULL) { continue; }
        int in_table = 0;
        for (size_t i = 0; i < gc->nslots; i++) { if (gc->entries[i].hash != 0 && gc->entries[i].ptr == p) { in_table = 1; break; } }
        vh_eval();
        if ((mem(gc, p) != 0) != in_table) { vh_violation(K("registry:mem-disagrees-with-the-table-during-a-sweep"), "inside a destructor run by the sweep: mem(gc, %p) is %d for an object on the sweep's list, the registry table says %d", p, (int)mem(gc, p), in_table); }
        vh_count("mem_queries_about_objects_set_aside_by_the_running_sweep");
      }
    }
  }
}

/* ---------- shadow graph ---------- */

static int new_snode(int kind, var ptr, int64_t id) {
  if (nn >= MAXNODES) { fprintf(stderr, "shadow node table full\n"); exit(2); }
  struct snode* s = &N[nn];
  memset(s, 0, sizeof *s);
  s->kind = kind; s->ptr = ptr; s->id = id; s->alive = 1;
  for (int i = 0; i < PN_FIELDS; i++) { s->f[i] = -1; }
  return nn++;
}

static void items_reserve(struct snode* s, int n) {
  s->items = realloc(s->items, sizeof(int) * (size_t)(n + 1));
  s->keys = realloc(s->keys, sizeof(int64_t) * (size_t)(n + 1));
}

static int* bfs_queue;

static void recompute_reachability(void) {
  for (int i = 0; i < nn; i++) { N[i].seen = 0; }
  int qh = 0, qt = 0;
  #define PUSHQ(x) do { int vh__x = (x); if (vh__x >= 0 && N[vh__x].alive && !N[vh__x].seen) { N[vh__x].seen = 1; bfs_queue[qt++] = vh__x; } } while (0)
  for (int i = 0; i < NROOTS; i++) { PUSHQ(root_node[i]); }
  for (int i = 0; i < NTLS; i++) { PUSHQ(tls_node[i]); }
  for (int i = 0; i < nn; i++) { if (N[i].alive && N[i].is_root) { PUSHQ(i); } }
  while (qh < qt) {
    struct snode* s = &N[bfs_queue[qh++]];
    if (is_struct_kind(s->kind) || s->kind == NK_REF || s->kind == NK_BOX) {
      for (int i = 0; i < PN_FIELDS; i++) { PUSHQ(s->f[i]); }
    } else {
      for (int i = 0; i < s->n; i++) { PUSHQ(s->items[i]); if (is_refkey_map(s->kind)) { PUSHQ((int)s->keys[i]); } }
    }
  }
  #undef PUSHQ
  for (int i = 0; i < nn; i++) {
    if (N[i].alive && !N[i].seen) {
      N[i].alive = 0;                    /* forgotten: may be collected at any time from now on */
      free(N[i].items); free(N[i].keys); N[i].items = NULL; N[i].keys = NULL;
      vh_count("nodes_made_unreachable");
    }
  }
}

/* ---------- allocation of nodes ---------- */

static int use_paddr;

/* A container reaches its element types in three ways: constructed with them; constructed with leaf types (Int, Float,
** String elements that hold no reference), filled, and then re-typed by assign from an empty container of the wanted
** types; or obtained by copy of such an empty container.  Whatever a container remembers about its first element type
** must not survive the assignment: from then on it holds references. */
static long born_counter;
/* every other Tree keyed by Int holds its references in a plain two-word struct (both words refer to the target):
   a value wider than the key, traced conservatively, moved as a whole when the Tree rearranges its nodes */
struct Pair2 { var a; var b; };
static var Pair2 = Cello(Pair2);
static int last_container_wide;
#define PAIR2(p) $(Pair2, (p), (p))
static var new_container(int kind, int how) {
  static var tmpl[NK_COUNT];
  last_container_wide = 0;
  if (kind == NK_TREE_INT_REF && born_counter % 2 == 1) {
    static var wide_tmpl;
    last_container_wide = 1;
    vh_count("trees_with_values_wider_than_their_keys");
    if (how == 0) { return new_with(Tree, tuple(Int, Pair2)); }
    if (wide_tmpl == NULL) { wide_tmpl = new_raw_with(Tree, tuple(Int, Pair2)); }
    if (how == 2) { return copy(wide_tmpl); }
    var q = new_with(Tree, tuple(Int, Int));
    for (int i = 0; i < (int)(born_counter % 5); i++) { set(q, $I(i), $I(i)); }
    assign(q, wide_tmpl);
    return q;
  }
  var T = (kind == NK_ARR_REF || kind == NK_ARR_EMB) ? Array : kind == NK_LIST_REF ? List : (kind == NK_TAB_INT_REF || kind == NK_TAB_REF_REF) ? Table : Tree;
  var K1 = (kind == NK_TAB_REF_REF || kind == NK_TREE_REF_REF) ? Ref : Int;
  var E = kind == NK_ARR_EMB ? PEmb : Ref;
  int is_seq = T == Array || T == List;
  if (how == 0) { return is_seq ? new_with(T, tuple(E)) : new_with(T, tuple(K1, Ref)); }
  if (tmpl[kind] == NULL) { tmpl[kind] = is_seq ? new_raw_with(T, tuple(E)) : new_raw_with(T, tuple(K1, Ref)); }
  if (how == 2) { vh_count("containers_obtained_by_copy"); return copy(tmpl[kind]); }
  var p;
  static var LEAF[3]; LEAF[0] = Int; LEAF[1] = Float; LEAF[2] = String;
  var L = LEAF[born_counter / 3 % 3];
  if (is_seq) {
    p = new_with(T, tuple(L));
    for (int i = 0; i < (int)(born_counter % 5); i++) { push(p, L == Int ? (var)$I(i) : L == Float ? (var)$F(i) : (var)$S("leaf")); }
  } else {
    p = new_with(T, tuple(L, L));
    for (int i = 0; i < (int)(born_counter % 5); i++) {
      char kb[16]; snprintf(kb, sizeof kb, "k%d", i);
      if (L == Int) { set(p, $I(i), $I(i)); } else if (L == Float) { set(p, $F(i), $F(i)); } else { set(p, $S(kb), $S("leaf")); }
    }
  }
  assign(p, tmpl[kind]);
  vh_count("containers_retyped_by_assign");
  return p;
}

static int alloc_node(int kind, int as_root) {
  var p = NULL;
  int64_t id = 0;
  int64_t d0 = mo_destructed;
  switch (kind) {
    case NK_PNODE: id = next_id++; p = as_root ? (var)new_root(PNode, $I(id)) : (var)new(PNode, $I(id)); break;
    case NK_PMARK: id = next_id++; p = new(PMark, $I(id)); break;
    case NK_PADDR: id = next_id++; p = new(PAddr, $I(id)); break;
    case NK_REF: p = new(Ref); break;
    case NK_ARR_REF: case NK_LIST_REF: case NK_ARR_EMB: case NK_TAB_INT_REF: case NK_TAB_REF_REF: case NK_TREE_INT_REF: case NK_TREE_REF_REF:
      p = new_container(kind, (int)(born_counter++ % 3)); break;
    case NK_TUPLE: p = new(Tuple); break;
    case NK_THREAD:
      /* half of them are clones: copy of an (unstarted) Thread object takes over a copy of its storage table */
      if (thread_template == NULL) { thread_template = new_raw(Thread, noop_fn); set(thread_template, $S("inherited"), Int); }
      p = next_id % 2 ? (var)new(Thread, noop_fn) : copy(thread_template);
      break;
    default: return -1;
  }
  if (mo_destructed != d0) { vh_count("threshold_collections_that_freed_something"); }
  rs_add(p, as_root, (int)id);
  int n = new_snode(kind, p, id);
  N[n].is_root = as_root;
  N[n].wide = (kind == NK_TREE_INT_REF) ? last_container_wide : 0;
  return n;
}

/* ---------- edge primitives (real store + shadow update) ---------- */

static var ptr_of(int n) { return n >= 0 ? N[n].ptr : NULL; }

static void store_field(int h, int slot, int target) {
  struct snode* s = &N[h];
  var p = ptr_of(target);
  switch (s->kind) {
    case NK_PNODE: ((struct PNode*)s->ptr)->f[slot] = p; break;
    case NK_PADDR: ((struct PAddr*)s->ptr)->f[slot] = p; break;
    case NK_PMARK: ((struct PMark*)s->ptr)->slots[slot] = p; break;
    case NK_REF: ref(s->ptr, p); slot = 0; break;
    case NK_THREAD:
      if (p != NULL) { set(s->ptr, $S((char*)THKEY[slot]), p); }
      else if (mem(s->ptr, $S((char*)THKEY[slot]))) { rem(s->ptr, $S((char*)THKEY[slot])); }
      break;
    default: return;
  }
  if (s->f[slot] >= 0) { N[s->f[slot]].nin--; }
  if (target >= 0) { N[target].nin++; }
  s->f[slot] = target;
}

/* ---------- read-back check of one reachable node ---------- */

static void check_node(int n, const char* when) {
  struct snode* s = &N[n];
  vh_evals(3);
  if (s->id > 0 && mo_state[s->id] != MO_CONSTRUCTED) {
    vh_violation(K("reachable-object-finalised"), "%s id %" PRId64 " is reachable in the shadow graph but its ledger state is %d (%s)",
      NKNAME[s->kind], s->id, mo_state[s->id], when);
    s->alive = 0;     /* do not touch it again */
    return;
  }
  if (!mem(gc, s->ptr)) {
    vh_violation(K("reachable-object-not-registered"), "%s node %d is reachable in the shadow graph but mem(gc,p) is false (%s)", NKNAME[s->kind], n, when);
    s->alive = 0;
    return;
  }
  switch (s->kind) {
    case NK_PNODE: case NK_PADDR: {
      struct PNode* p = s->ptr;
      if (p->id != s->id || p->canary != MO_CANARY) { vh_violation(K("reachable-object-overwritten"), "struct id %" PRId64 " reads back id %" PRId64 " canary %" PRIx64 " (%s)", s->id, p->id, (uint64_t)p->canary, when); s->alive = 0; return; }
      for (int i = 0; i < PN_FIELDS; i++) { if (p->f[i] != ptr_of(s->f[i])) { vh_violation(K("reachable-object-field-changed"), "struct id %" PRId64 " field %d changed (%s)", s->id, i, when); } }
      break;
    }
    case NK_PMARK: {
      struct PMark* p = s->ptr;
      if (p->id != s->id || p->canary != MO_CANARY || p->slots == NULL) { vh_violation(K("reachable-object-overwritten"), "struct+Mark id %" PRId64 " damaged (%s)", s->id, when); s->alive = 0; return; }
      for (int i = 0; i < PN_FIELDS; i++) { if (p->slots[i] != ptr_of(s->f[i])) { vh_violation(K("reachable-object-field-changed"), "struct+Mark id %" PRId64 " slot %d changed (%s)", s->id, i, when); } }
      break;
    }
    case NK_THREAD:
      for (int i = 0; i < PN_FIELDS; i++) {
        bool has = mem(s->ptr, $S((char*)THKEY[i]));
        if (has != (s->f[i] >= 0) || (has && get(s->ptr, $S((char*)THKEY[i])) != ptr_of(s->f[i]))) {
          vh_violation(K("reachable-object-field-changed"), "storage slot %d of an unstarted Thread changed (%s)", i, when);
        }
      }
      break;
    case NK_REF: case NK_BOX:
      if (type_of(s->ptr) != (s->kind == NK_REF ? Ref : Box) || deref(s->ptr) != ptr_of(s->f[0])) {
        vh_violation(K("reachable-object-field-changed"), "%s node %d no longer points at its target (%s)", NKNAME[s->kind], n, when);
      }
      break;
    case NK_ARR_REF: case NK_LIST_REF: case NK_TUPLE: case NK_ARR_EMB: {
      if (len(s->ptr) != (size_t)s->n) { vh_violation(K("reachable-container-contents-changed"), "%s node %d has len %zu, shadow %d (%s)", NKNAME[s->kind], n, len(s->ptr), s->n, when); break; }
      int stride = s->n > 64 ? s->n / 32 : 1;
      for (int i = 0; i < s->n; i += stride) {
        var e = get(s->ptr, $I(i));
        var t = s->kind == NK_TUPLE ? e : s->kind == NK_ARR_EMB ? ((struct PEmb*)e)->p : deref(e);
        if (t != ptr_of(s->items[i])) { vh_violation(K("reachable-container-contents-changed"), "%s node %d element %d changed (%s)", NKNAME[s->kind], n, i, when); break; }
      }
      break;
    }
    default: {
      if (len(s->ptr) != (size_t)s->n) { vh_violation(K("reachable-container-contents-changed"), "%s node %d has len %zu, shadow %d (%s)", NKNAME[s->kind], n, len(s->ptr), s->n, when); break; }
      int stride = s->n > 64 ? s->n / 32 : 1;
      for (int i = 0; i < s->n; i += stride) {
        var key = is_refkey_map(s->kind) ? (var)$R(ptr_of((int)s->keys[i])) : (var)$I(s->keys[i]);
        if (!mem(s->ptr, key)) { vh_violation(K("reachable-container-contents-changed"), "%s node %d lost key %d (%s)", NKNAME[s->kind], n, i, when); break; }
        if (s->wide) {
          struct Pair2* v = get(s->ptr, key);
          if (v->a != ptr_of(s->items[i]) || v->b != ptr_of(s->items[i])) { vh_violation(K("reachable-container-contents-changed"), "%s node %d: the two-word value of key %d changed (%s)", NKNAME[s->kind], n, i, when); break; }
          continue;
        }
        if (deref(get(s->ptr, key)) != ptr_of(s->items[i])) { vh_violation(K("reachable-container-contents-changed"), "%s node %d value of key %d changed (%s)", NKNAME[s->kind], n, i, when); break; }
      }
      break;
    }
  }
}

static uint64_t kinds_checked;     /* bit per node kind that was reachable-checked */
static uint64_t rootkinds_checked; /* 1 stack, 2 root holder, 4 tls */

static void check_reachable(const char* when) {
  if (check_c01) {
    int checked = 0;
    for (int i = 0; i < nn; i++) {
      if (!N[i].alive) { continue; }
      check_node(i, when);
      kinds_checked |= (uint64_t)1 << N[i].kind;
      checked++;
    }
    for (int i = 0; i < NROOTS; i++) { if (root_node[i] >= 0 && N[root_node[i]].alive) { rootkinds_checked |= 1; } }
    for (int i = 0; i < NTLS; i++) { if (tls_node[i] >= 0 && N[tls_node[i]].alive) { rootkinds_checked |= 4; } }
    for (int i = 0; i < nn; i++) { if (N[i].alive && N[i].is_root) { rootkinds_checked |= 2; break; } }
    vh_count_n("reachable_object_checks", (uint64_t)checked);
  }
}

/* ---------- collection points ---------- */

static void forced_collection(const char* why) {
  int64_t d0 = mo_destructed;
  in_collection = 1;
  GC_Mark(gc);
  GC_Sweep(gc);
  in_collection = 0;
  vh_count("forced_collections");
  if (mo_destructed != d0) { vh_count("sweeps_that_freed_something"); }
  check_reachable(why);
  registry_walk(why);
}

/* ---------- operations ---------- */

static int pick_alive(vh_rng* r, int want_holder) {
  /* reservoir over alive nodes */
  int chosen = -1, seen = 0;
  for (int i = 0; i < nn; i++) {
    if (!N[i].alive) { continue; }
    if (want_holder && N[i].kind == NK_BOX) { continue; }
    if (want_holder != 1 && N[i].boxed) { continue; }         /* boxed objects have exactly one owner */
    if (want_holder == 0 && N[i].is_root) { continue; }   /* want_holder 2: any target, root holders included */
    seen++;
    if (vh_below(r, (uint64_t)seen) == 0) { chosen = i; }
  }
  return chosen;
}

static int count_alive(void) { int c = 0; for (int i = 0; i < nn; i++) { c += N[i].alive; } return c; }

static int rand_kind(vh_rng* r) {
  for (;;) {
    int k = (int)vh_below(r, NK_COUNT);
    if (k == NK_BOX) { continue; }              /* boxes are made by op_box */
    if (k == NK_PADDR && !use_paddr) { continue; }
    if (k == NK_PADDR) { int freec = 0; for (int i = 0; i < PA_SLOTS; i++) { freec += !pa_used[i]; } if (freec < 4) { continue; } }
    return k;
  }
}

/* link target into holder h at a random place; returns 1 if an edge was removed */
static int link_into(vh_rng* r, int h, int target) {
  struct snode* s = &N[h];
  int removed = 0;
  /* Root holders are deleted by hand (del_root), at the latest at the end of the case, when garbage may still
     point at them.  A Mark callback that hands plain pointers to the collector (Tuple, struct+Mark) makes the
     collector read the header of whatever it is given, so such a holder must never be left pointing at a deleted
     object (a dangling pointer in a Tuple is a program error); all other holders are scanned by address only. */
  if (target >= 0 && N[target].is_root && (s->kind == NK_TUPLE || s->kind == NK_PMARK)) { return 0; }
  if (is_struct_kind(s->kind) || s->kind == NK_REF) {
    int slot = s->kind == NK_REF ? 0 : (int)vh_below(r, PN_FIELDS);
    if (s->f[slot] >= 0) { removed = 1; }
    store_field(h, slot, target);
    vh_op("n%d.f%d=n%d", h, slot, target);
  } else if (is_seq_kind(s->kind)) {
    if (s->n >= MAXITEMS) { return 0; }
    items_reserve(s, s->n + 1);
    var p = ptr_of(target);
    int at = s->n;
    int mode = (int)vh_below(r, 4);
    if (mode == 0 && s->n > 0) {
      at = (int)vh_below(r, (uint64_t)s->n);
      if (s->kind == NK_TUPLE) { push_at(s->ptr, p, $I(at)); }
      else if (s->kind == NK_ARR_EMB) { push_at(s->ptr, $(PEmb, (at & 1) ? 7 : 0, p, 0), $I(at)); }
      else { push_at(s->ptr, $R(p), $I(at)); }
      memmove(&s->items[at + 1], &s->items[at], sizeof(int) * (size_t)(s->n - at));
      s->items[at] = target; s->n++; N[target].nin++;
      vh_op("n%d.push_at(n%d,%d)", h, target, at);
    } else if (mode == 1 && s->n > 0) {
      at = (int)vh_below(r, (uint64_t)s->n);
      if (s->kind == NK_TUPLE) { set(s->ptr, $I(at), p); }
      else if (s->kind == NK_ARR_EMB) { set(s->ptr, $I(at), $(PEmb, (at & 1) ? 7 : 0, p, 0)); }
      else { set(s->ptr, $I(at), $R(p)); }
      N[s->items[at]].nin--; N[target].nin++;
      s->items[at] = target; removed = 1;
      vh_op("n%d.set(%d,n%d)", h, at, target);
    } else {
      if (s->kind == NK_TUPLE) { push(s->ptr, p); }
      else if (s->kind == NK_ARR_EMB) { push(s->ptr, $(PEmb, (at & 1) ? 7 : 0, p, 0)); }
      else { push(s->ptr, $R(p)); }
      s->items[s->n++] = target; N[target].nin++;
      vh_op("n%d.push(n%d)", h, target);
    }
  } else if (is_map_kind(s->kind)) {
    if (s->n >= MAXITEMS) { return 0; }
    items_reserve(s, s->n + 1);
    var p = ptr_of(target);
    if (is_refkey_map(s->kind)) {
      int kn = pick_alive(r, 0);
      if (kn < 0) { kn = target; }
      int found = -1;
      for (int i = 0; i < s->n; i++) { if ((int)s->keys[i] == kn) { found = i; } }
      set(s->ptr, $R(ptr_of(kn)), $R(p));
      if (found >= 0) { N[s->items[found]].nin--; s->items[found] = target; removed = 1; }
      else { s->keys[s->n] = kn; s->items[s->n] = target; s->n++; N[kn].nin++; }
      N[target].nin++;
      vh_op("n%d[n%d]=n%d", h, kn, target);
    } else {
      /* keys that collide modulo the table sizes, and dense ones */
      int64_t key = vh_chance(r, 50) ? (int64_t)vh_below(r, 24) * (5 * 11 * 23 * 53) : vh_range(r, -8, 40);
      int found = -1;
      for (int i = 0; i < s->n; i++) { if (s->keys[i] == key) { found = i; } }
      if (s->wide) { set(s->ptr, $I(key), PAIR2(p)); } else { set(s->ptr, $I(key), $R(p)); }
      if (found >= 0) { N[s->items[found]].nin--; s->items[found] = target; removed = 1; }
      else { s->keys[s->n] = key; s->items[s->n] = target; s->n++; }
      N[target].nin++;
      vh_op("n%d[%" PRId64 "]=n%d", h, key, target);
    }
  }
  return removed;
}

/* remove one entry / clear one field of holder h; returns 1 if something was removed */
static int unlink_from(vh_rng* r, int h) {
  struct snode* s = &N[h];
  if (is_struct_kind(s->kind) || s->kind == NK_REF) {
    int slot = s->kind == NK_REF ? 0 : (int)vh_below(r, PN_FIELDS);
    if (s->f[slot] < 0) { return 0; }
    store_field(h, slot, -1);
    vh_op("n%d.f%d=NULL", h, slot);
    return 1;
  }
  if (s->n == 0) { return 0; }
  if (is_seq_kind(s->kind)) {
    int mode = (int)vh_below(r, 3);
    if (mode == 0) { pop(s->ptr); s->n--; N[s->items[s->n]].nin--; vh_op("n%d.pop()", h); }
    else if (mode == 1) {
      int at = (int)vh_below(r, (uint64_t)s->n);
      N[s->items[at]].nin--;
      pop_at(s->ptr, $I(at));
      memmove(&s->items[at], &s->items[at + 1], sizeof(int) * (size_t)(s->n - at - 1));
      s->n--;
      vh_op("n%d.pop_at(%d)", h, at);
    } else {
      int keep = (int)vh_below(r, (uint64_t)s->n);
      if (s->kind == NK_TUPLE && keep == s->n) { keep = s->n - 1; }
      resize(s->ptr, (size_t)keep);
      for (int i = keep; i < s->n; i++) { N[s->items[i]].nin--; }
      s->n = keep;
      vh_op("n%d.resize(%d)", h, keep);
    }
    return 1;
  }
  int at = (int)vh_below(r, (uint64_t)s->n);
  if (is_refkey_map(s->kind)) { rem(s->ptr, $R(ptr_of((int)s->keys[at]))); N[(int)s->keys[at]].nin--; }
  else { rem(s->ptr, $I(s->keys[at])); }
  N[s->items[at]].nin--;
  s->keys[at] = s->keys[s->n - 1]; s->items[at] = s->items[s->n - 1]; s->n--;
  vh_op("n%d.rem(entry %d)", h, at);
  return 1;
}

static void set_root_slot(int slot, int target) {
  ROOTS[slot] = ptr_of(target);
  root_node[slot] = target;
}

static void op_alloc_and_link(vh_rng* r) {
  int kind = rand_kind(r);
  int as_root = kind == NK_PNODE && vh_chance(r, 10);
  volatile var keep;          /* the new object lives in this frame until it is linked */
  int n = alloc_node(kind, as_root);
  keep = N[n].ptr;
  vh_op("n%d=new %s%s", n, NKNAME[kind], as_root ? " (root)" : "");
  if (as_root) {
    /* a root holder may itself be referenced: from thread-local storage, from another root holder, from any
       object.  The collector then meets it before (or instead of) its own pass over the root entries, and must
       still trace what it holds.  del_root happens only once nothing -- garbage included -- points at it. */
    vh_count("root_holders_allocated");
    int how = (int)vh_below(r, 3);
    if (how == 0) {
      int t = (int)vh_below(r, NTLS);
      set(current(Thread), $S((char*)TLSKEY[t]), N[n].ptr);
      tls_node[t] = n;
      vh_op("tls[%d]=n%d", t, n);
      vh_count("root_holders_stored_in_thread_local_storage");
    } else if (how == 1) {
      int h = -1, seen = 0;
      for (int i = 0; i < nn; i++) { if (i != n && N[i].alive && N[i].is_root) { seen++; if (vh_below(r, (uint64_t)seen) == 0) { h = i; } } }
      if (h >= 0) { link_into(r, h, n); vh_count("root_holders_referenced_by_another_root_holder"); if (vh_chance(r, 50)) { link_into(r, n, h); vh_count("root_holder_cycles"); } }
    }
    keep = NULL;
    recompute_reachability();
    return;
  }
  int removed = 0;
  int h = vh_chance(r, 75) ? pick_alive(r, 1) : -1;
  if (h >= 0 && h != n) { removed = link_into(r, h, n); }
  else if (vh_chance(r, 25)) {
    int t = (int)vh_below(r, NTLS);
    if (tls_node[t] >= 0) { removed = 1; }
    set(current(Thread), $S((char*)TLSKEY[t]), N[n].ptr);
    tls_node[t] = n;
    vh_op("tls[%d]=n%d", t, n);
    vh_count("tls_roots_set");
  } else {
    int slot = (int)vh_below(r, NROOTS);
    if (root_node[slot] >= 0) { removed = 1; }
    set_root_slot(slot, n);
    vh_op("stack[%d]=n%d", slot, n);
  }
  keep = NULL;
  if (removed || h < 0 || !N[h].alive) { recompute_reachability(); }
  else { recompute_reachability(); }
}

static void op_link_existing(vh_rng* r) {
  int h = pick_alive(r, 1), t = pick_alive(r, vh_chance(r, 15) ? 2 : 0);
  if (h < 0 || t < 0) { return; }
  if (h == t) { vh_count("self_references"); }
  if (N[t].is_root) { vh_count("edges_to_root_holders"); }
  link_into(r, h, t);
  recompute_reachability();
}

static void op_unlink(vh_rng* r) {
  int roll = (int)vh_below(r, 100);
  if (roll < 70) {
    int h = pick_alive(r, 1);
    if (h >= 0) { unlink_from(r, h); }
  } else if (roll < 85) {
    int slot = (int)vh_below(r, NROOTS);
    if (root_node[slot] >= 0) { set_root_slot(slot, -1); vh_op("stack[%d]=NULL", slot); vh_count("stack_roots_dropped"); }
  } else if (roll < 93) {
    int t = (int)vh_below(r, NTLS);
    if (tls_node[t] >= 0) { rem(current(Thread), $S((char*)TLSKEY[t])); tls_node[t] = -1; vh_op("tls[%d] removed", t); vh_count("tls_roots_dropped"); }
  } else {
    /* delete a root holder */
    for (int i = 0; i < nn; i++) {
      if (N[i].alive && N[i].is_root) {
        /* only when nothing else reaches it: otherwise a reachable object would be deleted by the harness itself */
        N[i].is_root = 0;
        recompute_reachability();
        if (!N[i].alive && N[i].nin == 0) { rs_dead(N[i].ptr); del_root(N[i].ptr); vh_op("del_root(n%d)", i); vh_count("root_holders_deleted"); }
        else { N[i].is_root = 1; }
        break;
      }
    }
  }
  recompute_reachability();
}

static void op_box(vh_rng* r) {
  /* Box owning a fresh struct; the Box goes into a holder */
  volatile var keep1, keep2;
  int t = alloc_node(vh_chance(r, 50) ? NK_PNODE : NK_PMARK, 0);
  keep1 = N[t].ptr;
  N[t].boxed = 1;
  var b = new(Box, N[t].ptr);
  keep2 = b;
  rs_add(b, 0, 0);
  int bn = new_snode(NK_BOX, b, 0);
  N[bn].f[0] = t; N[t].nin++;
  vh_op("n%d=new Box(n%d)", bn, t);
  int h = pick_alive(r, 1);
  if (h >= 0 && h != bn && h != t) { link_into(r, h, bn); }
  else { int slot = (int)vh_below(r, NROOTS); set_root_slot(slot, bn); vh_op("stack[%d]=n%d", slot, bn); }
  /* the boxed object may itself hold references */
  if (vh_chance(r, 50)) { int x = pick_alive(r, 0); if (x >= 0) { link_into(r, t, x); } }
  keep1 = NULL; keep2 = NULL;
  vh_count("boxes");
  recompute_reachability();
}

static void op_explicit_delete(vh_rng* r) {
  /* cut the only edge to X and delete X at once (no allocation in between) */
  int h = pick_alive(r, 1);
  if (h < 0) { return; }
  struct snode* s = &N[h];
  int x = -1;
  if (is_struct_kind(s->kind)) {
    int slot = (int)vh_below(r, PN_FIELDS);
    x = s->f[slot];
    if (x < 0 || N[x].is_root) { return; }
    store_field(h, slot, -1);
    vh_op("n%d.f%d=NULL", h, slot);
  } else if (is_seq_kind(s->kind) && s->n > 0 && s->kind != NK_TUPLE) {
    x = s->items[s->n - 1];
    if (N[x].is_root) { return; }
    /* Array<Ref>/List<Ref> elements are Refs: popping does not delete the target */
    pop(s->ptr); s->n--; N[x].nin--;
    vh_op("n%d.pop()", h);
  } else { return; }
  recompute_reachability();
  if (x >= 0 && !N[x].alive && N[x].nin == 0) {
    /* nothing reaches X any more and no object at all -- not even garbage awaiting collection, which the
       conservative collector may still trace -- holds a pointer to it: explicit deletion is in contract */
    var p = N[x].ptr;
    int boxed_target = N[x].kind == NK_BOX ? N[x].f[0] : -1;
    rs_dead(p);
    if (boxed_target >= 0) { rs_dead(N[boxed_target].ptr); }
    /* a quarter of the deletions happen inside a stop..start window: the object must leave the registry all the same */
    int stopped = vh_chance(r, 25);
    if (stopped) { stop(gc); harness_stopped = 1; }
    del(p);
    if (stopped) { start(gc); harness_stopped = 0; vh_count("explicit_deletions_while_stopped"); }
    vh_op(stopped ? "stop; del(n%d); start" : "del(n%d)", x);
    vh_count("explicit_deletions");
    if (check_c17) {
      vh_eval();
      if (mem(gc, p)) { vh_violation(K("registry:mem-true-for-deleted-object"), "mem(gc,p) still holds right after del of node %d", x); }
    }
  }
}

static void op_burst(vh_rng* r) {
  /* grow a container that holds the only reference to fresh objects, then shrink it again */
  int kinds[] = { NK_ARR_REF, NK_LIST_REF, NK_ARR_EMB, NK_TAB_INT_REF, NK_TREE_INT_REF, NK_TUPLE, NK_TAB_REF_REF };
  int kind = kinds[vh_below(r, 7)];
  volatile var keep;
  int c = alloc_node(kind, 0);
  keep = N[c].ptr;
  int slot = (int)vh_below(r, NROOTS);
  set_root_slot(slot, c);
  recompute_reachability();
  vh_op("burst on n%d (%s)", c, NKNAME[kind]);
  int grow = 12 + (int)vh_below(r, 60);
  for (int i = 0; i < grow && N[c].alive; i++) {
    volatile var k2;
    int t = alloc_node(vh_chance(r, 70) ? NK_PNODE : NK_REF, 0);
    k2 = N[t].ptr;
    link_into(r, c, t);
    k2 = NULL;
    recompute_reachability();
    if (i % 8 == 7) { check_reachable("burst growth"); }
  }
  check_reachable("burst grown");
  int shrink = (int)vh_below(r, (uint64_t)grow + 1);
  for (int i = 0; i < shrink && N[c].alive && N[c].n > 0; i++) { unlink_from(r, c); recompute_reachability(); }
  check_reachable("burst shrunk");
  keep = NULL;
  vh_count("container_bursts");
}

static void op_garbage(vh_rng* r) {
  int n = 10 + (int)vh_below(r, 80);
  int64_t d0 = mo_destructed;
  for (int i = 0; i < n; i++) {
    int64_t id = next_id++;
    var g = vh_chance(r, 70) ? (var)new(PNode, $I(id)) : (var)new(PMark, $I(id));
    rs_add(g, 0, (int)id);
    g = NULL;
  }
  vh_op("garbage x%d", n);
  vh_count("garbage_bursts");
  if (mo_destructed != d0) { vh_count("threshold_collections_that_freed_something"); }
}


/* ---------- copy of an object whose Assign makes a deep copy ----------
** PDeep's Assign allocates the copies of its two children one after the other, with a little garbage in between (as a
** user type that owns sub-objects does).  While it runs, the half-built copy is referenced from the stack frames of
** copy, assign and PDeep_Assign: what it already holds must survive a collection that lands inside the assignment. */
struct PDeep { int64_t ida, idb; var a; var b; };
static vh_rng* deep_rng;
static void PDeep_Assign(var self, var obj) {
  struct PDeep* p = self; struct PDeep* o = obj;
  (void)o;
  p->ida = next_id++;
  p->a = new(PNode, $I(p->ida));
  int junk = (int)vh_below(deep_rng, 40);
  for (int i = 0; i < junk; i++) { var g = new(Int, $I(i)); (void)g; }
  p->idb = next_id++;
  p->b = new(PNode, $I(p->idb));
  for (int i = 0; i < junk / 2; i++) { var g = new(Int, $I(i)); (void)g; }
}
static var PDeep = Cello(PDeep, Instance(Assign, PDeep_Assign));

static void deep_copies(vh_rng* r, int n) {
  deep_rng = r;
  volatile var src = new(PDeep);
  assign(src, src);                    /* fills the source's own children */
  for (int k = 0; k < n; k++) {
    volatile var c = copy(src);
    struct PDeep* p = c;
    vh_evals(4);
    if (mo_state[p->ida] != MO_CONSTRUCTED || mo_state[p->idb] != MO_CONSTRUCTED) {
      vh_violation(K("reachable-object-finalised"), "copy %d of an object with a deep-copying Assign: a child the copy holds (ids %" PRId64 ", %" PRId64 ": states %d, %d) was finalised while the copy was being built",
        k, p->ida, p->idb, mo_state[p->ida], mo_state[p->idb]);
      break;
    }
    if (!mem(gc, p->a) || !mem(gc, p->b) || !mem(gc, c)) { vh_violation(K("reachable-object-not-registered"), "copy %d of an object with a deep-copying Assign: the copy or one of its children is not registered", k); break; }
    if (((struct PNode*)p->a)->id != p->ida || ((struct PNode*)p->b)->id != p->idb) { vh_violation(K("reachable-object-overwritten"), "copy %d: a child of the copy reads back another id", k); break; }
    struct PDeep* s0 = src;
    if (mo_state[s0->ida] != MO_CONSTRUCTED || mo_state[s0->idb] != MO_CONSTRUCTED) { vh_violation(K("reachable-object-finalised"), "a child of the source object was finalised during copy %d", k); break; }
    c = NULL;
  }
  vh_count_n("deep_copies_checked", (uint64_t)n);
  src = NULL;
}

/* ---------- an object referenced from a register only ----------
** gcc builds on x86-64: r15 is reserved in this translation unit as a global register variable and holds the only
** reference to a probe object (the dead stack below is scrubbed, the allocation goes through a helper whose frame
** is gone).  Garbage is allocated until threshold collections have run: the object, and the child only it refers to,
** are still there.  (r15 is callee-saved: whatever library function is running at the collection either left it alone
** or saved it in its frame.) */
#if defined(__GNUC__) && !defined(__clang__) && defined(__x86_64__) && !defined(__SANITIZE_ADDRESS__) && !defined(__SANITIZE_THREAD__)
#define HAVE_REGISTER_CASE 1
register var reg_keep asm("r15");
static void __attribute__((noinline)) reg_make(int64_t id, int64_t child_id) {
  var p = new(PNode, $I(id));
  ((struct PNode*)p)->f[0] = new(PNode, $I(child_id));
  reg_keep = p;
}
static void __attribute__((noinline)) reg_scrub(void) { volatile char pad[8192]; for (size_t i = 0; i < sizeof pad; i++) { pad[i] = 0; } }
static void __attribute__((noinline)) reg_churn(int n) { for (int i = 0; i < n; i++) { var g = new(Int, $I(i)); (void)g; } }
static void __attribute__((noinline)) register_only_reference(vh_rng* r) {
  var saved = reg_keep;
  for (int k = 0; k < 6; k++) {
    int64_t id = next_id++, child = next_id++;
    reg_make(id, child);
    reg_scrub();
    int64_t d0 = mo_destructed;
    reg_churn(600 + (int)vh_below(r, 1500));
    vh_evals(2);
    if (mo_state[id] != MO_CONSTRUCTED || mo_state[child] != MO_CONSTRUCTED) {
      vh_violation(K("reachable-object-finalised"), "an object referenced from a callee-saved register only (and the child it refers to): ledger states %d and %d after threshold collections", mo_state[id], mo_state[child]);
      break;
    }
    if (((struct PNode*)reg_keep)->id != id || ((struct PNode*)((struct PNode*)reg_keep)->f[0])->id != child) { vh_violation(K("reachable-object-overwritten"), "the object referenced from a register reads back another id"); break; }
    if (mo_destructed != d0) { vh_count("register_only_references_that_survived_a_freeing_collection"); }
    vh_count("register_only_references_checked");
    reg_keep = NULL;
  }
  reg_keep = saved;
}
#endif

/* ---------- one case ---------- */

static void reset_world(var* roots) {
  for (int i = 0; i < nn; i++) { free(N[i].items); free(N[i].keys); }
  nn = 0;
  ROOTS = roots;
  for (int i = 0; i < NROOTS; i++) { roots[i] = NULL; root_node[i] = -1; }
  for (int i = 0; i < NTLS; i++) {
    if (tls_node[i] >= 0 || mem(current(Thread), $S((char*)TLSKEY[i]))) { rem(current(Thread), $S((char*)TLSKEY[i])); }
    tls_node[i] = -1;
  }
}

static void end_of_case(void) {
  /* drop everything, delete the root holders (the API requires del_root), collect */
  for (int i = 0; i < NROOTS; i++) { ROOTS[i] = NULL; root_node[i] = -1; }
  for (int i = 0; i < NTLS; i++) { if (tls_node[i] >= 0) { rem(current(Thread), $S((char*)TLSKEY[i])); tls_node[i] = -1; } }
  for (int i = 0; i < nn; i++) {
    if (N[i].alive && N[i].is_root) { N[i].is_root = 0; N[i].alive = 0; rs_dead(N[i].ptr); del_root(N[i].ptr); }
    N[i].alive = 0;
  }
  in_collection = 1; GC_Mark(gc); GC_Sweep(gc); in_collection = 0;
  registry_walk("end of case");
  registry_vs_ledger("end of case");
}

static void __attribute__((noinline)) run_random_case(vh_rng* r, int nops, int heavy_kind) {
  var roots[NROOTS];
  reset_world(roots);
  rs_reset();
  use_paddr = vh_chance(r, 35);
  destructors_allocate = vh_chance(r, 33);
  pa_offset_mode = (int)vh_below(r, 2);
  vh_op("heap ops=%d paddr=%d(mode %d) bias=%d", nops, use_paddr, pa_offset_mode, heavy_kind);
  for (int op = 0; op < nops; op++) {
    int roll = (int)vh_below(r, 100);
    if (roll < 34) { op_alloc_and_link(r); }
    else if (roll < 50) { op_link_existing(r); }
    else if (roll < 66) { op_unlink(r); }
    else if (roll < 72) { op_box(r); }
    else if (roll < 79) { op_explicit_delete(r); }
    else if (roll < 84) { op_burst(r); }
    else if (roll < 90) { op_garbage(r); }
    else if (roll < 97) { vh_op("collect"); forced_collection("forced collection"); }
    else {
      /* many cheap edges: cycles and shared sub-objects */
      for (int k = 0; k < 12; k++) { op_link_existing(r); }
    }
    check_reachable("after operation");
    if (check_c17 && (op % 4 == 0)) { registry_walk("after operation"); }
    if (check_c17 && (op % 16 == 0)) { registry_vs_ledger("after operation"); }
    if (count_alive() > 700) { for (int k = 0; k < 6; k++) { op_unlink(r); } }
  }
  if (check_c01) { deep_copies(r, 40); }
#ifdef HAVE_REGISTER_CASE
  if (check_c01) { register_only_reference(r); }
#endif
  forced_collection("final forced collection");
  registry_vs_ledger("final");
  if (nops >= 20) { vh_nontrivial(); }
  /* node kinds / root kinds reached */
  for (int k = 0; k < NK_COUNT; k++) { if (kinds_checked >> k & 1) { static char nm[NK_COUNT][48]; snprintf(nm[k], sizeof nm[k], "kind_checked:%s", NKNAME[k]); vh_count(nm[k]); } }
  kinds_checked = 0;
  if (rootkinds_checked & 1) { vh_count("rootkind_checked:stack"); }
  if (rootkinds_checked & 2) { vh_count("rootkind_checked:root-holder"); }
  if (rootkinds_checked & 4) { vh_count("rootkind_checked:thread-local"); }
  rootkinds_checked = 0;
  end_of_case();
}

/* ---------- dedicated shapes ---------- */

static void __attribute__((noinline)) shape_ring(int n, int kind) {
  var roots[NROOTS];
  reset_world(roots); rs_reset();
  vh_op("ring of %d %s", n, NKNAME[kind]);
  int first = alloc_node(kind, 0);
  set_root_slot(0, first);
  int prev = first;
  for (int i = 1; i < n; i++) {
    int x = alloc_node(kind, 0);
    if (kind == NK_TUPLE) { push(N[prev].ptr, N[x].ptr); items_reserve(&N[prev], 1); N[prev].items[0] = x; N[prev].n = 1; N[x].nin++; }
    else { store_field(prev, 0, x); }
    prev = x;
  }
  if (kind == NK_TUPLE) { push(N[prev].ptr, N[first].ptr); items_reserve(&N[prev], 1); N[prev].items[0] = first; N[prev].n = 1; N[first].nin++; }
  else { store_field(prev, 0, first); }
  recompute_reachability();
  forced_collection("ring");
  op_garbage(&(vh_rng){{1,2,3,4}});
  forced_collection("ring after garbage");
  vh_count("rings");
  end_of_case();
}

static void __attribute__((noinline)) shape_complete(int n) {
  var roots[NROOTS];
  reset_world(roots); rs_reset();
  vh_op("complete graph on %d tuples", n);
  int* ids = malloc(sizeof(int) * (size_t)n);
  int hub = alloc_node(NK_TUPLE, 0);
  set_root_slot(0, hub);
  items_reserve(&N[hub], n);
  for (int i = 0; i < n; i++) { ids[i] = alloc_node(NK_TUPLE, 0); push(N[hub].ptr, N[ids[i]].ptr); N[hub].items[N[hub].n++] = ids[i]; }
  /* every tuple holds every tuple (itself included): cycles through Mark callbacks */
  for (int i = 0; i < n; i++) {
    items_reserve(&N[ids[i]], n);
    for (int j = 0; j < n; j++) { push(N[ids[i]].ptr, N[ids[j]].ptr); N[ids[i]].items[j] = ids[j]; }
    N[ids[i]].n = n;
  }
  recompute_reachability();
  forced_collection("complete graph");
  vh_count("complete_graphs");
  free(ids);
  end_of_case();
}

static void __attribute__((noinline)) shape_fanout(int n) {
  var roots[NROOTS];
  reset_world(roots); rs_reset();
  vh_op("fan-out %d", n);
  int hub = alloc_node(NK_ARR_REF, 0);
  set_root_slot(0, hub);
  items_reserve(&N[hub], n);
  for (int i = 0; i < n; i++) {
    int x = alloc_node(NK_PNODE, 0);
    push(N[hub].ptr, $R(N[x].ptr));
    N[hub].items[N[hub].n++] = x;
  }
  recompute_reachability();
  forced_collection("fan-out");
  vh_count("fanouts");
  end_of_case();
}

/* root-registered holders that the collector reaches BEFORE its own pass over the root entries gets to them:
** from thread-local storage (marked first), from another root holder (slot order decides which of two comes
** first, so both directions and a cycle are built).  Everything below them is reachable only through them. */
static void __attribute__((noinline)) shape_rooted(int nholders, int depth) {
  var roots[NROOTS];
  reset_world(roots); rs_reset();
  vh_op("rooted: %d root holders, chains of %d below each", nholders, depth);
  int* h = malloc(sizeof(int) * (size_t)nholders);
  for (int i = 0; i < nholders; i++) {
    h[i] = alloc_node(NK_PNODE, 1);
    int prev = h[i];
    for (int d = 0; d < depth; d++) {
      int x = alloc_node(d % 3 == 1 ? NK_REF : d % 3 == 2 ? NK_PMARK : NK_PNODE, 0);
      store_field(prev, 0, x);
      prev = x;
    }
  }
  /* holder 0 in thread-local storage; holders 1..: a cycle through field 1, and field 2 of everyone points at holder 1 */
  set(current(Thread), $S((char*)TLSKEY[0]), N[h[0]].ptr); tls_node[0] = h[0];
  for (int i = 1; i < nholders; i++) { store_field(h[i], 1, h[i + 1 < nholders ? i + 1 : 1]); }
  for (int i = 2; i < nholders; i++) { store_field(h[i], 2, h[1]); }
  recompute_reachability();
  forced_collection("rooted");
  op_garbage(&(vh_rng){{5,6,7,8}});
  forced_collection("rooted after garbage");
  /* threshold collections too */
  for (int k = 0; k < 6; k++) { op_garbage(&(vh_rng){{9,10,11,(uint64_t)k}}); check_reachable("rooted, garbage churn"); }
  vh_count("rooted_shapes");
  free(h);
  end_of_case();
}

/* chain of n links; the collection runs in a child so that a crash of the collector is observed, not suffered */
static void shape_chain(int n, int kind) {
  fflush(NULL);
  pid_t pid = vh_fork();
  if (pid < 0) { vh_info("fork failed"); return; }
  if (pid == 0) {
    var roots[NROOTS];
    if (vh.res) { int fd = fileno(vh.res); close(fd); }
    reset_world(roots); rs_reset();
    int first = alloc_node(kind, 0);
    set_root_slot(0, first);
    int prev = first;
    for (int i = 1; i < n; i++) {
      int x = alloc_node(kind, 0);
      if (kind == NK_REF || kind == NK_PNODE) { store_field(prev, 0, x); }
      else { push(N[prev].ptr, N[x].ptr); items_reserve(&N[prev], 1); N[prev].items[0] = x; N[prev].n = 1; }
      prev = x;
    }
    GC_Mark(gc); GC_Sweep(gc);
    /* walk the chain through the real pointers: every link must still be there */
    int ok = 1;
    long steps = 0;
    for (int i = first; i >= 0; ) {
      struct snode* s = &N[i];
      if (s->id > 0 && mo_state[s->id] != MO_CONSTRUCTED) { ok = 0; break; }
      if (!mem(gc, s->ptr)) { ok = 0; break; }
      steps++;
      i = (kind == NK_REF || kind == NK_PNODE) ? s->f[0] : (s->n ? s->items[0] : -1);
    }
    _exit(ok && steps == n ? 0 : 7);
  }
  int st = 0;
  waitpid(pid, &st, 0);
  vh_eval();
  char key[96];
  if (WIFEXITED(st) && WEXITSTATUS(st) == 7) {
    snprintf(key, sizeof key, "%s:chain:link-reclaimed", PROP);
    vh_violation(key, "chain of %d %s: a link was reclaimed or unregistered by a collection", n, NKNAME[kind]);
  } else if (!WIFEXITED(st) || WEXITSTATUS(st) != 0) {
    snprintf(key, sizeof key, "%s:chain:collection-did-not-complete", PROP);
    vh_violation(key, "chain of %d %s: collection ended the process (raw status 0x%x)", n, NKNAME[kind], st);
  }
  static char nm[8][40];
  int slot = n >= 1000000 ? 4 : n >= 100000 ? 3 : n >= 10000 ? 2 : n >= 1000 ? 1 : 0;
  snprintf(nm[slot], sizeof nm[slot], "chains_of_1e%d", slot + 2);
  vh_count(nm[slot]);
}

static int long_chains;

/* a registry grown past 65536 slots (70000 roots alive at once), thinned by removing every other entry, emptied:
** the recorded home slots, probe distances, count and mem agree with the table at each stage */
static void big_registry(void) {
  if (!check_c17) { return; }
  enum { NBIG = 70000 };
  var* big = malloc(NBIG * sizeof(var));
  size_t peak = 0, wrong = 0;
  for (int i = 0; i < NBIG; i++) { big[i] = new_root(Int, $I(i)); rs_add(big[i], 1, 0); }
  peak = gc->nslots;
  registry_walk("70000 roots registered");
  for (int i = 0; i < NBIG; i++) { vh_eval(); if (!mem(gc, big[i])) { wrong++; } }
  if (wrong) { vh_violation(K("registry:live-root-not-registered"), "%zu of 70000 live roots are missing from a registry of %zu slots", wrong, (size_t)gc->nslots); }
  for (int i = 0; i < NBIG; i += 2) { del_root(big[i]); rs_dead(big[i]); }
  registry_walk("every other one of 70000 roots deleted");
  wrong = 0;
  for (int i = 1; i < NBIG; i += 2) { vh_eval(); if (!mem(gc, big[i]) || c_int(big[i]) != i) { wrong++; } }
  if (wrong) { vh_violation(K("registry:live-root-not-registered"), "%zu of 35000 remaining roots are missing from the registry after every other one was deleted", wrong); }
  for (int i = 1; i < NBIG; i += 2) { del_root(big[i]); rs_dead(big[i]); }
  registry_walk("all 70000 roots deleted");
  free(big);
  if (peak > 65536) { vh_count("registries_grown_beyond_65536_slots"); }
  rs_reset();
}

static void fixed(void) {
  big_registry();
  shape_ring(3, NK_PNODE); shape_ring(50, NK_PMARK); shape_ring(1, NK_TUPLE); shape_ring(2, NK_TUPLE); shape_ring(40, NK_TUPLE);
  shape_ring(10, NK_REF);
  shape_complete(2); shape_complete(5); shape_complete(12);
  shape_fanout(1000);
  shape_rooted(2, 1); shape_rooted(3, 4); shape_rooted(9, 3); shape_rooted(40, 2);
  vh.oplen = 0; vh.oplog[0] = 0; vh.nops = 0;
  static const int KINDS[] = { NK_PNODE, NK_REF, NK_TUPLE };
  for (int k = 0; k < 3 && check_c01; k++) {
    shape_chain(100, KINDS[k]); shape_chain(1000, KINDS[k]); shape_chain(10000, KINDS[k]);
    if (long_chains) { shape_chain(100000, KINDS[k]); shape_chain(1000000, KINDS[k]); }
  }
}

/* the same mutator inside a worker thread: its own collector, its own stack bottom, its own thread-local storage */
static vh_rng* wt_rng; static int wt_nops, wt_bias; static var wt_gift;
static var worker_case(var args) {
  (void)args;
  struct GC* main_gc = gc;
  mo_thread_index = 1;
  gc = current(GC);
  if (wt_gift) {
    /* the very first thing this thread's collector is asked: to remove an object it never registered (one the parent
       made outside any collector and handed over).  The registry has never held anything at this point. */
    var g = wt_gift; wt_gift = NULL;
    bool fresh = gc->nslots == 0 && gc->nitems == 0;
    vh_eval();
    if (mem(gc, g)) { vh_violation(K("unregistered-object-reported-registered"), "a collector that registered nothing reports a foreign object as its own"); }
    del(g);
    if (gc->nitems != 0) { vh_violation(K("count-changed-by-removing-an-unregistered-object"), "registry count is %zu after del of an object that was never registered, in a collector that held nothing", (size_t)gc->nitems); }
    if (fresh) { vh_count("removals_asked_of_a_registry_that_never_held_anything"); }
  }
  run_random_case(wt_rng, wt_nops, wt_bias);
  gc = main_gc;
  return NULL;
}

static void case_random(vh_rng* r, long index) {
  int nops = 40 + (int)vh_below(r, vh.thorough ? 500 : 160);
  if (index % 5 == 4) {
    wt_rng = r; wt_nops = nops; wt_bias = (int)(index % 3);
    /* the shadow set of registered objects belongs to ONE collector: park the main thread's survivors,
       give the worker an empty set (its collector is new), restore afterwards */
    static struct rs_entry* parked; static size_t nparked, capparked;
    nparked = 0;
    if (check_c17) {
      for (size_t k = 0; k < rs_nused; k++) {
        struct rs_entry* e = &RS[rs_used[k]];
        if (e->ptr != NULL && e->state == 1 && mem(gc, e->ptr)) {
          if (nparked == capparked) { capparked = capparked ? capparked * 2 : 256; parked = realloc(parked, capparked * sizeof *parked); }
          parked[nparked++] = *e;
        }
      }
      for (size_t k = 0; k < rs_nused; k++) { memset(&RS[rs_used[k]], 0, sizeof(struct rs_entry)); }
      rs_nused = 0; rs_live = 0;
    }
    var fn = $(Function, worker_case);
    var t = new_raw(Thread, fn);
    wt_gift = (index % 10 == 4) ? new_raw(Int, $I(index)) : NULL;
    call(t); join(t);
    del_raw(t);
    if (check_c17) {
      for (size_t k = 0; k < rs_nused; k++) { memset(&RS[rs_used[k]], 0, sizeof(struct rs_entry)); }
      rs_nused = 0; rs_live = 0;
      for (size_t k = 0; k < nparked; k++) { rs_add(parked[k].ptr, parked[k].root, parked[k].probe_id); }
    }
    vh_count("cases_run_in_a_worker_thread");
    return;
  }
  run_random_case(r, nops, (int)(index % 3));
}

int main(int argc, char** argv) {
  /* own option: --prop C01|C17 (must come first) */
  if (argc > 2 && strcmp(argv[1], "--prop") == 0) {
    PROP = argv[2];
    check_c01 = strcmp(PROP, "C01") == 0;
    check_c17 = strcmp(PROP, "C17") == 0;
    argv += 2; argc -= 2;
  }
  long_chains = getenv("VH_LONG_CHAINS") != NULL;
  mo_prop = PROP;
  mo_on_destruct = on_destruct;
  N = calloc(MAXNODES, sizeof(struct snode));
  bfs_queue = malloc(sizeof(int) * MAXNODES);
  RS = calloc(RS_CAP, sizeof(struct rs_entry));
  rs_used = calloc(RS_CAP, sizeof(size_t));
  gc = current(GC);
  { static char fnbuf[sizeof(struct Header) + sizeof(struct Function)]; noop_fn = header_init(fnbuf, Function, AllocStatic); ((struct Function*)noop_fn)->func = thread_noop; }
  for (int i = 0; i < NTLS; i++) { tls_node[i] = -1; }
  return vh_run(argc, argv, "heap", fixed, case_random);
}
