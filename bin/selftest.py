#!/usr/bin/env python3
"""selftest.py [name-substring ...] [--tier quick] : run the hand-written mutants of selftest/mutants.py.

For each mutant: scratch copy of /repo under /tmp, one textual replacement, `make check` must stay green
(otherwise 'suite-red', not counted), then the listed checks with VERIF_REPO=<scratch>.  Prints one line per
mutant and writes selftest/results.json.  The scratch copy is removed after each mutant.
"""
import json
import os
import re
import shutil
import subprocess
import sys
import tempfile
import time

VERIF = os.path.dirname(os.path.dirname(os.path.abspath(__file__)))
sys.path.insert(0, os.path.join(VERIF, "selftest"))
import mutants  # noqa: E402


def sh(cmd, **kw):
    return subprocess.run(cmd, shell=True, stdout=subprocess.PIPE, stderr=subprocess.STDOUT, text=True, **kw)


def main():
    args = sys.argv[1:]
    tier = "quick"
    if "--tier" in args:
        k = args.index("--tier"); tier = args[k + 1]; del args[k:k + 2]
    sel = [m for m in mutants.M if not args or any(a in m["name"] for a in args)]
    results = []
    for m in sel:
        tmp = tempfile.mkdtemp(prefix="selftest-", dir="/tmp")
        t0 = time.time()
        try:
            sh("git -C /repo archive HEAD | tar -x -C %s" % tmp)
            path = os.path.join(tmp, m["file"])
            src = open(path).read()
            if src.count(m["old"]) != 1:
                results.append(dict(name=m["name"], status="does-not-apply (%d matches)" % src.count(m["old"])))
                print("%-40s DOES NOT APPLY (%d matches)" % (m["name"], src.count(m["old"])), flush=True)
                continue
            open(path, "w").write(src.replace(m["old"], m["new"]))
            p = sh("make -C %s check 2>&1 | grep -E '\\| Tests|error:' | head -3" % tmp)
            green = "Failed    0" in p.stdout and "133" in p.stdout
            if not green:
                results.append(dict(name=m["name"], status="suite-red", detail=p.stdout.strip()[-200:]))
                print("%-40s suite-red  %s" % (m["name"], re.sub(r"\x1b\[[0-9;]*m", "", p.stdout.strip())[-100:]), flush=True)
                continue
            det = {}
            for c in m["checks"]:
                q = subprocess.run([sys.executable, os.path.join(VERIF, "bin", "check.py"), c, "--tier", m.get("tier") or tier],
                                   env=dict(os.environ, VERIF_REPO=tmp, VERIF_NO_EVIDENCE="1", VERIF_SEED="1", **m.get("env", {})),
                                   stdout=subprocess.PIPE, stderr=subprocess.PIPE, text=True, cwd=VERIF)
                det[c] = dict(exit=q.returncode, keys=re.findall(r"key=(\S+)", q.stderr)[:6])
            hit = [c for c, d in det.items() if d["exit"] == 1]
            status = "detected" if hit else "MISSED"
            results.append(dict(name=m["name"], status=status, note=m["note"], checks=det, seconds=round(time.time() - t0, 1)))
            first = det[hit[0]]["keys"][:2] if hit else {c: d["exit"] for c, d in det.items()}
            print("%-40s %-9s by %-12s %s" % (m["name"], status, ",".join(hit) or "-", first), flush=True)
        finally:
            shutil.rmtree(tmp, ignore_errors=True)
    out = os.path.join(VERIF, "selftest", "results.json")
    old = []
    if os.path.exists(out) and args:
        old = [r for r in json.load(open(out)) if r["name"] not in {x["name"] for x in results}]
    json.dump(old + results, open(out, "w"), indent=1)
    n = len([r for r in results if r["status"] == "detected"])
    print("detected %d, missed %d, suite-red %d, not applicable %d" % (
        n, len([r for r in results if r["status"] == "MISSED"]), len([r for r in results if r["status"] == "suite-red"]),
        len([r for r in results if r["status"].startswith("does-not")])))


if __name__ == "__main__":
    main()
