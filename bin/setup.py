#!/usr/bin/env python3
"""setup_cmd: nothing to build ahead of time (every check compiles what it needs from the working tree);
verifies that the tool chain the checks rely on is present."""
import shutil
import sys
missing = [t for t in ("gcc", "clang", "python3") if shutil.which(t) is None]
if missing:
    sys.stderr.write("missing tools: %s\n" % ", ".join(missing))
    sys.exit(1)
print("setup ok")
