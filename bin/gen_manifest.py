#!/usr/bin/env python3
"""Regenerates MANIFEST.json from bin/props.py (run after adding or changing a check)."""
import json
import os
import sys
sys.path.insert(0, os.path.dirname(os.path.abspath(__file__)))
import props  # noqa: E402

VERIF = os.path.dirname(os.path.dirname(os.path.abspath(__file__)))
ids = [json.loads(l)["id"] for l in open(os.path.join(VERIF, "properties.jsonl"))]
checks = []
na = []
for pid in ids:
    sp = props.PROPS.get(pid)
    if sp is None or sp.get("disabled"):
        na.append({"property_id": pid, "reason": (sp or {}).get("disabled") or props.NOT_YET.get(
            pid, "check not built yet in this session; runtime monitoring applies (see DESIGN.md section 4), nothing is claimed until the harness exists")})
        continue
    checks.append({
        "property_id": pid,
        "quick_cmd": "python3 bin/check.py %s --tier quick" % pid,
        "thorough_cmd": "python3 bin/check.py %s --tier thorough" % pid,
        "evidence_file": "evidence/%s.json" % pid,
        "replay_cmd_template": "python3 bin/check.py %s --replay {path}" % pid,
        "engine": "cello-runtime-monitors",
        "level_claimed": {"category": sp["level"], "text": sp["level_text"], "design_ref": "DESIGN.md section 4, " + pid},
        "level_note": sp["level_note"],
        "technique": sp["technique"],
    })
m = {
    "version": 1,
    "setup_cmd": "python3 bin/setup.py",
    "hooks": {
        "guard": "CELLO_VERIF",
        "enable": "no source hooks are needed: harnesses obtain white-box access by compiling the repository's own "
                  "src/<File>.c into their translation unit (unity include) and link the remaining objects; "
                  "checks rebuild /repo/src/*.c on every invocation",
        "baseline_off_cmd": "make -C /repo clean check",
        "source_commits": [],
        "add_only": True,
    },
    "engines": [{
        "name": "cello-runtime-monitors", "path": "bin/check.py",
        "serves_properties": [c["property_id"] for c in checks],
        "kind_free_text": "runtime monitoring: generated hostile workloads against the real library under clang "
                          "ASan+UBSan / gcc TSan / LSan, with reference-model, ledger, shadow-heap, white-box structure "
                          "and trace oracles evaluated after every operation",
    }],
    "checks": checks,
    "not_applicable": na,
    "notes": "Every check rebuilds /repo/src from the working tree (VERIF_REPO overrides the path for mutation "
             "testing). Exit 0 held / 1 VIOLATION / 2 inconclusive. KNOWN_FINDINGS.txt lists open findings and fix: commits.",
}
with open(os.path.join(VERIF, "MANIFEST.json"), "w") as f:
    json.dump(m, f, indent=1)
    f.write("\n")
print("MANIFEST.json: %d checks, %d not_applicable" % (len(checks), len(na)))
