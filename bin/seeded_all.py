#!/usr/bin/env python3
"""seeded_all.py [--update] [name-substring ...] : re-apply every archived seeded change to a scratch copy of /repo's HEAD and run
the check of the property it breaks (quick tier, seed 1).  One line per change; exit 1 if any is no longer detected."""
import glob, json, os, subprocess, sys
VERIF = os.path.dirname(os.path.dirname(os.path.abspath(__file__)))
args = [a for a in sys.argv[1:] if not a.startswith("--")]
upd = ["--update"] if "--update" in sys.argv else []
bad = 0
for m in sorted(glob.glob(os.path.join(VERIF, "seeded", "*", "meta.json"))):
    name = os.path.basename(os.path.dirname(m))
    if args and not any(a in name for a in args):
        continue
    meta = json.load(open(m))
    pid = meta["breaks_property"]
    if meta.get("not_detected_by_design"):
        # archived for the record: the change does not contradict the statement as written (reason in meta.json and DESIGN 10.4)
        print("%-62s %s not detected, by design: %s" % (name, pid, meta["not_detected_by_design"][:120]), flush=True)
        continue
    # the check of the property it breaks -- or, where DESIGN 10.4 leaves the change to a sibling check that owns the
    # clause (the archived meta.json lists only siblings under detected_by), the first of those
    by = meta.get("detected_by") or []
    chk = pid if (pid in by or not by) else by[0]
    p = subprocess.run([sys.executable, os.path.join(VERIF, "bin", "mutant.py"), "rerun", name, chk] + upd,
                       stdout=subprocess.PIPE, stderr=subprocess.STDOUT, text=True)
    last = p.stdout.strip().splitlines()[-1] if p.stdout.strip() else ""
    ok = '"%s": 1' % chk in last
    bad += not ok
    print("%-62s %s %s%s" % (name, pid, "detected" if ok else "NOT DETECTED: " + p.stdout[-300:].replace("\n", " "), "" if chk == pid else " (by %s)" % chk), flush=True)
sys.exit(1 if bad else 0)
