#!/usr/bin/env python3
"""check.py <ID> [--tier quick|thorough] [--replay FILE] [--keep]

Builds /repo's working tree (or $VERIF_REPO) with the sanitizer configuration(s) the property needs,
runs the property's harness in shards, classifies every problem into a violation key, matches keys
against KNOWN_FINDINGS.txt, writes evidence/<ID>.json.

exit 0: held on everything explored (open findings print KNOWN-FINDING lines)
exit 1: VIOLATION property=<ID> replay=<path>
exit 2: inconclusive (build/harness failure, watchdog, coverage floor not met)
"""
import argparse
import json
import os
import shutil
import sys

sys.path.insert(0, os.path.dirname(os.path.abspath(__file__)))
import vlib  # noqa: E402
from vlib import Inconclusive, Outcome, log  # noqa: E402
import props  # noqa: E402


def standard(prop, spec, tier, seed, keep=False, replay=None):
    out = Outcome(prop, tier, seed, spec["level"])
    bd = vlib.builddir(prop)
    rc = 2
    try:
        runs = spec[tier]
        if os.environ.get("VERIF_ONLY_CONFIG"):      # development aid: one configuration only (floors will not be met)
            runs = [r for r in runs if r[0] == os.environ["VERIF_ONLY_CONFIG"]]
        if replay:
            runs = [r for r in runs if r[0] == replay.get("config")] or runs[:1]
        for run in runs:
            config, nshards, cases = run[0], run[1], run[2]
            opts = run[3] if len(run) > 3 else {}
            cdir = os.path.join(bd, config + opts.get("tag", ""))
            exe = vlib.build(config, cdir, os.path.join(vlib.VERIF, "harness", spec["harness"]),
                             unity=spec.get("unity", ()), extra_cflags=spec.get("cflags", "") + " " + opts.get("cflags", ""),
                             extra_ld=spec.get("ld", "") + " " + opts.get("ld", ""))
            leaks = spec.get("leaks", False) and config == "asan"
            supp = os.path.join(vlib.VERIF, "supp", "tsan.supp")

            def env_fn(d, leaks=leaks, opts=opts):
                e = vlib.san_env(d, leaks=leaks, tsan_supp=supp if os.path.exists(supp) else None)
                e.update(spec.get("env", {}))
                e.update(opts.get("env", {}))
                return e
            extra = list(spec.get("args", ())) + list(opts.get("args", ()))
            first = []
            if spec.get("prop_args_first"):
                first, extra = extra, []
            only = None
            if replay:
                only = replay.get("shard", 0)
                nshards = replay.get("nshards", nshards)
                cases = replay.get("cases", cases)
                where = replay.get("where", "")
                case = replay.get("case")
                label = replay.get("label")
                if case is None and where.count(":") >= 2:
                    label, c, _ = where.split(":")[:3]
                    case = int(c)
                if label == "fixed" or (case is not None and case < 0):
                    extra += ["--fixed-only"]
                elif case is not None:
                    extra += ["--case", str(case)]
            results = vlib.run_shards(exe, os.path.join(cdir, "run"), nshards, cases, seed,
                                      thorough=(tier == "thorough"), env_fn=env_fn,
                                      timeout=spec.get("timeout", {"quick": 900, "thorough": 5400})[tier],
                                      extra_args=extra, prop=prop, budget=opts.get("budget", spec.get("budget")), only_shard=only, first_args=first,
                                      stack_mb=spec.get("stack_mb"), wrapper=vlib.memcheck_wrapper if config == "memcheck" else None)
            if any(r.timed_out for r in results) and not replay:
                log("watchdog fired; retrying once")
                results = vlib.run_shards(exe, os.path.join(cdir, "run2"), nshards, cases, seed,
                                          thorough=(tier == "thorough"), env_fn=env_fn,
                                          timeout=spec.get("timeout", {"quick": 900, "thorough": 5400})[tier],
                                          extra_args=extra, prop=prop, budget=opts.get("budget", spec.get("budget")), first_args=first,
                                          stack_mb=spec.get("stack_mb"), wrapper=vlib.memcheck_wrapper if config == "memcheck" else None)
            out.absorb([r for r in results if only is None or r.shard == only], config + opts.get("tag", ""),
                       dict(config=config, nshards=nshards, cases=cases))
        post = spec.get("post")
        if post:
            post(out)
        floors = {} if replay else spec.get("floors", {}).get(tier, spec.get("floors", {}).get("quick", {}))
        rc = vlib.finish(out, spec["rule"], floors, spec.get("assumptions", ()),
                         exhaustive=spec.get("exhaustive"))
    except Inconclusive as e:
        log("INCONCLUSIVE: %s" % e)
        rc = 2
    finally:
        if not keep:
            shutil.rmtree(bd, ignore_errors=True)
            try:
                os.rmdir(os.path.join(vlib.VERIF, ".build"))
            except OSError:
                pass
    return rc


def main():
    ap = argparse.ArgumentParser()
    ap.add_argument("prop")
    ap.add_argument("--tier", default=os.environ.get("VERIF_TIER", "quick"), choices=["quick", "thorough"])
    ap.add_argument("--replay")
    ap.add_argument("--keep", action="store_true")
    a = ap.parse_args()
    seed = int(os.environ.get("VERIF_SEED", "1") or 1)
    tier = a.tier
    replay = None
    if a.replay:
        rj = json.load(open(a.replay))
        replay = rj.get("replay") or {}
        seed = int(rj.get("seed", seed))
        tier = rj.get("tier", tier)
    spec = props.PROPS.get(a.prop)
    if spec is None:
        log("unknown property %s" % a.prop)
        return 2
    runner = spec.get("runner")
    if runner:
        return runner(a.prop, spec, tier, seed, keep=a.keep, replay=replay)
    return standard(a.prop, spec, tier, seed, keep=a.keep, replay=replay)


if __name__ == "__main__":
    sys.exit(main())
