#!/usr/bin/env python3
"""mutant.py -- evaluate / archive a seeded change that lives (uncommitted) in a scratch worktree of /repo.

  mutant.py eval  <worktree> <ID> [<ID>...] [--tier quick|thorough] [--seed N]
      1. confirms the change compiles and `make check` stays green in the worktree,
      2. confirms the demonstration (demo.c) fails with the change and passes without it (git stash),
      3. runs the named checks with VERIF_REPO=<worktree> and prints the violation keys that fire.
  mutant.py save  <worktree> <name> <ID> "<what it needs to manifest>"
      archives patch.diff, demo.c and meta.json under /verif/seeded/<name>/ (re-running eval for meta.json).
  mutant.py rerun <name> [--tier ...]
      applies seeded/<name>/patch.diff to a fresh scratch copy of /repo under /tmp, runs the recorded checks, removes the copy.
"""
import json
import os
import re
import shutil
import subprocess
import sys
import tempfile
import time

VERIF = os.path.dirname(os.path.dirname(os.path.abspath(__file__)))


def sh(cmd, **kw):
    return subprocess.run(cmd, shell=True, stdout=subprocess.PIPE, stderr=subprocess.STDOUT, text=True, errors="replace", **kw)


def suite_green(wt):
    p = sh("make -C %s clean check 2>&1 | grep -E '\\| Tests|error:' | head -5" % wt)
    ok = "Failed    0" in p.stdout and "133" in p.stdout
    return ok, p.stdout.strip()[-300:]


def demo(wt):
    if os.path.exists(os.path.join(wt, "demo.sh")):
        # a demonstration that needs several build configurations brings its own script
        p = sh("cd %s && timeout 600 sh ./demo.sh >demo.out 2>&1; echo EXIT=$?; tail -3 demo.out" % wt)
        m = re.search(r"EXIT=(\d+)", p.stdout)
        return (int(m.group(1)) if m else -1), p.stdout.strip()[-400:]
    if not os.path.exists(os.path.join(wt, "demo.c")):
        return None, "no demo.c"
    p = sh("make -C %s clean all >/dev/null 2>&1; gcc -std=gnu99 -Wno-unused -I %s/include %s/demo.c %s/libCello.a -lpthread -lm -o %s/demo 2>&1 | tail -3; "
           "cd %s && timeout 120 ./demo; echo EXIT=$?" % (wt, wt, wt, wt, wt, wt))
    m = re.search(r"EXIT=(\d+)", p.stdout)
    return (int(m.group(1)) if m else -1), p.stdout.strip()[-400:]


def run_checks(wt, ids, tier, seed):
    res = {}
    for i in ids:
        t0 = time.time()
        p = subprocess.run([sys.executable, os.path.join(VERIF, "bin", "check.py"), i, "--tier", tier],
                           env=dict(os.environ, VERIF_REPO=wt, VERIF_SEED=str(seed), VERIF_NO_EVIDENCE="1"),
                           stdout=subprocess.PIPE, stderr=subprocess.PIPE, text=True, cwd=VERIF)
        keys = re.findall(r"key=(\S+)", p.stderr)
        res[i] = {"exit": p.returncode, "keys": keys, "wall_s": round(time.time() - t0, 1),
                  "tail": [l for l in p.stderr.splitlines() if "INCONCLUSIVE" in l][:3]}
        print("  %s -> exit %d in %.0fs: %s" % (i, p.returncode, time.time() - t0, ", ".join(keys[:8]) or res[i]["tail"]))
    return res


def evaluate(wt, ids, tier="quick", seed=1):
    info = {"worktree": wt}
    diff = sh("git -C %s diff -- src include" % wt).stdout
    info["diff_lines"] = len([l for l in diff.splitlines() if l.startswith(("+", "-")) and not l.startswith(("+++", "---"))])
    ok, txt = suite_green(wt)
    info["suite_green_with_change"] = ok
    print("suite with change: %s  (%s)" % ("green" if ok else "RED", txt.replace("\n", " ")[-120:]))
    rc1, out1 = demo(wt)
    print("demo with change: exit %s" % rc1)
    # NOT git stash: the stash is shared by all worktrees of a repository
    pf = os.path.join(wt, ".mutant-eval.patch")
    open(pf, "w").write(diff)
    sh("git -C %s checkout -- src include" % wt)
    try:
        rc0, out0 = demo(wt)
    finally:
        r = sh("git -C %s apply %s" % (wt, pf))
        if r.returncode != 0:
            print("WARNING: could not re-apply the change: %s" % r.stdout)
        os.remove(pf)
    print("demo without change: exit %s" % rc0)
    info["demo_exit_with_change"] = rc1
    info["demo_exit_without_change"] = rc0
    info["demo_discriminates"] = (rc0 == 0 and rc1 not in (0, None))
    sh("make -C %s clean all >/dev/null 2>&1" % wt)
    info["checks"] = run_checks(wt, ids, tier, seed)
    info["detected_by"] = [i for i, r in info["checks"].items() if r["exit"] == 1]
    return info, diff


def main():
    a = sys.argv[1:]
    tier, seed = "quick", 1
    if "--tier" in a:
        k = a.index("--tier"); tier = a[k + 1]; del a[k:k + 2]
    if "--seed" in a:
        k = a.index("--seed"); seed = int(a[k + 1]); del a[k:k + 2]
    if a[0] == "eval":
        info, _ = evaluate(a[1], a[2:], tier, seed)
        print(json.dumps({k: v for k, v in info.items() if k != "checks"}, indent=1))
    elif a[0] == "save":
        wt, name, pid, needs = a[1], a[2], a[3], a[4]
        ids = [pid] + a[5:]
        info, diff = evaluate(wt, ids, tier, seed)
        d = os.path.join(VERIF, "seeded", name)
        os.makedirs(d, exist_ok=True)
        open(os.path.join(d, "patch.diff"), "w").write(diff)
        for fn in ("demo.c", "demo.sh"):
            if os.path.exists(os.path.join(wt, fn)):
                shutil.copy(os.path.join(wt, fn), os.path.join(d, fn))
        meta = {"breaks_property": pid, "needs_to_manifest": needs,
                "base_commit": sh("git -C %s rev-parse --short HEAD" % wt).stdout.strip(),
                "confirmed": {"suite_green_with_change": info["suite_green_with_change"],
                              "demo_fails_with_change": info["demo_exit_with_change"] not in (0, None),
                              "demo_passes_without_change": info["demo_exit_without_change"] == 0},
                "what_was_run": "make clean check (suite), demo.c with and without the change, then: " +
                                "; ".join("VERIF_REPO=<scratch> python3 bin/check.py %s --tier %s" % (i, tier) for i in ids),
                "results": info["checks"], "detected_by": info["detected_by"]}
        json.dump(meta, open(os.path.join(d, "meta.json"), "w"), indent=1)
        print("saved %s (detected by %s)" % (d, info["detected_by"]))
    elif a[0] == "rerun":
        name = a[1]
        d = os.path.join(VERIF, "seeded", name)
        meta = json.load(open(os.path.join(d, "meta.json")))
        tmp = tempfile.mkdtemp(prefix="mut-rerun-", dir="/tmp")
        try:
            sh("git -C /repo archive HEAD | tar -x -C %s" % tmp)
            p = sh("cd %s && patch -p1 < %s" % (tmp, os.path.join(d, "patch.diff")))
            if p.returncode != 0:
                print("patch does not apply: %s" % p.stdout[-300:]); sys.exit(2)
            ids = [x for x in a[2:] if re.match(r"C\d\d$", x)] or list(meta["results"].keys())
            res = run_checks(tmp, ids, tier, seed)
            print(json.dumps({i: r["exit"] for i, r in res.items()}))
            if "--update" in a:
                meta["results"].update(res)
                meta["detected_by"] = [i for i, r in meta["results"].items() if r["exit"] == 1]
                json.dump(meta, open(os.path.join(d, "meta.json"), "w"), indent=1)
        finally:
            shutil.rmtree(tmp, ignore_errors=True)


if __name__ == "__main__":
    main()
