#!/usr/bin/env python3
"""Shared machinery of the Cello runtime-monitoring checks: build, run shards, classify, evidence."""
import concurrent.futures as cf
import glob
import hashlib
import json
import os
import re
import shutil
import signal
import subprocess
import sys
import time

VERIF = os.path.dirname(os.path.dirname(os.path.abspath(__file__)))
REPO = os.environ.get("VERIF_REPO", "/repo")
NCPU = os.cpu_count() or 4

CONFIGS = {
    # clang, not gcc, for ASan: Cello.h marks the conservative stack scan no_sanitize only under clang
    "asan": dict(cc="clang", cflags="-O1 -g -fno-omit-frame-pointer -fsanitize=address,undefined "
                                    "-fno-sanitize-recover=all -fno-sanitize=pointer-overflow", ld="-fsanitize=address,undefined"),
    "plain": dict(cc="gcc", cflags="-O2 -g -fno-omit-frame-pointer", ld=""),
    "plain0": dict(cc="gcc", cflags="-O0 -g -fno-omit-frame-pointer", ld=""),
    "tsan": dict(cc="gcc", cflags="-O1 -g -fno-omit-frame-pointer -fsanitize=thread", ld="-fsanitize=thread"),
    # uninstrumented build run under valgrind memcheck: the one tool here that sees reads of uninitialised memory
    "memcheck": dict(cc="gcc", cflags="-O1 -g -fno-omit-frame-pointer", ld=""),
}


def memcheck_wrapper(outdir):
    return ["valgrind", "-q", "--error-exitcode=97", "--leak-check=no", "--num-callers=24", "--child-silent-after-fork=no", "--track-origins=yes",
            "--suppressions=" + os.path.join(VERIF, "supp", "memcheck.supp"), "--log-file=" + os.path.join(outdir, "memcheck.%p")]


MEMCHECK_KINDS = [
    (r"Conditional jump or move depends on uninitialised value", "uninitialised-value-decides-a-branch"),
    (r"Use of uninitialised value of size", "uninitialised-value-used-as-address"),
    (r"Syscall param .* uninitialised", "uninitialised-bytes-passed-to-the-kernel"),
    (r"Invalid read of size", "invalid-read"),
    (r"Invalid write of size", "invalid-write"),
    (r"Invalid free\(\)|Mismatched free", "invalid-free"),
    (r"Source and destination overlap", "overlapping-copy"),
    (r"Argument '\w+' of function \w+ has a fishy", "fishy-size-argument"),
    (r"Process terminating with default action of signal (\d+)", "fatal-signal"),
]


def classify_memcheck(text, repo):
    """-> list of (kind, site, harness_only) for every error block of a memcheck log"""
    out = []
    srcs = set(os.path.basename(f) for f in glob.glob(os.path.join(repo, "src", "*.c"))) | {"Cello.h"}
    blocks = re.split(r"\n==\d+== \n", "\n" + text)
    for b in blocks:
        kind = None
        for pat, name in MEMCHECK_KINDS:
            if re.search(pat, b):
                kind = name
                break
        if not kind or kind == "fatal-signal":
            continue
        frames = re.findall(r"(?:at|by) 0x[0-9A-Fa-f]+: (\S+) \((?:in )?([^:)]+)(?::(\d+))?\)", b)
        site = None
        # the stack of the error first, then the stack of the origin ("Uninitialised value was created by ..."): a value
        # the library left uninitialised and the harness merely read is the library's, not the harness's
        for fn, fil, _ in frames:
            if os.path.basename(fil) in srcs:
                site = fn
                break
        harness_only = site is None
        out.append((kind, site or "?", harness_only, b.strip()[:1500]))
    return out
BASE_CFLAGS = "-std=gnu99 -DCELLO_NSTRACE -Wno-unused -Wno-unused-value"


class Inconclusive(Exception):
    pass


def log(msg):
    sys.stderr.write(msg + "\n")
    sys.stderr.flush()


def run(cmd, **kw):
    return subprocess.run(cmd, stdout=subprocess.PIPE, stderr=subprocess.PIPE, text=True, **kw)


def _cc(args):
    p = run(args)
    return (args, p.returncode, p.stderr)


def build(config, outdir, harness_src, unity=(), extra_cflags="", extra_ld="", cc=None, cflags=None,
          repo=None, extra_src=()):
    """Compile every <repo>/src/*.c (minus unity-included ones) and the harness with identical flags."""
    repo = repo or REPO
    cfg = CONFIGS.get(config, {})
    cc = cc or cfg["cc"]
    cflags = cflags if cflags is not None else cfg["cflags"]
    ld = cfg.get("ld", "")
    os.makedirs(outdir, exist_ok=True)
    srcs = sorted(glob.glob(os.path.join(repo, "src", "*.c")))
    if not srcs:
        raise Inconclusive("no sources under %s/src" % repo)
    common = [cc] + cflags.split() + BASE_CFLAGS.split() + extra_cflags.split() + \
        ["-I", os.path.join(repo, "include"), "-I", os.path.join(repo, "src"),
         "-I", os.path.join(VERIF, "harness", "common")]
    jobs = []
    objs = []
    for s in srcs:
        if os.path.basename(s) in unity:
            continue
        o = os.path.join(outdir, os.path.basename(s)[:-2] + ".o")
        objs.append(o)
        jobs.append(common + ["-c", s, "-o", o])
    hobjs = []
    for hs in [harness_src] + list(extra_src):
        ho = os.path.join(outdir, "h_" + os.path.basename(hs)[:-2] + ".o")
        hobjs.append(ho)
        jobs.append(common + ["-c", hs, "-o", ho])
    with cf.ThreadPoolExecutor(max_workers=NCPU) as ex:
        for args, rc, err in ex.map(_cc, jobs):
            if rc != 0:
                raise Inconclusive("build failed: %s\n%s" % (" ".join(args), err[-3000:]))
    exe = os.path.join(outdir, "harness")
    link = [cc] + hobjs + objs + ld.split() + extra_ld.split() + ["-lpthread", "-lm", "-o", exe]
    p = run(link)
    if p.returncode != 0:
        raise Inconclusive("link failed: %s\n%s" % (" ".join(link), p.stderr[-3000:]))
    return exe


def san_env(outdir, leaks=False, tsan_supp=None):
    env = dict(os.environ)
    env["ASAN_OPTIONS"] = ("exitcode=99:abort_on_error=0:detect_stack_use_after_return=0:"
                           "detect_leaks=%d:log_path=%s/asan:allocator_may_return_null=1:"
                           "handle_segv=1:handle_sigfpe=1:malloc_context_size=12" % (1 if leaks else 0, outdir))
    env["UBSAN_OPTIONS"] = "print_stacktrace=1:exitcode=99:log_path=%s/asan" % outdir
    env["LSAN_OPTIONS"] = "exitcode=99:log_path=%s/asan" % outdir
    t = "halt_on_error=0:exitcode=98:log_path=%s/tsan:second_deadlock_stack=1" % outdir
    if tsan_supp:
        t += ":suppressions=%s" % tsan_supp
    env["TSAN_OPTIONS"] = t
    return env


class ShardResult:
    def __init__(self, shard):
        self.shard = shard
        self.rc = None
        self.violations = []      # (key, text)
        self.counters = {}
        self.hashes = {}          # hash -> nontrivial
        self.samples = []
        self.evals = 0
        self.info = []
        self.done = False
        self.stderr = ""
        self.crashes = []         # (key, text, case_index)
        self.timed_out = False


def _parse_res(path, sr):
    if not os.path.exists(path):
        return
    sr.done = False
    with open(path, errors="replace") as f:
        for line in f:
            line = line.rstrip("\n")
            if line.startswith("V "):
                parts = line.split(" ", 2)
                sr.violations.append((parts[1], parts[2] if len(parts) > 2 else ""))
            elif line.startswith("C "):
                try:
                    _, name, n = line.split(" ", 2)
                    sr.counters[name] = sr.counters.get(name, 0) + int(n)
                except ValueError:
                    continue
            elif line.startswith("H "):
                parts = line.split(" ")
                if len(parts) != 3 or parts[2] not in ("0", "1"):
                    continue    # torn line of a process that died
                sr.hashes[parts[1]] = max(sr.hashes.get(parts[1], 0), int(parts[2]))
            elif line.startswith("S "):
                sr.samples.append(line[2:])
            elif line.startswith("E "):
                try:
                    sr.evals += int(line[2:])
                except ValueError:
                    continue
            elif line.startswith("I "):
                sr.info.append(line[2:])
            elif line == "DONE":
                sr.done = True


SRC_FRAME = re.compile(r"#\d+ (?:0x[0-9a-f]+ in )?(\w+) [^\n]*?/src/(\w+\.c)")


def classify_sanitizer(text):
    """-> (tool, kind, site) from a sanitizer report"""
    site = "?"
    m = SRC_FRAME.search(text)
    if m:
        site = m.group(1)
    m = re.search(r"ERROR: AddressSanitizer: ([\w-]+)", text)
    if m:
        kind = m.group(1)
        if kind == "attempting":
            m2 = re.search(r"attempting (double-free|free on address which was not malloc)", text)
            kind = "double-free" if m2 and "double" in m2.group(1) else "bad-free"
        return ("asan", kind, site)
    m = re.search(r"runtime error: ([^\n]*)", text)
    if m:
        msg = m.group(1)
        msg = re.sub(r"0x[0-9a-f]+", "ADDR", msg)
        msg = re.sub(r"-?\d+", "N", msg)
        msg = re.sub(r"[^A-Za-z]+", "-", msg).strip("-")[:60]
        m3 = re.search(r"(\w+\.c):\d+:\d+: runtime error", text)
        if site == "?" and m3:
            site = m3.group(1)
        return ("ubsan", msg, site)
    m = re.search(r"ERROR: LeakSanitizer: detected memory leaks", text)
    if m:
        # site: first /src/ frame of the first leak
        return ("lsan", "leak", site)
    m = re.search(r"WARNING: ThreadSanitizer: ([\w -]+?) \(", text)
    if m:
        return ("tsan", m.group(1).replace(" ", "-"), site)
    m = re.search(r"ERROR: ThreadSanitizer: ([\w-]+)", text)
    if m:
        # a fatal signal inside the instrumented program, reported by the TSan runtime (SEGV, stack-overflow, ...)
        return ("tsan", m.group(1), site)
    if "ThreadSanitizer:DEADLYSIGNAL" in text:
        return ("tsan", "deadly-signal", site)
    if "ThreadSanitizer: can't find longjmp buf" in text:
        # the runtime keeps, per thread, the jump buffers that thread filled with setjmp; it stops the process when a
        # thread longjmps to a buffer it never filled (another thread's, or one whose frame is gone)
        return ("tsan", "longjmp-to-a-buffer-this-thread-never-set", site)
    return None


SIGNAMES = {int(v): k for k, v in signal.__dict__.items() if k.startswith("SIG") and not k.startswith("SIG_")
            and isinstance(v, int)}


def run_shards(exe, outdir0, nshards, cases, seed, thorough=False, env_fn=None, timeout=900, extra_args=(),
               prop="C00", max_restarts=6, budget=None, only_shard=None, stack_mb=None, first_args=(), wrapper=None):
    """Run the harness in nshards processes; restart a shard after the case that killed it."""
    os.makedirs(outdir0, exist_ok=True)
    results = [ShardResult(i) for i in range(nshards)]

    def pre():
        if stack_mb:
            import resource
            resource.setrlimit(resource.RLIMIT_STACK, (stack_mb << 20, stack_mb << 20))

    def one(i):
        sr = results[i]
        start_from = None
        restarts = 0
        outdir = os.path.join(outdir0, "s%d" % i)
        os.makedirs(outdir, exist_ok=True)
        env = env_fn(outdir) if env_fn else dict(os.environ)
        while True:
            args = (wrapper(outdir) if wrapper else []) + [exe] + list(first_args) + ["--out", outdir, "--seed", str(seed), "--shard", "%d/%d" % (i, nshards),
                    "--cases", str(cases)] + list(extra_args)
            if thorough:
                args.append("--thorough")
            if budget:
                args += ["--budget", str(budget)]
            if start_from is not None:
                args += ["--from", str(start_from)]
            rc, err, stalled = run_monitored(args, env, outdir, timeout, pre if stack_mb else None)
            if rc == -999:
                sr.timed_out = True
                sr.rc = -999
                sr.stderr = err
                return
            sr.rc = rc
            sr.stderr += err[-6000:]
            res = os.path.join(outdir, "shard-%d.res" % i)
            sr2 = ShardResult(i)
            _parse_res(res, sr2)
            if rc == 0 and sr2.done:
                break
            if wrapper and rc == 97 and sr2.done:
                # memcheck: the run went to its end; every error block is in the logs
                body = ""
                for lf in sorted(glob.glob(os.path.join(outdir, "memcheck.*"))):
                    body += open(lf, errors="replace").read() + "\n"
                seen_mc = set()
                for kind, site, harness_only, text in classify_memcheck(body, REPO):
                    if harness_only:
                        raise Inconclusive("memcheck error with no frame in the library (harness bug, not a verdict): " + text[:600])
                    if (kind, site) in seen_mc:
                        continue
                    seen_mc.add((kind, site))
                    sr.crashes.append(("%s:memcheck:%s:%s" % (prop, kind, site), "valgrind memcheck: " + " / ".join(text.splitlines()[:8]), None, "memcheck"))
                if not seen_mc:
                    raise Inconclusive("valgrind exit code 97 but no error block could be parsed: " + body[-800:])
                break
            # died: attribute to the case in the progress file
            prog = ""
            try:
                prog = open(os.path.join(outdir, "shard-%d.prog" % i)).read()
            except OSError:
                pass
            m = re.search(r"case (-?\d+) (\d+) (\S+) (\w+)", prog)
            cidx = int(m.group(1)) if m else None
            label = m.group(3) if m else "?"
            where = "%s:%s:%s" % (label, m.group(1) if m else "?", m.group(2) if m else "?")
            key = None
            text = ""
            if stalled:
                key = "%s:stall:%s" % (prop, label)
                text = ("no CPU time was consumed for %d s while case %s was running (all threads blocked: deadlock or "
                        "lost wake-up)" % (STALL_SECONDS, where))
            elif "BUDGET" in prog or rc == 3:
                key = "%s:hang:%s" % (prop, label)
                text = "CPU-time budget exhausted in case %s" % where
            else:
                san = None
                # sanitizer logs written by this process
                logs = sorted(glob.glob(os.path.join(outdir, "asan.*")) + glob.glob(os.path.join(outdir, "tsan.*")),
                              key=os.path.getmtime)
                body = ""
                for lf in logs:
                    try:
                        body += open(lf, errors="replace").read()
                    except OSError:
                        pass
                    try:
                        os.rename(lf, lf.replace("/asan.", "/seen-asan.").replace("/tsan.", "/seen-tsan."))
                    except OSError:
                        pass
                body += err
                tsan_blocks = [b for b in re.split(r"(?=WARNING: ThreadSanitizer:)", body) if b.startswith("WARNING: ThreadSanitizer:")]
                if tsan_blocks:
                    seen_ts = set()
                    for b in tsan_blocks:
                        c = classify_sanitizer(b)
                        if not c or (c[1], c[2]) in seen_ts:
                            continue
                        seen_ts.add((c[1], c[2]))
                        sr.crashes.append(("%s:tsan:%s:%s" % (prop, c[1], c[2]),
                                           "ThreadSanitizer report during case %s: %s" % (where, _first_report(b)), cidx, label))
                    if seen_ts:
                        restarts += 1
                        if cidx is None or restarts > max_restarts:
                            break
                        start_from = cidx + 1 if cidx >= 0 else 0
                        if start_from >= cases:
                            break
                        continue
                san = classify_sanitizer(body)
                if san and san[0] == "ubsan" and re.search(r"/verif/harness/[\w/.]+:\d+:\d+: runtime error", body):
                    raise Inconclusive("undefined behaviour inside the harness itself (harness bug, not a verdict): "
                                       + _first_report(body))
                if san:
                    key = "%s:%s:%s:%s" % (prop, san[0], san[1], san[2])
                    text = "sanitizer report in case %s: %s" % (where, _first_report(body))
                elif rc < 0:
                    key = "%s:crash:%s:%s" % (prop, SIGNAMES.get(-rc, "SIG%d" % -rc), label)
                    text = "killed by signal %d in case %s" % (-rc, where)
                elif "Uncaught" in err:
                    m2 = re.search(r"Uncaught (\w+)", err)
                    key = "%s:uncaught:%s:%s" % (prop, m2.group(1) if m2 else "?", label)
                    m3 = re.search(r"!!\t\t (.*)", err)
                    text = "uncaught Cello exception in case %s: %s" % (where, m3.group(1) if m3 else "")
                elif "Cello Fatal Error" in err:
                    key = "%s:fatal:%s" % (prop, label)
                    text = "Cello fatal error in case %s: %s" % (where, err.strip()[-200:])
                else:
                    raise Inconclusive("harness shard %d exited %s without DONE; stderr: %s" % (i, rc, err[-2000:]))
            sr.crashes.append((key, text, cidx, label))
            # a hang costs a whole CPU budget (a stall 45 s of wall clock): after two of them in one shard the verdict
            # is in, further restarts only cost time
            restarts += 3 if (":hang:" in key or ":stall:" in key) else 1
            if cidx is None or restarts > max_restarts:
                break
            start_from = cidx + 1 if cidx >= 0 else 0
            if start_from >= cases:
                # still need DONE record for counters: run with from=cases (no cases) to flush nothing
                break
        _parse_res(os.path.join(outdir, "shard-%d.res" % i), sr)

    todo = [i for i in range(nshards) if only_shard is None or i == only_shard]
    with cf.ThreadPoolExecutor(max_workers=min(nshards, NCPU)) as ex:
        futs = [ex.submit(one, i) for i in todo]
        for f in futs:
            f.result()
    return results


STALL_SECONDS = 45


def _group_cpu(pgid):
    """user+system CPU seconds of every process in the process group (the harness and what it forked)"""
    total = 0
    tick = os.sysconf("SC_CLK_TCK")
    for d in os.listdir("/proc"):
        if not d.isdigit():
            continue
        try:
            f = open("/proc/%s/stat" % d).read()
            rest = f[f.rindex(")") + 2:].split()
            if int(rest[2]) == pgid:             # field 5 = pgrp
                total += int(rest[11]) + int(rest[12])
        except (OSError, ValueError, IndexError):
            continue
    return total / float(tick)


def run_monitored(args, env, cwd, timeout, preexec):
    """Run one shard. Returns (rc, stderr, stalled). rc -999 = wall-clock watchdog (inconclusive).
    A process group that consumes no CPU at all for STALL_SECONDS is blocked for good (this does not depend on
    machine load: a runnable process always accumulates some CPU time) and is killed and reported as stalled."""
    import signal as _sig
    errf = open(os.path.join(cwd, "stderr.%d.txt" % os.getpid()), "a+", errors="replace")

    def pre():
        os.setsid()
        if preexec:
            preexec()
    p = subprocess.Popen(args, stdout=subprocess.DEVNULL, stderr=errf, env=env, cwd=cwd, preexec_fn=pre)
    t0 = time.time()
    last_cpu, last_change = -1.0, time.time()
    stalled = False
    while True:
        try:
            p.wait(timeout=1.0)
            break
        except subprocess.TimeoutExpired:
            pass
        now = time.time()
        cpu = _group_cpu(p.pid)
        if cpu > last_cpu + 0.01:
            last_cpu, last_change = cpu, now
        elif now - last_change > STALL_SECONDS:
            stalled = True
        if stalled or now - t0 > timeout:
            try:
                os.killpg(p.pid, _sig.SIGKILL)
            except OSError:
                pass
            p.wait()
            break
    try:
        os.killpg(p.pid, _sig.SIGKILL)         # stray children of a harness that died
    except OSError:
        pass
    errf.seek(0)
    err = errf.read()[-20000:]
    errf.close()
    try:
        os.remove(errf.name)
    except OSError:
        pass
    if not stalled and p.returncode is not None and time.time() - t0 > timeout and p.returncode < 0:
        return -999, err, False
    return p.returncode, err, stalled


def _first_report(body):
    lines = [l for l in body.splitlines() if l.strip()]
    out = []
    for l in lines:
        if "ERROR:" in l or "runtime error" in l or "WARNING: ThreadSanitizer" in l or re.match(r"\s*#\d+ ", l):
            out.append(l.strip())
        if len(out) >= 8:
            break
    return " / ".join(out)[:900]


# ---------- known findings ----------

def load_findings():
    path = os.path.join(VERIF, "KNOWN_FINDINGS.txt")
    open_f = {}
    if os.path.exists(path):
        for line in open(path):
            line = line.strip()
            if line.startswith("finding:"):
                m = re.match(r"finding:\s+property=(\S+)\s+key=(\S+)\s+(.*)", line)
                if m:
                    open_f[m.group(2)] = (m.group(1), m.group(3))
    return open_f


# ---------- verdict / evidence ----------

class Outcome:
    def __init__(self, prop, tier, seed, level):
        self.prop, self.tier, self.seed, self.level = prop, tier, seed, level
        self.violations = {}      # key -> [texts]
        self.replays = {}         # key -> replay descriptor
        self.counters = {}
        self.hashes = {}
        self.samples = []
        self.evals = 0
        self.builds = []
        self.info = []
        self.inconclusive = []
        self.extra = {}
        self.t0 = time.time()

    def absorb(self, results, build_name, replay_base):
        for sr in results:
            if sr.timed_out:
                self.inconclusive.append("wall-clock watchdog fired on shard %d of build %s" % (sr.shard, build_name))
            for key, text in sr.violations:
                self.add_violation(key, "[%s] %s" % (build_name, text),
                                   dict(replay_base, shard=sr.shard, where=text.split(" ", 1)[0]))
            for key, text, cidx, label in sr.crashes:
                self.add_violation(key, "[%s] %s" % (build_name, text),
                                   dict(replay_base, shard=sr.shard, case=cidx, label=label))
            for k, v in sr.counters.items():
                self.counters[k] = self.counters.get(k, 0) + v
            for h, nt in sr.hashes.items():
                self.hashes[h] = max(self.hashes.get(h, 0), nt)
            for smp in sr.samples:
                if len(self.samples) < 6 and smp not in self.samples:
                    self.samples.append(smp)
            self.evals += sr.evals
            self.info += sr.info[:20]
        if build_name not in self.builds:
            self.builds.append(build_name)

    def add_violation(self, key, text, replay=None):
        self.violations.setdefault(key, []).append(text)
        if replay is not None and key not in self.replays:
            self.replays[key] = replay


def finish(out, rule, floors=None, assumptions=(), samples_extra=(), exhaustive=None):
    """Print verdict lines, write evidence, return exit code."""
    prop = out.prop
    findings = load_findings()
    known, unknown = [], []
    for key in sorted(out.violations):
        if key in findings and findings[key][0] == prop:
            known.append(key)
        else:
            unknown.append(key)
    floors = floors or {}
    unmet = ["%s=%d<%d" % (k, out.counters.get(k, 0), v) for k, v in floors.items() if out.counters.get(k, 0) < v]
    distinct_nt = sum(1 for v in out.hashes.values() if v)
    cov = {
        "evaluations": int(out.evals),
        "distinct_nontrivial": int(distinct_nt),
        "distinct_cases": len(out.hashes),
        "rule": rule,
        "samples": (list(samples_extra) + out.samples)[:8] or ["(no samples recorded)"],
        "reached_events": dict(sorted(out.counters.items())),
        "floors": floors,
        "builds": out.builds,
        "known_findings_reproduced": known,
        "violation_keys": unknown,
    }
    if exhaustive is not None:
        cov["exhaustive"] = bool(exhaustive)
    cov.update(out.extra)
    ev = {
        "property_id": prop, "tier": out.tier, "seed": int(out.seed), "level": out.level,
        "coverage": cov, "assumptions": list(assumptions),
        "wall_s": round(time.time() - out.t0, 2), "violations": len(unknown),
    }
    scratch = os.environ.get("VERIF_NO_EVIDENCE")     # mutation runs against a scratch tree must not overwrite evidence
    if not scratch:
        os.makedirs(os.path.join(VERIF, "evidence"), exist_ok=True)
        with open(os.path.join(VERIF, "evidence", "%s.json" % prop), "w") as f:
            json.dump(ev, f, indent=1, sort_keys=False)
            f.write("\n")
    for key in known:
        print("KNOWN-FINDING: property=%s %s [%s]" % (prop, findings[key][1], key))
    rc = 0
    if unknown:
        rdir = os.path.join(VERIF, "replays") if not scratch else os.path.join(VERIF, ".build", "scratch-replays")
        os.makedirs(rdir, exist_ok=True)
        for key in unknown:
            rp = os.path.join(rdir, "%s-%s.json" % (prop, hashlib.sha1(key.encode()).hexdigest()[:10]))
            with open(rp, "w") as f:
                json.dump({"property": prop, "key": key, "tier": out.tier, "seed": out.seed,
                           "replay": out.replays.get(key), "witness": out.violations[key][:5]}, f, indent=1)
            print("VIOLATION property=%s replay=%s" % (prop, rp))
            log("  key=%s" % key)
            for t in out.violations[key][:2]:
                log("    " + t[:420])
        rc = 1
    if rc == 0 and (out.inconclusive or unmet):
        for m in out.inconclusive:
            log("INCONCLUSIVE: " + m)
        if unmet:
            log("INCONCLUSIVE: coverage floor not met: " + ", ".join(unmet))
        rc = 2
    log("%s %s seed=%s: evaluations=%d distinct_nontrivial=%d/%d known=%d violations=%d wall=%.1fs -> exit %d" % (
        prop, out.tier, out.seed, out.evals, distinct_nt, len(out.hashes), len(known), len(unknown),
        time.time() - out.t0, rc))
    return rc


def builddir(prop):
    d = os.path.join(VERIF, ".build", "%s-%d" % (prop, os.getpid()))
    shutil.rmtree(d, ignore_errors=True)
    os.makedirs(d)
    return d
