#!/usr/bin/env python3
"""run_all.py [--tier quick|thorough] [--seeds 1,2,3] [IDs...] : run checks sequentially, one summary line each."""
import json, os, subprocess, sys, time
here = os.path.dirname(os.path.abspath(__file__))
args = sys.argv[1:]
tier = "quick"; seeds = ["1"]; ids = []
while args:
    a = args.pop(0)
    if a == "--tier": tier = args.pop(0)
    elif a == "--seeds": seeds = args.pop(0).split(",")
    else: ids.append(a)
m = json.load(open(os.path.join(here, "..", "MANIFEST.json")))
if not ids: ids = [c["property_id"] for c in m["checks"]]
bad = 0
for s in seeds:
    for i in ids:
        t0 = time.time()
        p = subprocess.run([sys.executable, os.path.join(here, "check.py"), i, "--tier", tier], env=dict(os.environ, VERIF_SEED=s),
                           stdout=subprocess.PIPE, stderr=subprocess.PIPE, text=True)
        last = [l for l in p.stderr.splitlines() if "-> exit" in l or "INCONCLUSIVE" in l]
        kf = sum(1 for l in p.stdout.splitlines() if l.startswith("KNOWN-FINDING"))
        print("%s seed=%s rc=%d known=%d %5.1fs  %s" % (i, s, p.returncode, kf, time.time() - t0, " | ".join(last)[-150:]), flush=True)
        if p.returncode != 0:
            bad += 1
            print("\n".join((p.stdout + p.stderr).splitlines()[:12]))
sys.exit(1 if bad else 0)
