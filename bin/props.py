"""Registry of the property checks (one entry per property id)."""

PROPS = {}
NOT_YET = {}

PROPS["C07"] = dict(
    harness="c07_exceptions.c", unity=["Exception.c"], level="exploration",
    technique="runtime trace monitor: generated try/throw/catch program trees executed with the real macros under "
              "ASan+UBSan, event trace compared with a reference interpreter",
    level_text="Exploration: tens of thousands (thorough: ~500k) of generated exception programs, lexical and dynamic "
               "nesting to depth 2000, every handler entry, bound object, message, nesting depth and statement after "
               "each construct compared with a reference interpreter; escaping programs checked in child processes. "
               "Programs are sampled, not enumerated.",
    level_note="Trusts the 40-line reference interpreter and that a handler's trace events are recorded faithfully; "
               "setjmp/longjmp behaviour is that of the tested compilers (clang -O1 ASan, gcc -O0/-O2).",
    quick=[("asan", 8, 400), ("plain0", 4, 400)],
    thorough=[("asan", 16, 6000), ("plain0", 16, 6000), ("plain", 16, 6000), ("memcheck", 8, 20, {"budget": 900})],
    stack_mb=256,
    floors={"quick": {"kind_pairs": 400, "thrown_object_identity_checks": 48, "inner_handled_outer_normal": 1, "propagated_2_levels": 1, "throw_from_handler": 1,
                      "uncaught_child_runs": 20, "lexical_programs": 100, "deep_nests": 4, "programs_run_in_a_second_thread": 300, "throws_of_an_expression_with_an_effect": 12, "handlers_chosen_by_an_equal_but_distinct_filter_entry": 5}},
    rule="case = 1-4 generated try/throw/catch program trees (<=60 nodes, depth<=12, 8 filter sets over 4 exception "
         "kinds, throws from bodies, called functions and handlers) executed with the real macros, or one of 5 "
         "three-level lexical templates with random throw points; distinct = hash of the program text; non-trivial = "
         "at least one try construct and one executed throw",
    assumptions=["thrown objects are the built-in exception type objects",
                 "expected traces come from a 40-line reference interpreter over the same tree",
                 "escaping programs run in a forked child (status + stderr diagnostic checked)"],
)

PROPS["C09"] = dict(
    harness="c09_cmp.c", level="exploration",
    technique="runtime oracle: reference orders computed in C over boundary grids and random pairs/triples "
              "(sign, antisymmetry, reflexivity, transitivity, predicate agreement) under ASan+UBSan",
    level_text="Exploration: complete boundary grids (27 Int, 28 Float, 24 String values, 52 types incl. 23 run-time types whose names are prefixes of one another: all pairs, all "
               "Int/Float triples) plus ~100k (thorough: millions of) random pairs and triples of Int, Float, String, "
               "plain structs, Array/List/Tuple in every kind combination and Tree; UBSan watches the arithmetic "
               "inside the comparison functions. Values are sampled, the grids are exhaustive.",
    level_note="Trusts the C reference orders (<, memcmp, unsigned byte order, lexicographic loops); Tree reference "
               "uses the iteration direction observed on a two-element tree.",
    quick=[("asan", 16, 400), ("plain", 8, 400)],
    thorough=[("asan", 16, 6000), ("plain", 16, 12000), ("memcheck", 8, 20, {"budget": 900})],
    floors={"quick": {"int_pairs_diff_beyond_32_bits": 100, "int_pairs_diff_beyond_64_bits": 10,
                      "float_pairs_with_denormal": 10, "strings_with_high_bytes": 10,
                      "string_pairs_sharing_prefix": 10, "seq_pairs_cross_kind": 10,
                      "seq_pairs_different_length": 10, "tree_pairs": 10, "boundary_keys_looked_up": 1,
                      "type_pairs_one_name_a_prefix_of_the_other": 40, "type_triples_with_related_names": 1000,
                      "tuple_slots_holding_an_object_shared_with_other_tuples": 1000, "word_sized_struct_pairs_differing_in_two_or_more_bytes": 500,
                      "struct_keyed_tree_pairs_with_a_key_size_that_is_not_a_whole_number_of_words": 1000}},
    rule="case = 40 Int, 30 Float, 30 String, 20 plain-struct, 8 sequence, 6 Tree and 4 struct-keyed Tree pairs+triples drawn from "
         "boundary-biased generators; distinct = hash of the first values of each kind; non-trivial = contains an "
         "Int pair whose difference does not fit in 32 bits",
    assumptions=["NaN excluded (as the statement says)", "no Tuple holds one object twice (open C11 finding); two Tuples may share objects"],
)

PROPS["C02"] = dict(
    harness="c02_table.c", unity=["Table.c"], level="exploration",
    technique="runtime reference-model monitor: association-list model + white-box robin-hood slot invariants "
              "evaluated after every Table operation of generated adversarial-hash workloads, under ASan+UBSan",
    level_text="Exploration: generated operation sequences (set/update/rem/get/mem/resize/resize(0)/assign from "
               "Table and Tree/copy+mutate) over 10 key modes (Int keys colliding at slot 0 or at the last slot of "
               "every table size up to 1259, dense, random, String, String colliding modulo a chosen prime, probe "
               "keys with harness-chosen hash) with the full oracle (len, mem/get of every universe key, KeyError, "
               "iteration set, slot invariants) after every operation.",
    level_note="Trusts the association-list model and the harness's reading of the Table struct (taken from the "
               "tree's own Table.c by unity inclusion; derived quantities recomputed). Sequences are sampled.",
    quick=[("asan", 16, 40), ("plain", 8, 40)],
    thorough=[("asan", 16, 150), ("plain", 16, 400, {"env": {"VH_BIG": "1"}}), ("memcheck", 8, 3, {"budget": 900})],
    floors={"quick": {"float_tables_with_both_zeros_as_keys": 300, "float_tables_with_neighbouring_keys": 300, "tables_queried_with_their_own_stored_values": 300, "single_entry_tables_with_the_entry_in_slot_0": 20, "tables_with_values_wider_than_keys": 50, "updates_of_displaced_key": 1, "wrapped_entries_observed": 1,
                      "removals_shifting_back_2_or_more": 1, "rehash_grow": 5, "rehash_shrink": 5,
                      "set_after_resize0": 1, "distinct_slot_counts_seen": 5, "assign_from_tree": 1,
                      "copies": 1}},
    rule="case = one Table driven through 30-160 (thorough: up to 9000) random operations in one of 10 key modes, "
         "oracle after every operation; distinct = hash of the operation list; non-trivial = >=20 operations and at "
         "least one of: update of a displaced key, removal shifting >=2 entries back, set after resize(0)",
    assumptions=["keys of one table are of one type", "no aliasing calls (assign(t,t))"],
)

_C03_CLASSES = ["rem_class:double-black:%s:%s" % (s, c) for s in "LR" for c in (
    "red-sibling", "black-nephews:black-parent", "black-nephews:red-parent", "far-nephew-red", "near-nephew-red")]
PROPS["C03"] = dict(
    harness="c03_tree.c", unity=["Tree.c"], level="exploration",
    technique="runtime reference-model monitor: ordered-map model + own red-black validator over the node layout "
              "after every Tree operation of generated insertion/removal patterns, under ASan+UBSan",
    level_text="Exploration: generated sequences in 5 patterns (random; ascending + remove-root-until-empty + "
               "descending refill; descending + remove every two-children node; alternating + drain + refill; "
               "grow-heavy/remove-heavy) over Int, wide Int, String and probe keys; after every operation len, "
               "mem/get of every key, KeyError, forward iteration strictly monotone, backward its exact reverse, and "
               "a white-box check of search order, parent links, root colour, red-red, black height, node count and "
               "height <= 2*log2(n+1). Every branch of the removal repair is required to be reached (floor).",
    level_note="Trusts the presence-array model and the validator's reading of the node layout (struct Tree comes "
               "from the tree's own Tree.c; the left/right orientation is observed, not assumed).",
    quick=[("asan", 16, 40), ("plain", 8, 40)],
    thorough=[("asan", 16, 200), ("plain", 16, 500, {"env": {"VH_BIG": "1"}}), ("memcheck", 8, 3, {"budget": 900})],
    floors={"quick": dict([(c, 1) for c in _C03_CLASSES] + [
        ("rem_node_with_two_children", 5), ("insert_recolour_propagates", 1), ("insert_rotation", 5),
        ("drained_to_empty", 3), ("rem_root", 10), ("resize_0", 1), ("assign_from_table", 1), ("copies", 1),
        ("validations_of_trees_of_height_6_or_more", 10), ("trees_with_values_wider_than_keys", 100)])},
    rule="case = one Tree driven through a pattern of 40-900 (thorough: up to 17000) operations, oracle after every "
         "operation; distinct = hash of the operation list; non-trivial = at least 20 operations",
    assumptions=["Int keys stay within +-2^41 so differences cannot overflow (C09 owns the boundaries)"],
)

PROPS["C04"] = dict(
    harness="c04_sequences.c", unity=["Array.c"], level="exploration",
    technique="runtime reference-model monitor: C-array model per container compared (len, get with positive and "
              "negative indices, mem, iteration) after every operation; sort checked as ordered permutation; ASan+UBSan",
    level_text="Exploration: generated in-range operation sequences (push/append/pop/push_at/pop_at/set/rem/concat/"
               "resize/sort/sort_by/assign/copy+mutate) on Array, List and Tuple with Int, Float, String and probe "
               "elements, lengths 0..600 crossing every x1.5 growth and the shrink rule, full oracle after every "
               "operation; dedicated sort inputs (sorted, reversed, all-equal 1500, two-valued, random).",
    level_note="Trusts the C-array model. Conventions the statement leaves open (negative push_at index, resize "
               "growth per container) are accepted as observed and pinned per container kind, see DESIGN C04.",
    quick=[("asan", 16, 36), ("plain", 8, 36)],
    thorough=[("asan", 16, 500), ("plain", 16, 1500), ("memcheck", 8, 3, {"budget": 900})],
    floors={"quick": {"array_growth_reallocations": 10, "array_shrink_reallocations": 10, "push_at_front": 5, "push_at_0_on_an_empty_list": 20, "concat_from_a_tuple": 30, "concat_from_a_tuple_onto_an_empty_container": 3,
                      "push_at_last_index": 5, "pop_at_front": 5, "pop_at_last_index": 5, "sorts_with_ties": 5, "sorts_by_a_reflexive_comparison": 100,
                      "rem_with_duplicates": 5, "concat": 5, "assign": 5, "copy": 5, "push_at_negative": 5}},
    rule="case = one Array/List/Tuple driven through 30-220 (thorough: up to 1800) random in-range operations, oracle "
         "after every operation; distinct = hash of the operation list; non-trivial = at least 15 operations",
    assumptions=["no aliasing calls (concat(a,a), assign(a,a))", "Tuple elements are distinct objects (repeated "
                 "pointers are covered by C11)"],
)

PROPS["C16"] = dict(
    harness="c16_string.c", level="exploration",
    technique="runtime reference-model monitor: libc-maintained reference buffer compared with the heap String "
              "(contents, NUL inside the allocation via ASan, len, hash, cmp/eq, mem, rem) after every operation",
    level_text="Exploration: generated sequences of assign/concat/append/resize(shrink, grow, 0)/rem/print_to on heap "
               "Strings over four alphabets (two-letter for overlapping occurrences, full byte range, format "
               "metacharacters), operands empty, equal to the target, substrings at start/middle/end, absent; every "
               "observable compared with libc on the reference after every operation, under ASan+UBSan.",
    level_note="Trusts libc (strcpy/strcat/strstr/memmove/strcmp) on the reference buffer.",
    quick=[("asan", 16, 600), ("plain", 8, 600)],
    thorough=[("asan", 16, 6000), ("plain", 16, 20000), ("memcheck", 8, 30, {"budget": 900})],
    floors={"quick": {"formatted_writes_with_a_literal_percent": 200, "piece_lengths_swept": 400, "rem_at_start": 20, "rem_in_middle": 20, "rem_at_end": 20, "rem_overlapping_occurrences": 5,
                      "rem_first_of_several": 20, "rem_absent": 20, "empty_argument": 20,
                      "argument_equal_to_target": 10, "resize_0": 10, "resize_grow": 20, "formatted_writes": 50, "formatted_writes_of_a_shown_string": 500}},
    rule="case = one heap String driven through 25-75 (thorough: up to 145) random operations, all observables "
         "compared with the reference after each; distinct = hash of the operation list; non-trivial = more than 10 "
         "operations",
    assumptions=["no aliasing calls (concat(s,s))", "for an absent rem operand only 'string unchanged, no crash' is "
                 "required here; the exception kind belongs to C12"],
)

PROPS["C14"] = dict(
    harness="c14_format.c", level="exploration",
    technique="runtime differential oracle: generated format strings, per-specification snprintf reference, String "
              "sink vs File sink vs returned position, ASan on exact-size format text",
    level_text="Exploration: format strings generated from the grammar literal | %% | %[flags][width][.prec][length]"
               "conv | %$ (1-7 items, specifications at the very start/end and adjacent), arguments over the full "
               "Int/Float/String ranges, every start position class; String sink contents and returned position "
               "checked against the concatenated snprintf reference, File sink read back byte-identical, too few "
               "arguments must raise FormatError; %$ checked against the object's own show text and against an "
               "independent reference for Int/Float/String/Type/Array/List/Tuple/Table.",
    level_note="The reference uses the same libc printf engine per specification; what is checked is Cello's "
               "splitting, argument conversion, sink handling and position accounting.  *, L, n, lc, ls are outside "
               "Cello's one-argument-per-specification interface and are not generated.",
    quick=[("asan", 16, 1500), ("plain", 8, 1500)],
    thorough=[("asan", 16, 20000), ("plain", 16, 40000), ("memcheck", 8, 75, {"budget": 900})],
    floors={"quick": {"piece_length_sweep_points": 2560, "spec_at_very_start": 100, "spec_at_very_end": 100, "adjacent_specs": 100,
                      "nonzero_start_positions": 100, "file_sink_runs": 100, "too_few_argument_runs": 100,
                      "items_show": 100, "items_float": 100, "items_int": 100, "items_string": 100, "shown_tuples_holding_one_object_twice": 100, "formats_writing_a_nul_character": 12}},
    rule="case = one generated format string of 1-7 items with its arguments, printed to a String at a chosen start "
         "position, to a File, and once with one argument too few; distinct = hash of the format text; non-trivial = "
         "at least two items and one argument",
    assumptions=["%d/%hd/%hhd/%c receive values in int range, %ld etc. the full int64 range", "NUL is never printed "
                 "with %c (it would end the String sink)"],
)

PROPS["C15"] = dict(
    harness="c15_roundtrip.c", level="exploration",
    technique="runtime round-trip oracle: write with show/print_to, read back with look/scan_from, compare value "
              "and consumed position, String and File sinks, under ASan+UBSan",
    level_text="Exploration: Int (boundaries + random int64), finite Float (denormals, +-DBL_MAX, beyond FLT_MAX) "
               "and String (every byte value 1..255, quotes, backslashes, control characters) written with show, %$ "
               "or a numeric specification and read back with look / scan_from with the same specification, alone "
               "and in sequences of 2-5 items with non-alphanumeric separators, at start positions 0..8, from a "
               "String and from a File (reopen or seek back); value and position oracles.",
    level_note="Float equality is 'within the printed precision' (0.5e-6 for %f, 6 significant digits for %e/%g, "
               "exact for %a). Numeric scan specifications are those valid in both printf and scanf (no precision).",
    quick=[("asan", 16, 1500), ("plain", 8, 1500)],
    thorough=[("asan", 16, 20000), ("plain", 16, 40000), ("memcheck", 8, 75, {"budget": 900})],
    floors={"quick": {"fixed_roundtrips": 250, "separators_with_words_or_literal_percent": 500, "record_wise_sequences": 500, "sequences_with_separators": 100, "nonzero_start_positions": 100,
                      "file_reopen": 50, "file_seek_back": 50, "int_numeric_spec_int_range_negative": 10,
                      "float_numeric_spec": 50, "int_numeric_spec_full_range": 50}},
    rule="case = 1-5 generated values written with one format and read back with the same format, from a String at "
         "a chosen start position and from a File; distinct = hash of format + values; non-trivial = a sequence of "
         "at least two values",
    assumptions=["NaN and infinities excluded (finite doubles, as stated)", "separators are non-alphanumeric, "
                 "non-whitespace characters that cannot continue a number"],
)

PROPS["C01"] = dict(
    harness="gcsim.c", unity=["GC.c"], level="exploration", args=["--prop", "C01"], prop_args_first=True,
    technique="runtime shadow-heap monitor: mutator with a shadow graph of every edge; after every operation and "
              "every collection each shadow-reachable object must be live (ledger, mem(gc,p), canary, contents read "
              "back), under ASan+UBSan and gcc -O2",
    level_text="Exploration: random heap mutations (allocate/link/overwrite/unlink, container growth and shrink "
               "bursts, Box ownership, root drops, explicit deletion, garbage bursts, forced and threshold "
               "collections) over 13 object representations (plain struct, struct with Mark, struct at adversarial "
               "addresses, Ref, Box, Array/List of Ref, Array of structs, Table and Tree with Int or pointer keys, "
               "heap Tuple) and 3 root kinds (stack slot, new_root holder, thread-local entry), plus rings, complete "
               "graphs through Tuples, fan-out 1000 and chains of 10^2..10^6 links collected in child processes.",
    level_note="One-directional oracle: only the reclamation of an object the shadow graph still reaches is "
               "reported. The shadow graph contains only word-aligned pointers to object starts stored in memory the "
               "collector documents as scanned. A register as the only root cannot be forced from C.",
    quick=[("asan", 16, 30), ("plain", 8, 40, {"env": {"VH_LONG_CHAINS": "1"}})],
    thorough=[("asan", 16, 600), ("plain", 16, 1500, {"env": {"VH_LONG_CHAINS": "1"}}), ("memcheck", 8, 3, {"budget": 900})],
    stack_mb=None,
    floors={"quick": {"forced_collections": 50, "threshold_collections_that_freed_something": 10,
                      "sweeps_that_freed_something": 10, "rootkind_checked:stack": 1,
                      "rootkind_checked:root-holder": 1, "rootkind_checked:thread-local": 1, "rings": 1,
                      "complete_graphs": 1, "deep_copies_checked": 5000, "containers_retyped_by_assign": 300, "containers_obtained_by_copy": 300, "register_only_references_checked": 100, "rooted_shapes": 4, "root_holders_stored_in_thread_local_storage": 10,
                      "root_holders_referenced_by_another_root_holder": 1, "edges_to_root_holders": 10,
                      "chains_of_1e6": 1, "container_bursts": 10, "cases_run_in_a_worker_thread": 20, "explicit_deletions": 5,
                      "boxes": 10}},
    rule="case = one heap driven through 40-200 (thorough: up to 540) random mutator operations with the "
         "reachable-set oracle after every operation; distinct = hash of the operation list; non-trivial = at least "
         "20 operations",
    assumptions=["interior-pointer-only references and pointers kept in static or malloc'd memory are outside the "
                 "collector's contract and are not generated", "boxed objects have exactly one owner"],
)
for _n in ("struct", "struct+Mark", "struct@addr", "Ref", "Box", "Array<Ref>", "List<Ref>", "Array<struct>",
           "Table<Int,Ref>", "Table<Ref,Ref>", "Tree<Int,Ref>", "Tree<Ref,Ref>", "Tuple", "Thread-not-started"):
    PROPS["C01"]["floors"]["quick"]["kind_checked:" + _n] = 1

PROPS["C17"] = dict(
    harness="gcsim.c", unity=["GC.c"], level="exploration", args=["--prop", "C17"], prop_args_first=True,
    technique="runtime monitor: shadow set of managed allocations + white-box walker over the collector's registry "
              "(count, stored home, probe order, duplicates, root flag, min/max, mark bits), also from inside "
              "destructors during a sweep; mem(gc,p) oracle for live, deleted and reclaimed objects",
    level_text="Exploration: the C01 mutator (managed, root and boxed allocations, explicit deletions, forced and "
               "threshold collections, garbage bursts) with probe objects placed at addresses that collide at slot "
               "0 or at the last slot of every registry size up to 101; after operations and inside sweeps the "
               "registry is walked white-box and compared with the harness's own record of what was allocated, "
               "deleted and observed finalised.",
    level_note="For objects without a destructor the harness cannot know whether garbage has already been reclaimed; "
               "for those only 'no unknown, deleted or duplicate entry' and 'every reachable object present' are "
               "checked; probes (with destructors) are checked exactly.",
    quick=[("asan", 16, 30), ("plain", 8, 60)],
    thorough=[("asan", 16, 600), ("plain", 16, 2000), ("memcheck", 8, 3, {"budget": 900})],
    floors={"quick": {"forced_collections": 50, "registry_walks_inside_sweep": 20, "registry_wrapped_entries": 1,
                      "registry_entries_displaced_2_or_more": 10, "explicit_deletions": 5, "explicit_deletions_while_stopped": 5,
                      "root_holders_allocated": 5, "root_holders_deleted": 1, "allocations_made_by_destructors_during_a_sweep": 100, "allocations_made_by_destructors_outside_forced_collections": 100, "mem_queries_about_objects_set_aside_by_the_running_sweep": 200}},
    rule="case = one heap driven through 40-200 (thorough: up to 540) random mutator operations, registry walked "
         "every 4th operation, after every forced collection and inside sweeps; distinct = hash of the operation "
         "list; non-trivial = at least 20 operations",
    assumptions=["every managed allocation in the process is made by the harness (so an unknown registry entry is a "
                 "violation)"],
)

PROPS["C06"] = dict(
    harness="c06_lifecycle.c", unity=["GC.c"], level="exploration", ld="-Wl,--wrap=free",
    technique="runtime ledger monitor: construction/finalisation/release ledger of probe objects (own Alloc "
              "instance, or link-time wrapped free), checked at every transition, right after every del*, and at "
              "thread and process teardown; ASan for double frees",
    level_text="Exploration: random interleavings of new/new_root/new_raw, del/del_root/del_raw, Box and "
               "Array<Box>/List<Box> ownership (both sweep orders of owner and owned), forced and threshold "
               "collections, stop/start windows with allocations and deletions inside, run on the main thread, in "
               "worker threads (teardown checked after join) and in forked child processes that exit normally "
               "(teardown checked from a destructor function that runs after the library's atexit handlers).",
    level_note="'By a collection after it became unreachable' is not decided (a conservative collector may retain "
               "garbage); what is decided is exactly-once finalisation, finalisation by del*, and complete release at "
               "the latest at teardown. Probe destructors allocate nothing.",
    quick=[("asan", 16, 45), ("plain", 8, 90)],
    thorough=[("asan", 16, 900), ("plain", 16, 3000), ("memcheck", 8, 3, {"budget": 900})],
    floors={"quick": {"garbage_pairs_owner_swept_before_owned": 20, "boxes_made_inside_stop_window": 100, "roots_parked_off_the_stack": 200, "teardowns_with_the_collector_stopped": 20, "boxes_owning_a_raw_object": 100, "containers_of_boxes_inside_stop_window": 100, "garbage_pairs_owned_swept_before_owner": 20,
                      "deletions_inside_stop_window": 10, "allocations_inside_stop_window": 10,
                      "worker_teardowns_with_live_garbage": 50, "process_teardowns_with_live_garbage": 50,
                      "del_root": 20, "del_raw": 20, "del_of_box": 10, "containers_of_boxes": 20,
                      "forced_collections": 50, "forced_collections_inside_stop_window": 30, "garbage_objects_whose_destructors_allocate": 500, "held_objects_whose_destructors_allocate": 100, "rings_of_mutual_owners_collected": 10, "roots_referenced_by_other_roots_and_thread_local_storage": 20, "deep_copies_of_owners": 300, "deep_copies_deleted_by_hand": 80}},
    rule="case = 30-150 (thorough: up to 330) random allocation/deletion/ownership/collection/stop-start operations "
         "on the main thread, in a worker thread, or in a forked child process; distinct = hash of the operation "
         "list; non-trivial = at least 20 operations",
    assumptions=["root, raw and stop-window allocations are deleted by the program, as the API documents",
                 "main thread is idle while a worker runs (the ledger itself is then race-free)"],
)

PROPS["C05"] = dict(
    harness="c05_ownership.c", level="exploration", leaks=True,
    technique="runtime token-ledger monitor: probe element type (birth at construction / first assignment, death in "
              "the destructor); after every operation live tokens == sum of container lengths, all contained tokens "
              "live and pairwise distinct, every container equals its own model; ASan+UBSan+LSan",
    level_text="Exploration: 8 containers (Array, List, Table, Tree, two of each) of a probe element type that owns "
               "heap memory, driven through push/push_at/pop/pop_at/set/rem/sort/resize/clear/concat, map "
               "set/update-under-collision/rem/rehash, assign between same and different kinds, del + copy, with the "
               "collector running and stopped; Box containers (Array<Box>, List<Box>, Table<Int,Box>) with managed "
               "probe pointees checked for 'finalised when removed / cleared / container deleted, never while "
               "contained, never twice'.",
    level_note="Trusts the ledger (token ids never reused) and the per-container models. Replacing a Box element by "
               "assignment leaves the old pointee to the collector (promptness is not decidable).",
    quick=[("asan", 16, 150), ("plain", 8, 150)],
    thorough=[("asan", 16, 800), ("plain", 16, 2500), ("memcheck", 8, 7, {"budget": 900})],
    floors={"quick": {"table_replace_under_collision": 20, "table_states_with_25_or_more_bindings": 20,
                      "cross_kind_assigns": 10, "same_kind_assigns": 10, "copies": 20, "clears": 20,
                      "sort_swap_moves": 10, "concats": 10, "box_container_operations": 200,
                      "box_containers_deleted": 20, "box_containers_left_to_the_collector": 20, "box_slots_given_what_they_hold": 100, "cases_with_collector_stopped": 5, "tree_updates": 20, "refused_map_sets_of_a_new_key_with_a_refused_value": 200, "retyping_assigns": 2000, "refused_element_operations": 300, "retyping_assigns_over_two_or_more_elements": 1000}},
    rule="case = 8 containers driven through 40-200 (thorough: up to 540) random operations with the ledger and model "
         "oracles after every operation, or one Box container through 40-160 operations; distinct = hash of the "
         "operation list; non-trivial = at least 20 operations",
    assumptions=["Box containers are never copied (a Box is a unique owner)", "assignment sources are of the same "
                 "family (sequence <- sequence, map <- map)"],
)

PROPS["C11"] = dict(
    harness="c11_iteration.c", level="exploration",
    technique="runtime definitional oracle: generated trees of iterables and views; forward walk, len, get(i) and "
              "backward walk of every node compared with a reference computed from the view's definition; ASan on "
              "every cursor step",
    level_text="Exploration: complete grids (every container kind at lengths 0..12 with its reverse view; Range "
               "start/stop in [-6,6] x step in [-3,3]; Slice start/stop in [-8,8] x step in [-3,3] over Array, List, "
               "Tuple and Range of lengths 0..6 - 60k slices) plus random trees of Array/List/Tuple/Table/Tree/Range "
               "leaves (lengths 0..40) under Slice, Zip (arity 1-4, unequal lengths), enumerate, Filter and Map "
               "nested to depth 3.",
    level_note="References come from the definitions (Slice: positions start,start+step,..<stop, negative step from "
               "stop-1 down to start; Zip: shortest input; Filter: accepted elements; Map: images). Bounds below "
               "-len are not pinned to one normalisation (only [0,len] is required). The iteration order of Table "
               "and Tree is observed, not prescribed (C02/C03 own it).",
    quick=[("asan", 16, 60), ("plain", 8, 60)],
    thorough=[("asan", 16, 6000), ("plain", 16, 20000), ("memcheck", 8, 3, {"budget": 900})],
    floors={"quick": {"range_grid_points": 1000, "slice_grid_points": 50000, "reverse_views": 30,
                      "zips_of_unequal_lengths": 20, "compositions_of_depth_2_or_more": 100,
                      "compositions_of_depth_3": 20, "slices_length_not_divisible_by_step": 50,
                      "slices_with_negative_step": 50, "empty_iterables": 50, "checked_Filter": 50, "checked_Map": 50,
                      "checked_enumerate": 20, "repeated_pointer_reproducer_runs": 1, "small_map_grid_points": 150,
                      "leaves_with_an_edit_history": 100, "map_leaves_with_an_edit_history": 100, "leaves_with_12_byte_elements": 100, "map_leaves_filled_in_descending_order": 100}},
    rule="case = a generated tree of 3-5 leaf iterables and 3-10 views over them (depth <= 3), every node checked "
         "forwards, backwards, by len and by get; distinct = hash of the node descriptions; non-trivial = contains a "
         "composition of depth >= 2",
    assumptions=["views that share iteration state (the same Range, Map or Zip below them) are not walked side by "
                 "side in one Zip", "Range and Slice parameters stay within +-50"],
)

PROPS["C12"] = dict(
    harness="c12_faults.c", level="fault_enumeration",
    technique="runtime fault enumeration: table of object kind x operation x invalid-argument kind x size; canonical "
              "dump before/after, documented-exception oracle, probe-element ledger, model agreement afterwards; "
              "ASan+UBSan",
    level_text="Fault enumeration: every row of a fixed table (Array/List/Tuple with Int and probe elements, Table/"
               "Tree with Int and String keys, String, Range, Int, Float, NULL objects) x (get/set/pop_at/push_at "
               "with index len, len+1, -len-1, +-1000 beyond, INT64_MAX, INT64_MIN; pop from empty; absent key/"
               "element/substring; wrong-typed and NULL keys/values/arguments; unimplemented class or member; too "
               "few format arguments; resize that cannot be honoured) at sizes 0,1,2,7,64, then random sizes; each "
               "fault must raise an exception its class documents, leave the canonical dump and the live-element "
               "count unchanged, and the object must agree with its model over 30 further valid operations.",
    level_note="Where the documentation names no specific exception the check accepts the set the code base uses for "
               "that fault class (e.g. wrong type: TypeError/ValueError/ClassError). Views other than Range and File "
               "faults (C20) are not in the table.",
    quick=[("asan", 16, 40), ("plain", 8, 40)],
    thorough=[("asan", 16, 1500), ("plain", 16, 4000), ("memcheck", 8, 3, {"budget": 900})],
    floors={"quick": {"empty_after_resize_0": 20, "empty_arrays_with_reserved_room": 5, "failures_handled_inside_an_enclosing_try": 100, "iterations_with_a_refused_get_in_the_body": 20, "empty_after_draining": 20, "distinct_faults_in_table": 300, "sequence_objects_faulted": 100, "map_objects_faulted": 100,
                      "string_objects_faulted": 50, "range_objects_faulted": 50, "scalar_objects_faulted": 1, "fixed_storage_tuples_faulted": 100, "stack_strings_faulted": 100, "absorbable_wrong_types_offered_to_an_empty_map": 50, "plain_struct_containers_faulted": 100}},
    exhaustive=False,
    rule="evaluation = one fault (object kind, operation, invalid argument, size) executed with all oracles; the "
         "fixed table is run completely by shard 0, generated cases repeat it at random sizes/contents; distinct = "
         "hash of the case description; non-trivial = every case (each runs >= 5 faults)",
    assumptions=["a Tuple holds arbitrary pointers, so wrong-typed / NULL elements are not faults for Tuple"],
)

PROPS["C10"] = dict(
    harness="c10_hash_copy.c", level="exploration",
    technique="runtime metamorphic oracle: values equal by construction (allocation classes, construction histories, "
              "container kinds) must be eq and hash equally; copy/assign results eq with equal hash; swap exchanges "
              "canonical snapshots; hash_data alignment sweep under ASan",
    level_text="Exploration: per case one group each of Int/Float(+-0, denormals, random bits)/String(all bytes)/"
               "Type/Ref/plain struct in stack, heap, raw and embedded form; six sequences with the same contents "
               "built through four histories across Array/List/Tuple (all 15 pairs); Table and Tree with the same "
               "bindings through three histories; copy, assign and swap of each; hash_data for lengths 0..64 at 8 "
               "alignments with varying neighbours in exact-size heap blocks.",
    level_note="Equality by construction is trusted (the harness writes the same value twice). Identity with "
               "MurmurHash is not required - the statement asks for a function of the value.",
    quick=[("asan", 16, 150), ("plain", 8, 150)],
    thorough=[("asan", 16, 6000), ("plain", 16, 20000), ("memcheck", 8, 7, {"budget": 900})],
    floors={"quick": {"refs_to_nothing_copied": 300, "near_miss_map_pairs": 5000, "assigns_onto_a_longer_tuple": 100, "cross_kind_sequence_assigns": 100, "sequences_cut_back_with_resize": 300, "lists_grown_with_resize": 100, "sized_map_history_groups": 1000, "sized_map_histories_value_wider_than_key": 200, "blob_swaps_size_not_multiple_of_8": 1000, "blob_array_sorts": 1000, "allocation_class_groups": 500, "signed_zero_pairs": 100, "cross_kind_equal_pairs": 2000,
                      "sequence_history_groups": 500, "map_history_groups": 1000, "swaps": 2000,
                      "hash_data_alignment_sweeps": 500, "table_eq_reproducer_runs": 1}},
    rule="case = one group of scalar allocation classes, six equal sequences, two times three equal maps, a hash_data "
         "sweep; distinct = hash of the case's first random draw; non-trivial = every case",
    assumptions=["NaN excluded", "Box containers are not copied"],
)

PROPS["C20"] = dict(
    harness="c20_file.c", level="exploration", ld="-Wl,--wrap=fopen,--wrap=fclose",
    technique="runtime reference-model monitor: byte-array + position + open-flag model of one File, link-time "
              "interposed fopen/fclose handle ledger, stell/seof compared with ftell/feof on the same FILE*, "
              "independent read-back of the file; ASan+UBSan",
    level_text="Exploration: random sequences of sopen (10 modes, also while already open), swrite in random "
               "chunkings (0 bytes to several stdio buffers, zero bytes inside), print_to, sread in random chunkings "
               "incl. past the end, sseek with all three origins, sflush, sclose, del, on heap and stack File "
               "objects; after every operation stell/seof agree with the reference and with the C library, after "
               "every flush/close the file on disk equals the reference, every successful fopen is matched by "
               "exactly one fclose, and every operation on a File that is not open raises IOError.",
    level_note="Where an append stream stands before its first seek is left to the C library. Reads and writes on "
               "update streams are separated by a seek, as C requires.",
    quick=[("asan", 16, 120), ("plain", 8, 120)],
    thorough=[("asan", 16, 3000), ("plain", 16, 10000), ("memcheck", 8, 6, {"budget": 900})],
    floors={"quick": {"closed_file_probes": 200, "reads_past_the_end": 50, "zero_byte_writes": 20,
                      "writes_larger_than_a_stdio_buffer": 20, "seeks_from_start": 50, "seeks_from_current": 50,
                      "seeks_from_end": 50, "reopens_while_open": 50, "dels_of_open_files": 20, "with_blocks": 1,
                      "text_roundtrips": 1, "record_wise_reads": 6, "stack_file_lifecycles": 3, "with_blocks_on_files_that_are_not_open": 4, "append_opens": 50, "formatted_writes": 50, "formatted_writes_with_an_empty_text_field": 200, "writes_refused_by_the_mode": 50, "reads_refused_by_the_mode": 50, "operations_checked_with_the_error_indicator_set": 100, "formatted_writes_with_a_literal_percent": 200, "reopens_through_the_constructor": 20, "failed_reopens_of_an_open_file": 20, "positions_beyond_2_gib_checked": 6}},
    rule="case = one File object driven through 20-80 (thorough: up to 140) random stream operations; distinct = hash "
         "of the operation list; non-trivial = at least 20 operations",
    assumptions=["one File object per case, one file on disk per shard", "offsets stay within the file"],
)

PROPS["C19"] = dict(
    harness="c19_types_alloc.c", level="fault_enumeration",
    technique="runtime enumeration: way of obtaining an object x observation (type_of, header allocation class, "
              "usable size, neighbour integrity) and x freeing/reallocating operation on non-heap objects (must raise "
              "ResourceError/ValueError and change nothing); ASan for invalid/double frees, allocator ledger for "
              "release-exactly-once",
    level_text="Fault enumeration: new, new_raw, new_root, alloc, alloc_raw, $, $S, tuple(), range(), copy, static "
               "and run-time type objects, elements/keys/values of Array, List, Table, Tree, Tuple (by iteration and "
               "by get), items of Slice, Filter, Zip and Range; for each: true type, allocation class, size(type) "
               "writable bytes, neighbours and headers untouched; then del, del_raw, del_root, dealloc, dealloc_raw, "
               "destruct, assign, concat, append, resize, push, pop, push_at, pop_at, print_to on stack, static and "
               "embedded objects at container sizes 1,2,3,7,64 and random sizes.",
    level_note="Embedded Strings may legitimately reallocate their own buffer, so only freeing operations are "
               "refused for them; reallocating operations are refused for stack and static Strings and Tuples.",
    quick=[("asan", 16, 30), ("plain", 8, 30)],
    thorough=[("asan", 16, 1500), ("plain", 16, 4000), ("memcheck", 8, 3, {"budget": 900})],
    floors={"quick": {"containers_obtained_from_empty_sources": 200, "iterator_result_walks": 1000, "sized_map_checks": 2000, "sized_sequence_checks": 1000, "sized_maps_value_larger_than_key": 100, "sized_maps_key_larger_than_value": 100, "objects_observed": 5000, "refusals_checked": 2000, "neighbour_checks": 100,
                      "heap_objects_released_once": 50, "empty_registry_thread_runs": 20, "stack_objects_of_sized_types_written_in_full": 1000, "rings_of_mutual_owners_released_once": 20, "runtime_types_constructed_again_in_place": 50, "shrinking_resizes_of_string_sequences": 200}},
    rule="evaluation = one observation or one refused operation; the enumeration is run completely at sizes "
         "1,2,3,7,64 by shard 0 and at random sizes by the generated cases; distinct = container size; non-trivial = "
         "every case",
    assumptions=["element types have sizes that are multiples of 8 (unrounded List/Tree layouts)"],
)

PROPS["C08"] = dict(
    harness="c08_dispatch.c", level="exploration",
    technique="runtime differential oracle: independent scan of the raw type record vs every lookup API, exhaustive "
              "over built-in type x class x member, random lookup histories with white-box cache resets, run-time "
              "types with counting stubs, 16-thread cold-cache lookups; ASan+UBSan",
    level_text="Exploration, exhaustive over the built-in matrix: all 40 built-in type objects and the 30 class "
               "objects x 30 classes x every member offset x {type_instance, instance, type_implements, implements, "
               "(type_)implements_method, (type_)method} cold, warm and in reverse order; cast to own / other type; "
               "random histories of lookups with caches reset at random; run-time types with 0,1,2,15,16,17,100,255,"
               "256 and random numbers of instances in random order (built-in and 300 synthetic classes), every "
               "public dispatcher called on objects of those types with counting stubs (exactly the declared member "
               "runs, otherwise ClassError and nothing runs); 257 instances must raise; 16 threads looking up the "
               "same cold caches behind a barrier.",
    level_note="The three lazily written fields (cache slot, memoised class pointer, header type of static types) "
               "are written with the same value by every thread; results are checked, the benign writes are not "
               "treated as violations.",
    quick=[("asan", 16, 120), ("plain", 8, 120)],
    thorough=[("asan", 16, 900), ("plain", 16, 3000), ("memcheck", 8, 6, {"budget": 900})],
    exhaustive=False,
    floors={"quick": {"cells_checked": 20000, "type_objects_in_matrix": 70, "casts_checked": 60, "runtime_types": 100,
                      "runtime_types_with_200_or_more_instances": 5, "runtime_types_with_no_instance": 1,
                      "dispatches_to_declared_member": 500, "dispatches_to_empty_member": 500,
                      "dispatches_to_missing_class": 500, "concurrent_cold_start_trials": 200,
                      "random_lookup_histories": 50, "oversized_type_attempts": 1, "terminal_reproducer_runs": 1,
                      "near_name_classes_declared": 200, "undeclared_near_name_lookups": 10000,
                      "fallback_types_declaring_alloc": 200, "fallback_types_overriding_half_of_alloc": 80, "foreach_over_empty_iter_init": 300, "foreach_over_type_without_iter": 100, "foreach_reaching_empty_iter_next": 150, "foreach_complete_walks": 150, "fallback_types": 500, "same_name_type_pairs": 100, "cold_type_objects_used_as_receivers": 1000, "concurrent_warm_method_lookups": 1000000, "fallback_calls_to_empty_member": 3000, "fallback_calls_to_filled_member": 1500}},
    rule="case = a run-time type with a random instance list and all its dispatcher calls, or a random history of "
         "200-600 lookups over all known types (cold or warm), or 10-40 concurrent cold-start trials; the built-in "
         "matrix is enumerated completely by shard 0; distinct = hash of the case description; non-trivial = every "
         "case",
    assumptions=["fake objects (a header naming the type in front of zeroed bytes) stand in for instances of types "
                 "whose constructors need arguments; no method is ever invoked on them except counting stubs"],
)

PROPS["C13"] = dict(
    harness="c13_threads.c", unity=["Exception.c"], level="exploration",
    technique="runtime race detection + monitors: gcc ThreadSanitizer over 2-16 Cello threads running container, "
              "allocation/collection, exception and thread-local workloads, a Mutex-guarded non-atomic counter and a "
              "join-published array; per-thread digests vs solo runs, owner-keyed finalisation ledger, in-section "
              "flag; also run uninstrumented at -O2",
    level_text="Exploration: repeated trials with 2,3,4,8,12,16 threads released by a barrier with injected "
               "yields/sleeps between Cello calls; ThreadSanitizer decides the ordering part by happens-before "
               "(missing synchronisation is reported whether or not the bad interleaving occurred), the value "
               "oracles (digest equals solo run, no foreign finalisation, counter == sections, flag never seen set, "
               "published values visible after join) run in the same executions. The evidence counts the distinct "
               "lock-acquisition orders observed (they are part of each case's identity).",
    level_note="TSan is suppressed only inside Type_Instance, Type_Scan and Type_Of (three idempotent lazy writes; "
               "results checked by C08). Schedules are sampled, not enumerated. c_int(thread)/running(thread) are "
               "not called concurrently with thread start-up (not part of the property).",
    quick=[("tsan", 4, 5), ("plain", 4, 10)],
    thorough=[("tsan", 8, 40), ("plain", 8, 150), ("memcheck", 8, 3, {"budget": 900})],
    timeout={"quick": 900, "thorough": 5400},
    floors={"quick": {"digests_compared_with_solo_run": 100, "mutex_sections": 10000,
                      "mutex_handovers_between_threads": 1000, "trylock_sections_that_had_to_wait": 10,
                      "join_publish_threads": 100, "root_results_received_after_join": 100, "threads_started_with_a_heap_argument_collection": 50, "threads_given_an_initial_thread_local_value": 100, "threads_alternating_with_blocks_on_two_types": 100, "cloned_thread_trials": 20, "cold_first_lookup_rounds": 400,
                      "mutex_phases_started_with_cold_lookups": 20}},
    rule="case = one trial: N threads (2..16) each run a seeded workload alone and then together, then 50-200 "
         "Mutex sections each, then a join-publish round; distinct = hash including the observed lock acquisition "
         "order; non-trivial = the lock changed hands between threads at least once and all digests matched",
    assumptions=["the Function object and the argument objects passed to a Thread outlive it (harness rule)"],
)

import c18 as _c18  # noqa: E402
PROPS["C18"] = dict(
    runner=_c18.runner, level="exploration",
    technique="runtime differential testing: one seeded in-contract workload and the library rebuilt under every "
              "combination of CELLO_NDEBUG / CELLO_CACHE=0 / CELLO_NGC and every optimisation level; transcripts "
              "compared byte for byte; the default configuration also under ASan+UBSan",
    level_text="Exploration (differential): the library and the workload (sequences, maps, strings, every kind of "
               "format specification, show/look round trips, nested try/throw/catch, views, sorting, copying, "
               "explicit deletion, files, run-time types) are rebuilt with identical flags in all 8 switch "
               "combinations x {-O0,-O2} gcc (thorough: x {-O0..-O3} x {gcc, clang}) and run with 3 (thorough: 20) "
               "workload seeds; every line of every transcript is compared with the baseline build.",
    level_note="Only what the workload prints is compared; addresses and hashes of views are not printed. Operations "
               "with open findings are not part of the workload.",
    floors={"quick": {"configurations_built": 17, "transcript_lines_compared": 5000}},
    rule="evaluation = one transcript line compared; case = (configuration, workload seed); distinct = that pair; "
         "non-trivial = the transcript has at least 50 lines",
    assumptions=["the workload takes no error path", "same compiler version and libc for all configurations"],
)

# floors added with the round-15 seeded changes (about a fifth of what a quick run reaches)
for _id, _fl in {
    "C02": {"plain_key_cases_with_keys_sharing_their_first_word": 8},
    "C04": {"backward_walks_of_non_empty_sequences": 5000},
    "C06": {"managed_objects_referenced_by_thread_local_storage_only": 20},
    "C14": {"file_sink_runs_after_a_refused_read": 1000},
    "C15": {"int_numeric_spec_char_negative": 100, "int_numeric_spec_short_negative": 100,
            "int_numeric_spec_short_or_char_unsigned_top_half": 200},
    "C17": {"removals_asked_of_a_registry_that_never_held_anything": 10},
    "C19": {"runtime_types_with_the_maximum_number_of_instances": 30},
}.items():
    PROPS[_id].setdefault("floors", {}).setdefault("quick", {}).update(_fl)

# floors added with the round-16 seeded changes
for _id, _fl in {
    "C06": {"managed_objects_referenced_by_a_root_tuple_only": 30},
    "C08": {"runtime_types_declared_again_after_their_lookups": 50},
    "C12": {"stored_values_offered_as_absent_keys": 20},
    "C14": {"shown_ranges_beyond_32_bits": 20, "shown_slices_of_floats_or_strings": 60, "shown_sequences_of_floats_or_strings": 300},
}.items():
    PROPS[_id].setdefault("floors", {}).setdefault("quick", {}).update(_fl)

# floors added with the round-17 seeded changes
for _id, _fl in {
    "C01": {"trees_with_values_wider_than_their_keys": 200},
    "C08": {"type_level_macro_calls_of_an_empty_member": 300},
    "C12": {"tuples_offered_far_out_of_range_lengths": 20},
    "C14": {"shown_trees_keyed_by_plain_structs": 60, "shown_tables_keyed_by_plain_structs": 60},
    "C17": {"registries_grown_beyond_65536_slots": 1},
    "C20": {"opens_in_a_binary_update_mode_spelled_with_the_plus_last": 300},
}.items():
    PROPS[_id].setdefault("floors", {}).setdefault("quick", {}).update(_fl)
