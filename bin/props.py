"""Registry of the property checks (one entry per property id)."""

PROPS = {}
NOT_YET = {}

PROPS["C07"] = dict(
    harness="c07_exceptions.c", unity=["Exception.c"], level="exploration",
    technique="runtime trace monitor: generated try/throw/catch program trees executed with the real macros under "
              "ASan+UBSan, event trace compared with a reference interpreter",
    level_text="Exploration: tens of thousands (thorough: ~500k) of generated exception programs, lexical and dynamic "
               "nesting to depth 2000, every handler entry, bound object, message, nesting depth and statement after "
               "each construct compared with a reference interpreter; escaping programs checked in child processes. "
               "Programs are sampled, not enumerated.",
    level_note="Trusts the 40-line reference interpreter and that a handler's trace events are recorded faithfully; "
               "setjmp/longjmp behaviour is that of the tested compilers (clang -O1 ASan, gcc -O0/-O2).",
    quick=[("asan", 8, 400), ("plain0", 4, 400)],
    thorough=[("asan", 16, 6000), ("plain0", 16, 6000), ("plain", 16, 6000)],
    stack_mb=256,
    floors={"quick": {"inner_handled_outer_normal": 1, "propagated_2_levels": 1, "throw_from_handler": 1,
                      "uncaught_child_runs": 20, "lexical_programs": 100, "deep_nests": 4}},
    rule="case = 1-4 generated try/throw/catch program trees (<=60 nodes, depth<=12, 8 filter sets over 4 exception "
         "kinds, throws from bodies, called functions and handlers) executed with the real macros, or one of 5 "
         "three-level lexical templates with random throw points; distinct = hash of the program text; non-trivial = "
         "at least one try construct and one executed throw",
    assumptions=["thrown objects are the built-in exception type objects",
                 "expected traces come from a 40-line reference interpreter over the same tree",
                 "escaping programs run in a forked child (status + stderr diagnostic checked)"],
)

PROPS["C09"] = dict(
    harness="c09_cmp.c", level="exploration",
    technique="runtime oracle: reference orders computed in C over boundary grids and random pairs/triples "
              "(sign, antisymmetry, reflexivity, transitivity, predicate agreement) under ASan+UBSan",
    level_text="Exploration: complete boundary grids (27 Int, 28 Float, 24 String values, 29 types: all pairs, all "
               "Int/Float triples) plus ~100k (thorough: millions of) random pairs and triples of Int, Float, String, "
               "plain structs, Array/List/Tuple in every kind combination and Tree; UBSan watches the arithmetic "
               "inside the comparison functions. Values are sampled, the grids are exhaustive.",
    level_note="Trusts the C reference orders (<, memcmp, unsigned byte order, lexicographic loops); Tree reference "
               "uses the iteration direction observed on a two-element tree.",
    quick=[("asan", 16, 400)],
    thorough=[("asan", 16, 6000), ("plain", 16, 12000)],
    floors={"quick": {"int_pairs_diff_beyond_32_bits": 100, "int_pairs_diff_beyond_64_bits": 10,
                      "float_pairs_with_denormal": 10, "strings_with_high_bytes": 10,
                      "string_pairs_sharing_prefix": 10, "seq_pairs_cross_kind": 10,
                      "seq_pairs_different_length": 10, "tree_pairs": 10, "boundary_keys_looked_up": 1}},
    rule="case = 40 Int, 30 Float, 30 String, 20 plain-struct, 8 sequence and 6 Tree pairs+triples drawn from "
         "boundary-biased generators; distinct = hash of the first values of each kind; non-trivial = contains an "
         "Int pair whose difference does not fit in 32 bits",
    assumptions=["NaN excluded (as the statement says)", "Tuple elements are distinct objects"],
)
