#!/usr/bin/env python3
"""mutant_prompt.py <tag> [IDs...] : prepare one scratch worktree of /repo and one prompt file per property for an
independent sub-agent that is to seed a property-breaking change.  The sub-agent sees ONLY the property text (and, so
that successive rounds differ, one line per earlier seeded change of the same property: file touched and what it needs
to manifest).  Nothing from /verif's checks is shown.  Worktrees: /tmp/mut/<tag><NN>; prompts: /tmp/mut/<tag><NN>.prompt.txt
"""
import glob, json, os, re, subprocess, sys

VERIF = os.path.dirname(os.path.dirname(os.path.abspath(__file__)))
TEMPLATE = open(os.path.join(VERIF, "bin", "mutant_prompt.txt")).read()


def main():
    tag = sys.argv[1]
    props = {}
    for l in open(os.path.join(VERIF, "properties.jsonl")):
        d = json.loads(l)
        props[d["id"]] = d
    ids = sys.argv[2:] or sorted(props)
    os.makedirs("/tmp/mut", exist_ok=True)
    for pid in ids:
        d = props[pid]
        nn = pid[1:]
        wt = "/tmp/mut/%s%s" % (tag, nn)
        if not os.path.exists(wt):
            subprocess.run(["git", "-C", "/repo", "worktree", "add", "--detach", wt, "HEAD"], check=True,
                           stdout=subprocess.DEVNULL, stderr=subprocess.DEVNULL)
        text = "Property %s: %s\n\nStatement: %s\n\nQuantified over: %s\n\nCode it is anchored in: %s\n" % (
            pid, d["title"], d["statement"], d["quantifier"]["text"], ", ".join(d["anchors"]["files"]))
        notes = []
        for m in sorted(glob.glob(os.path.join(VERIF, "seeded", pid + "*", "meta.json"))):
            meta = json.load(open(m))
            patch = open(os.path.join(os.path.dirname(m), "patch.diff")).read()
            files = sorted(set(re.findall(r"^\+\+\+ b/(\S+)", patch, re.M)))
            funcs = sorted(set(re.findall(r"^@@.*@@ .*?(\w+)\(", patch, re.M)))
            notes.append(' - a change in %s (near %s) that needs: "%s"' % (", ".join(files), ", ".join(funcs) or "?", meta["needs_to_manifest"]))
        p = TEMPLATE.replace("DIR", wt).replace("PROPTEXT", text)
        if notes:
            p += ("\n\nNOTE: other engineers have already produced these changes for this property:\n" + "\n".join(notes) +
                  "\nChoose a DIFFERENT mechanism: a different function, and if the property is anchored in several files or has "
                  "several clauses, a different file and a different clause of the property statement than the ones above.\n")
        open(wt + ".prompt.txt", "w").write(p)
        print(wt)


if __name__ == "__main__":
    main()
