"""C18 runner: build the library and one seeded workload in every configuration, compare transcripts."""
import itertools
import os
import shutil
import subprocess
import time
import concurrent.futures as cf

import vlib
from vlib import Inconclusive, Outcome, log

SWITCHES = ["-DCELLO_NDEBUG", "-DCELLO_CACHE=0", "-DCELLO_NGC"]


def configs(tier):
    combos = []
    for k in range(len(SWITCHES) + 1):
        for c in itertools.combinations(SWITCHES, k):
            combos.append(c)
    if tier == "quick":
        opts = ["-O0", "-O2"]
        ccs = ["gcc"]
    else:
        opts = ["-O0", "-O1", "-O2", "-O3"]
        ccs = ["gcc", "clang"]
    out = []
    for cc in ccs:
        for o in opts:
            for c in combos:
                name = "%s%s%s" % (cc, o, "".join("+" + x[2:].replace("CELLO_", "").replace("=0", "0") for x in c) or "")
                out.append((name, cc, o, c))
    return out


def runner(prop, spec, tier, seed, keep=False, replay=None):
    out = Outcome(prop, tier, seed, spec["level"])
    bd = vlib.builddir(prop)
    rc = 2
    try:
        cfgs = configs(tier)
        seeds = [seed * 1000 + i for i in range(3 if tier == "quick" else 20)]
        src = os.path.join(vlib.VERIF, "harness", "c18_workload.c")
        exes = {}
        for name, cc, o, switches in cfgs:
            try:
                exes[name] = vlib.build(name, os.path.join(bd, name), src, cc=cc,
                                        cflags="%s -g %s" % (o, " ".join(switches)))
            except Inconclusive as e:
                out.add_violation("C18:build-failed:%s" % "+".join(s[2:] for s in switches) or "default",
                                  "configuration %s does not build: %s" % (name, str(e)[-400:]), dict(config=name))
        # memory-safety run of the default configuration
        try:
            exes["asan-default"] = vlib.build("asan", os.path.join(bd, "asan-default"), src)
        except Inconclusive as e:
            raise
        out.builds = list(exes)
        transcripts = {}

        def run_one(item):
            name, s = item
            d = os.path.join(bd, name, "run%d" % s)
            os.makedirs(d, exist_ok=True)
            env = vlib.san_env(d)
            try:
                p = subprocess.run([exes[name], str(s), "%s-%d" % (name.replace("/", "_"), s)], stdout=subprocess.PIPE,
                                   stderr=subprocess.PIPE, text=True, errors="replace", cwd=d, env=env, timeout=300)
                return (name, s, p.returncode, p.stdout, p.stderr[-1500:])
            except subprocess.TimeoutExpired:
                return (name, s, -999, "", "timeout")
        items = [(n, s) for n in exes for s in seeds]
        with cf.ThreadPoolExecutor(max_workers=vlib.NCPU) as ex:
            for name, s, prc, so, se in ex.map(run_one, items):
                transcripts[(name, s)] = so
                if prc == -999:
                    out.inconclusive.append("workload timed out in %s" % name)
                elif prc != 0:
                    sw = name.split("+", 1)[1] if "+" in name else "default"
                    out.add_violation("C18:workload-failed:%s" % sw,
                                      "workload seed %d exited %s in configuration %s: %s" % (s, prc, name, se.strip()[-600:]),
                                      dict(config=name, wseed=s))
        base = "gcc-O0" if tier == "quick" else "gcc-O1"
        lines = 0
        nontrivial = set()
        for s in seeds:
            ref = transcripts.get((base, s), "")
            rl = ref.splitlines()
            if len(rl) < 50 or not rl or not rl[-1].endswith("done"):
                out.inconclusive.append("baseline transcript of seed %d is incomplete (%d lines)" % (s, len(rl)))
                continue
            for name in exes:
                if name == base:
                    continue
                tl = transcripts.get((name, s), "").splitlines()
                lines += len(tl)
                out.hashes["%s/%d" % (name, s)] = 1 if len(tl) >= 50 else 0
                if tl != rl:
                    k = 0
                    while k < len(tl) and k < len(rl) and tl[k] == rl[k]:
                        k += 1
                    sw = name.split("+", 1)[1] if "+" in name else ("opt" if name != "asan-default" else "asan")
                    out.add_violation("C18:transcript-differs:%s" % sw,
                                      "seed %d: %s vs %s differ at line %d: [%s] vs [%s]" % (
                                          s, name, base, k + 1, (tl[k] if k < len(tl) else "<end>")[:200],
                                          (rl[k] if k < len(rl) else "<end>")[:200]), dict(config=name, wseed=s))
        out.evals = lines
        out.counters["configurations_built"] = len(exes)
        out.counters["workload_runs"] = len(items)
        out.counters["transcript_lines_compared"] = lines
        out.samples = ["seed %d, %s: %s" % (seeds[0], base, l) for l in transcripts.get((base, seeds[0]), "").splitlines()[1:6]]
        out.extra["programs"] = len(items)
        out.extra["configurations"] = sorted(exes)
        rc = vlib.finish(out, spec["rule"], spec.get("floors", {}).get(tier, spec.get("floors", {}).get("quick", {})),
                         spec.get("assumptions", ()))
    except Inconclusive as e:
        log("INCONCLUSIVE: %s" % e)
        rc = 2
    finally:
        if not keep:
            shutil.rmtree(bd, ignore_errors=True)
            try:
                os.rmdir(os.path.join(vlib.VERIF, ".build"))
            except OSError:
                pass
    return rc
