"""Hand-written mutants used to validate that every monitor fires (bin/selftest.py runs them).

Each entry: name, file (relative to the repository), old text, new text, the checks expected to notice.
The runner applies one replacement to a scratch copy of /repo, requires the repository's own suite to stay
green (otherwise the mutant is recorded as 'suite-red' and not counted), runs the listed checks with
VERIF_REPO=<scratch>, and records detected / missed.
"""

M = []


def m(name, file, old, new, checks, note="", tier=None, env=None):
    M.append(dict(name=name, file=file, old=old, new=new, checks=checks, note=note, tier=tier, env=env or {}))


# ---------------- collector: marking ----------------
m("gc-roots-not-marked", "src/GC.c",
  "    if (gc->entries[i].root) {\n      gc->entries[i].marked = true;\n      GC_Recurse(gc, gc->entries[i].ptr);",
  "    if (gc->entries[i].root) {\n      gc->entries[i].marked = true;",
  ["C01"], "what a root holder references is no longer traced")
m("gc-scan-misses-last-word", "src/GC.c",
  "for (size_t i = 0; i+sizeof(var) <= size(type); i += sizeof(var)) {",
  "for (size_t i = 0; i+sizeof(var) < size(type); i += sizeof(var)) {",
  ["C01"], "last pointer-sized field of a plain struct is not scanned")
m("gc-array-mark-stops-early", "src/Array.c",
  "static void Array_Mark(var self, var gc, void(*f)(var,void*)) {\n  struct Array* a = self;\n  for (size_t i = 0; i < a->nitems; i++) {",
  "static void Array_Mark(var self, var gc, void(*f)(var,void*)) {\n  struct Array* a = self;\n  for (size_t i = 0; i+1 < a->nitems; i++) {",
  ["C01"], "last element of an Array is not marked")
m("gc-tuple-mark-skips-first", "src/Tuple.c",
  "  size_t i = 0;\n  if (t->items is NULL) { return; }\n  while (t->items[i] isnt Terminal) {\n    f(gc, t->items[i]); i++;",
  "  size_t i = 0;\n  if (t->items is NULL) { return; }\n  if (t->items[0] isnt Terminal) { i = 1; }\n  while (t->items[i] isnt Terminal) {\n    f(gc, t->items[i]); i++;",
  ["C01"], "first element of a heap Tuple is not marked")
m("gc-table-mark-keys-only", "src/Table.c",
  "      f(gc, Table_Key(t, i));\n      f(gc, Table_Val(t, i));",
  "      f(gc, Table_Key(t, i));",
  ["C01"], "Table values are not marked")
m("gc-maxptr-filter-off-by-one", "src/GC.c",
  "  or  pval > gc->maxptr) { return; }",
  "  or  pval >= gc->maxptr) { return; }",
  ["C01"], "the object at the highest address is never marked")
m("gc-tls-not-traced", "src/GC.c",
  "mark(current(Thread), gc, (void(*)(var,void*))GC_Mark_And_Recurse);",
  "mark(current(Thread), gc, (void(*)(var,void*))GC_Mark_Item);",
  ["C01"], "reverts the thread-local-storage repair")
# (dropped: "sweep takes roots" -- roots are always marked by GC_Mark first, so `not marked` alone is equivalent
#  during every collection; it differs only in the teardown sweep, where the program has deleted its roots already)
# ---------------- collector: registry ----------------
m("gc-marks-left-set", "src/GC.c",
  "    if (gc->entries[i].marked) {\n      gc->entries[i].marked = false;\n      continue;\n    }",
  "    if (gc->entries[i].marked) {\n      continue;\n    }",
  ["C17"], "mark bits survive the collection (objects then live for ever: C01 cannot see that, C17 does)")
m("gc-rem-does-not-count", "src/GC.c",
  "      gc->nitems--;\n      \n      dealloc(destruct(freeitem));",
  "      dealloc(destruct(freeitem));",
  ["C17"], "explicit deletion leaves the count of registered objects too high")
m("gc-set-ptr-displaces-equal", "src/GC.c",
  "    uint64_t p = GC_Probe(gc, i, h);\n    if (j >= p) {\n      struct GCEntry tmp = gc->entries[i];",
  "    uint64_t p = GC_Probe(gc, i, h);\n    if (j > p + 1) {\n      struct GCEntry tmp = gc->entries[i];",
  ["C17", "C01"], "robin-hood insertion order broken: lookups stop early")
m("gc-del-stopped-ignored-again", "src/GC.c",
  "  struct GC* gc = self;\n  GC_Rem_Ptr(gc, key);",
  "  struct GC* gc = self;\n  if (not gc->running) { return; }\n  GC_Rem_Ptr(gc, key);",
  ["C06"], "reverts the 'del while stopped' repair")
m("gc-box-pending-entry-cleared", "src/GC.c",
  "      gc->freelist[i] = (var)((uintptr_t)ptr | 1);\n      destruct(ptr);\n      return;",
  "      gc->freelist[i] = (var)((uintptr_t)ptr | 1);\n      return;",
  ["C06"], "an owned object pending in the sweep is dropped when its owner deletes it")
# ---------------- Table ----------------
m("table-lookup-stops-one-early", "src/Table.c",
  "    uint64_t h = Table_Key_Hash(t, i);\n    if (h is 0 or j > Table_Probe(t, i, h)) {\n      throw(KeyError, \"Key %$ not in Table!\", key);\n    }\n    \n    if (eq(Table_Key(t, i), key)) {\n      return Table_Val(t, i);",
  "    uint64_t h = Table_Key_Hash(t, i);\n    if (h is 0 or j + (j > 2) > Table_Probe(t, i, h)) {\n      throw(KeyError, \"Key %$ not in Table!\", key);\n    }\n    \n    if (eq(Table_Key(t, i), key)) {\n      return Table_Val(t, i);",
  ["C02"], "get gives up after three probes in long collision runs")
m("table-rehash-keeps-count", "src/Table.c",
  "  t->nslots = new_size;\n  t->nitems = 0;\n  t->data = calloc(t->nslots, Table_Step(t));",
  "  t->nslots = new_size;\n  t->data = calloc(t->nslots, Table_Step(t));",
  ["C02"], "len doubles at every rehash")
m("table-update-leaks-old-value", "src/Table.c",
  "    if (eq(Table_Key(t, i), Table_Swapspace_Key(t, t->sspace0))) {\n      destruct(Table_Key(t, i));\n      destruct(Table_Val(t, i));",
  "    if (eq(Table_Key(t, i), Table_Swapspace_Key(t, t->sspace0))) {\n      destruct(Table_Key(t, i));",
  ["C05"], "replaced value is never finalised")
m("table-rem-keeps-value-alive", "src/Table.c",
  "      destruct(Table_Key(t, i));\n      destruct(Table_Val(t, i));\n      memset((char*)t->data + i * Table_Step(t), 0, Table_Step(t));",
  "      destruct(Table_Key(t, i));\n      memset((char*)t->data + i * Table_Step(t), 0, Table_Step(t));",
  ["C05"], "removed value is never finalised")
m("table-duplicate-on-update-again", "src/Table.c",
  "    uint64_t p = Table_Probe(t, i, h);\n    if (j > p) {",
  "    uint64_t p = Table_Probe(t, i, h);\n    if (j >= p) {",
  ["C02", "C05"], "reverts the duplicate-binding repair")
# ---------------- Tree ----------------
m("tree-remfix-missing-recolour", "src/Tree.c",
  "    and Tree_Is_Black(m, *Tree_Right(m, Tree_Sibling(m, node)))) {\n      Tree_Set_Red(m, Tree_Sibling(m, node));\n      node = Tree_Get_Parent(m, node);\n      continue;",
  "    and Tree_Is_Black(m, *Tree_Right(m, Tree_Sibling(m, node)))) {\n      node = Tree_Get_Parent(m, node);\n      continue;",
  ["C03"], "black sibling not recoloured when the double black moves up")
m("tree-rem-leaks-key", "src/Tree.c",
  "  destruct(Tree_Key(m, node));\n  destruct(Tree_Val(m, node));\n  \n  if ((*Tree_Left(m, node) isnt NULL)",
  "  destruct(Tree_Val(m, node));\n  \n  if ((*Tree_Left(m, node) isnt NULL)",
  ["C05"], "removed key is never finalised")
m("tree-iter-prev-wrong-child", "src/Tree.c",
  "  if (*Tree_Left(m, node) isnt NULL) {\n    node = *Tree_Left(m, node);\n    while (*Tree_Right(m, node) isnt NULL) {\n      node = *Tree_Right(m, node);\n    }\n    return Tree_Key(m, node);\n  }\n  \n  while (true) {\n    if (prnt is NULL) { return Terminal; }\n    if (node is *Tree_Right(m, prnt)) { return Tree_Key(m, prnt); }",
  "  if (*Tree_Left(m, node) isnt NULL) {\n    node = *Tree_Left(m, node);\n    return Tree_Key(m, node);\n  }\n  \n  while (true) {\n    if (prnt is NULL) { return Terminal; }\n    if (node is *Tree_Right(m, prnt)) { return Tree_Key(m, prnt); }",
  ["C03", "C11"], "backward iteration skips the right spine of the left subtree")
m("tree-set-fix-not-called-right", "src/Tree.c",
  "        *Tree_Right(m, node) = newn;\n        Tree_Set_Parent(m, newn, node);\n        Tree_Set_Fix(m, newn);",
  "        *Tree_Right(m, node) = newn;\n        Tree_Set_Parent(m, newn, node);",
  ["C03"], "insertion on the right is not rebalanced")
# ---------------- sequences ----------------
m("array-pop-at-moves-one-too-many", "src/Array.c",
  "          (char*)a->data + Array_Step(a) * (i+1), \n          Array_Step(a) * ((a->nitems-1) - i));\n  \n  a->nitems--;",
  "          (char*)a->data + Array_Step(a) * (i+1), \n          Array_Step(a) * (a->nitems - i));\n  \n  a->nitems--;",
  ["C04"], "reads one element past the store (ASan)")
m("list-unlink-tail-keeps-next", "src/List.c",
  "    l->tail = prev;\n    *List_Next(l, prev) = NULL;",
  "    l->tail = prev;",
  ["C04"], "new tail still points at the freed node")
m("array-reserve-less-too-eager", "src/Array.c",
  "    a->nslots = a->nitems;\n    a->data = realloc(a->data, Array_Step(a) * a->nslots);\n  }\n}",
  "    a->nslots = a->nitems;\n    a->data = realloc(a->data, Array_Step(a) * (a->nslots ? a->nslots - 1 : 0));\n  }\n}",
  ["C04"], "store is one element too small after shrinking")
m("array-sort-partition-off-by-one", "src/Array.c",
  "  for (int64_t i = l; i < r; i++) {\n    if (f(Array_Get(a, $I(i)), Array_Item(a, r))) {",
  "  for (int64_t i = l; i < r-1; i++) {\n    if (f(Array_Get(a, $I(i)), Array_Item(a, r))) {",
  ["C04"], "sort leaves the element before the pivot unexamined")
# (dropped: "tuple concat writes no terminator for an empty argument" -- realloc keeps the old terminator: equivalent)
# ---------------- exceptions ----------------
m("exc-handled-fires-again", "src/Exception.c",
  "  if (len(args) is 0) {\n    e->active = false;\n    return e->obj;",
  "  if (len(args) is 0) {\n    return e->obj;",
  ["C07"], "reverts half of the exception repair (catch-all)")
m("exc-depth-not-restored-on-fail", "src/Exception.c",
  "void exception_try_fail(void) {\n  struct Exception* e = current(Exception);\n  e->active = true;",
  "void exception_try_fail(void) {\n  struct Exception* e = current(Exception);\n  e->active = true;\n  if (e->depth > 3) { e->depth--; }",
  ["C07"], "nesting depth lost when an exception passes more than three levels")
# ---------------- type system ----------------
m("type-cache-slot-shared", "src/Type.c",
  "Type_Cache_Entry( 6, Hash);    Type_Cache_Entry( 7, Len);",
  "Type_Cache_Entry( 6, Hash);    Type_Cache_Entry( 6, Len);",
  ["C08"], "Hash and Len share a cache slot")
m("type-scan-memoises-next-entry", "src/Type.c",
  "    if (strcmp(t->name, Type_Builtin_Name(cls)) is 0) {\n      t->cls = cls;\n      return t->inst;",
  "    if (strcmp(t->name, Type_Builtin_Name(cls)) is 0) {\n      (t+1)->cls = cls;\n      return t->inst;",
  ["C08"], "the class pointer is memoised on the following entry")
m("type-empty-member-not-checked", "src/Type.c",
  "  if (meth is NULL) {\n    return throw(ClassError,\n      \"Type '%s' implements class '%s' but not the method '%s' required\",",
  "  if (meth is NULL and offset > 0) {\n    return throw(ClassError,\n      \"Type '%s' implements class '%s' but not the method '%s' required\",",
  ["C08", "C12"], "an empty FIRST member is called (NULL call) instead of raising")
# ---------------- cmp / hash ----------------
m("float-cmp-in-float", "src/Num.c",
  "  double c = Float_C_Float(self) - c_float(obj);",
  "  double c = (float)Float_C_Float(self) - (float)c_float(obj);",
  ["C09", "C10"], "comparison in single precision")
m("tuple-hash-order-dependent", "src/Tuple.c",
  "  for (size_t i = 0; i < n; i++) {\n    h ^= hash(t->items[i]);\n  }",
  "  for (size_t i = 0; i < n; i++) {\n    h = (h << 1) ^ hash(t->items[i]);\n  }",
  ["C10"], "a Tuple no longer hashes like the Array / List with the same elements")
m("string-cmp-signed-bytes", "src/String.c",
  "  return strcmp(String_C_Str(self), c_str(obj));",
  "  const char* a = String_C_Str(self); const char* b = c_str(obj);\n  while (*a and *a is *b) { a++; b++; }\n  return (int)*a - (int)*b;",
  ["C09", "C16"], "bytes above 127 ordered as negative numbers")
m("list-cmp-ignores-length", "src/List.c",
  "    if (item0 is Terminal and item1 is Terminal) { return 0; }\n    if (item0 is Terminal) { return -1; }\n    if (item1 is Terminal) { return  1; }\n    int c = cmp(item0, item1);\n    if (c < 0) { return -1; }\n    if (c > 0) { return  1; }\n    item0 = List_Iter_Next(self, item0);",
  "    if (item0 is Terminal or item1 is Terminal) { return 0; }\n    int c = cmp(item0, item1);\n    if (c < 0) { return -1; }\n    if (c > 0) { return  1; }\n    item0 = List_Iter_Next(self, item0);",
  ["C09"], "a List equals any sequence it is a prefix of")
# ---------------- iteration / views ----------------
m("range-next-inclusive-stop", "src/Iter.c",
  "  i->val += r->step;\n  if (r->step == 0) { return Terminal; }\n  if (r->step  > 0 and i->val >= r->stop) { return Terminal; }",
  "  i->val += r->step;\n  if (r->step == 0) { return Terminal; }\n  if (r->step  > 0 and i->val > r->stop) { return Terminal; }",
  ["C11"], "forward iteration of a Range includes stop")
m("zip-len-of-longest", "src/Iter.c",
  "    mlen = num < mlen ? num : mlen;",
  "    mlen = num > mlen ? num : mlen;",
  ["C11"], "len of a Zip is that of the longest input")
m("slice-arg-no-upper-clamp", "src/Iter.c",
  "    a = a > n ? n   : a;",
  "    a = a > n+1 ? n   : a;",
  ["C11"], "stop = len+1 is not clamped")
m("filter-last-skips-check", "src/Iter.c",
  "  var curr = iter_last(f->iter);\n  while (true) {\n    if (curr is Terminal or call_with(f->func, curr)) {",
  "  var curr = iter_last(f->iter);\n  while (true) {\n    if (true) {",
  ["C11"], "backward iteration of a Filter starts at a rejected element")
# ---------------- faults ----------------
m("array-set-checks-after-assign", "src/Array.c",
  "  if (i < 0 or i >= (int64_t)a->nitems) {\n    throw(IndexOutOfBoundsError, \n      \"Index '%i' out of bounds for Array of size %i.\", key, $I(a->nitems));\n    return;\n  }\n#endif\n  \n  assign(Array_Item(a, i), val);",
  "  if (i < 0 or i > (int64_t)a->nitems) {\n    throw(IndexOutOfBoundsError, \n      \"Index '%i' out of bounds for Array of size %i.\", key, $I(a->nitems));\n    return;\n  }\n#endif\n  \n  assign(Array_Item(a, i), val);",
  ["C12"], "set at index len writes one past the last element")
m("table-resize-below-len-allowed", "src/Table.c",
  "  if (n < t->nitems) {\n    throw(FormatError, ",
  "  if (n + 1 < t->nitems) {\n    throw(FormatError, ",
  ["C12"], "resize to len-1 is accepted (table over-full)")
m("list-at-negative-unchecked", "src/List.c",
  "  if (i < 0 or i >= (int64_t)l->nitems) {\n    return throw(IndexOutOfBoundsError,",
  "  if (i >= (int64_t)l->nitems) {\n    return throw(IndexOutOfBoundsError,",
  ["C12"], "index below -len walks off the list")
# ---------------- threads ----------------
m("mutex-trylock-always-true", "src/Thread.c",
  "  int err = pthread_mutex_trylock(&m->mutex);\n  if (err == EBUSY) { return false; }",
  "  int err = pthread_mutex_trylock(&m->mutex);\n  if (err == EBUSY) { return true; }",
  ["C13"], "trylock claims success when the mutex is busy")
m("gc-record-shared-between-threads", "src/GC.c",
  "static var GC_Current(void) {\n  return get(current(Thread), $S(GC_TLS_KEY));\n}",
  "static var GC_Shared = NULL;\nstatic var GC_Current(void) {\n  if (GC_Shared is NULL) { GC_Shared = get(current(Thread), $S(GC_TLS_KEY)); }\n  return GC_Shared;\n}",
  ["C13"], "every thread uses the collector of the first thread")
m("thread-join-does-not-wait", "src/Thread.c",
  "  int err = pthread_join(t->thread, NULL);\n  if (err is EINVAL) { throw(ValueError, \"Invalid Argument to Thread Join\"); }",
  "  int err = t->is_running ? 0 : pthread_join(t->thread, NULL);\n  if (err is EINVAL) { throw(ValueError, \"Invalid Argument to Thread Join\"); }",
  ["C13"], "join returns at once for a running thread")
# ---------------- strings / formatting ----------------
m("string-concat-no-room-for-nul", "src/String.c",
  "  s->val = realloc(s->val, strlen(s->val) + strlen(c_str(obj)) + 1);",
  "  s->val = realloc(s->val, strlen(s->val) + strlen(c_str(obj)));",
  ["C16", "C14"], "terminator written past the allocation (ASan)")
m("string-resize-no-terminator", "src/String.c",
  "  } else {\n    s->val[n] = '\\0';\n  }",
  "  } else if (n > 0) {\n    s->val[n] = '\\0';\n  }",
  ["C16"], "resize(s, 0) leaves the old first character")
m("print-percent-skips-one", "src/Show.c",
  "      if (off < 0) { throw(FormatError, \"Unable to output '%%%%'!\"); }\n      pos += off;\n      fmt += 2;",
  "      if (off < 0) { throw(FormatError, \"Unable to output '%%%%'!\"); }\n      pos += off;\n      fmt += 2 + (*(fmt+2) is '%' and *(fmt+3) isnt '%');",
  ["C14"], "a specification directly after %% loses its percent sign")
m("int-show-as-int", "src/Num.c",
  "  return print_to(output, pos, \"%li\", self);",
  "  return print_to(output, pos, \"%i\", self);",
  ["C15", "C14"], "show of an Int prints only the low 32 bits")
m("string-show-backslash-unescaped", "src/String.c",
  "      case '\\\\': pos = print_to(out, pos, \"\\\\\\\\\"); break;",
  "      case '\\\\': pos = print_to(out, pos, \"\\\\\"); break;",
  ["C15"], "backslash written unescaped: does not read back")
m("float-look-float-again", "src/Num.c",
  "  return scan_from(input, pos, \"%lf\", self);",
  "  return scan_from(input, pos, \"%f\", self);",
  ["C15"], "reverts the Float look repair")
# ---------------- files ----------------
m("file-close-keeps-handle", "src/File.c",
  "    throw(IOError, \"Failed to close file: %i\", $I(err));\n  }\n  \n  f->file = NULL;",
  "    throw(IOError, \"Failed to close file: %i\", $I(err));\n  }\n  ",
  ["C20"], "the closed handle stays in the object: stale handle, double close")
m("file-eof-inverted-on-empty", "src/File.c",
  "  return feof(f->file);",
  "  return feof(f->file) and ftell(f->file) > 0;",
  ["C20"], "seof is false after reading past the end of an empty file")
m("file-open-does-not-close-old", "src/File.c",
  "  if (f->file isnt NULL) { File_Close(self); }\n  \n  f->file = fopen(c_str(filename), c_str(access));",
  "  f->file = fopen(c_str(filename), c_str(access));",
  ["C20"], "reopening leaks the previous stream")
# ---------------- allocation classes / configurations ----------------
m("array-elements-claim-heap", "src/Array.c",
  "  header_init(head, a->type, AllocData);",
  "  header_init(head, a->type, AllocHeap);",
  ["C19"], "embedded Array elements say they are heap objects: del of an element frees inside the store")
m("stack-objects-not-refused", "src/Alloc.c",
  "  if (header(self)->alloc is (var)AllocStack) {\n    throw(ResourceError,",
  "  if (false and header(self)->alloc is (var)AllocStack) {\n    throw(ResourceError,",
  ["C19"], "dealloc of a stack object calls free on stack memory")
m("ndebug-changes-behaviour", "src/Array.c",
  "  a->nitems--;\n  Array_Reserve_Less(a);\n}\n\nstatic void Array_Rem(var self, var obj) {",
  "  a->nitems--;\n#if CELLO_BOUND_CHECK == 1\n  Array_Reserve_Less(a);\n#else\n  if (a->nitems is 2) { a->nitems--; }\n#endif\n}\n\nstatic void Array_Rem(var self, var obj) {",
  ["C18"], "only the CELLO_NDEBUG build loses an element")
m("nocache-scan-skips-first-instance", "src/Type.c",
  "#endif\n  \n  return Type_Scan(self, cls);\n}",
  "#else\n  if (cls is Len) { return NULL; }\n#endif\n  \n  return Type_Scan(self, cls);\n}",
  ["C18"], "only the CELLO_CACHE=0 build cannot find Len")


# ---------------- uninitialised memory (valgrind memcheck configuration of the thorough tier) ----------------
MC = {"VERIF_ONLY_CONFIG": "memcheck"}
m("tree-node-not-zeroed", "src/Tree.c",
  "  var node = calloc(1, 3 * sizeof(var) + ",
  "  var node = malloc(3 * sizeof(var) + ",
  ["C03"], "a Tree node comes from malloc: key and value bodies start out uninitialised", tier="thorough", env=MC)
m("list-node-not-zeroed", "src/List.c",
  "  var item = calloc(1, 2 * sizeof(var) + sizeof(struct Header) + l->tsize);",
  "  var item = malloc(2 * sizeof(var) + sizeof(struct Header) + l->tsize);",
  ["C04"], "a List node comes from malloc", tier="thorough", env=MC)
m("array-slot-not-zeroed", "src/Array.c",
  "  memset((char*)a->data + Array_Step(a) * i, 0, Array_Step(a));\n",
  "",
  ["C04"], "a new Array slot keeps whatever realloc left there", tier="thorough", env=MC)
m("object-not-zeroed", "src/Alloc.c",
  "    struct Header* head = calloc(1, sizeof(struct Header) + size(type));",
  "    struct Header* head = malloc(sizeof(struct Header) + size(type));",
  ["C10", "C19"], "heap objects come from malloc: fields a constructor does not set are uninitialised", tier="thorough", env=MC)
